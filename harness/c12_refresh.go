//go:build verif

package main

// C12 — Stale sessions are refreshed or re-validated before use, once per session.
//
// Workload A (systematic): n replicas (same cookie secret, same Redis through separate RedisFront ports, token
// endpoint path per replica) each receive one request carrying the same stale ticket. Every store command on the
// session key, every lock command and every refresh grant at the IdP is a GATE; a stateless-search scheduler
// re-executes the scenario from a fresh state per schedule, forcing a prefix of choices and exploring alternatives
// depth-first. Failed lock attempts while the lock is held pass through un-gated (not a choice point); quiescence is
// event driven (every replica pending at a gate, finished, or spinning while the lock is held).
// Oracle per schedule (history rule): exactly one refresh grant, every request served by the upstream, every access
// token seen by the upstream is the one the IdP considers live, and the browser's jar afterwards authenticates a
// follow-up request without a further grant.
// Workload B (stress): 2-16 truly concurrent requests on one and on several replicas with seeded random delays at the
// gates, under the race detector. Workload C (sequential): ages around the refresh period x provider behaviours x stores.

import (
	"crypto/sha256"
	"fmt"
	"math/rand"
	"net/http"
	"net/http/httptest"
	"sort"
	"strconv"
	"strings"
	"sync"
	"sync/atomic"
	"testing"
	"time"

	"github.com/alicebob/miniredis/v2"
)

const (
	c12Running = iota
	c12Pending
	c12Spinning
	c12Finished
)

type c12Op struct {
	inst    int
	name    string
	release chan struct{}
}

type c12Sched struct {
	mu      sync.Mutex
	enabled bool
	n       int
	state   []int
	pending map[int]*c12Op
	trace   []string
	wake    chan struct{}
	delay   func() time.Duration // stress mode: no scheduling, just a delay
	idpLag  time.Duration        // stress mode: latency of the provider's refresh endpoint (below the refresh lock's 2 s)
}

func (s *c12Sched) signal() {
	select {
	case s.wake <- struct{}{}:
	default:
	}
}

func (s *c12Sched) gate(inst int, name string) {
	s.mu.Lock()
	if !s.enabled {
		d, lag := s.delay, s.idpLag
		s.mu.Unlock()
		if d != nil {
			time.Sleep(d())
		}
		if lag > 0 && name == "IDP-REFRESH" {
			time.Sleep(lag)
		}
		return
	}
	op := &c12Op{inst: inst, name: name, release: make(chan struct{})}
	s.pending[inst] = op
	s.state[inst] = c12Pending
	s.mu.Unlock()
	s.signal()
	<-op.release
}

func (s *c12Sched) mark(inst, st int) {
	s.mu.Lock()
	if s.enabled && inst < len(s.state) {
		s.state[inst] = st
	}
	s.mu.Unlock()
	s.signal()
}

type c12Universe struct {
	id    int
	n     int
	w     *vfWorld
	mr    *miniredis.Miniredis
	hub   *vfRedisHub
	p     []*vfProxy
	s     *c12Sched
	flags []string
}

func c12NewUniverse(t *testing.T, id, n int) *c12Universe { return c12NewUniverseMode(t, id, n, "standalone") }

// c12NewUniverseMode: mode "cluster" / "sentinel" make the replicas reach the store through oauth2-proxy's Cluster / Sentinel
// client (own builders, the cluster with its own wrapper type and lock constructor); used by the stress phase only — those
// builders ignore URL parameters, so the library's 3 s read timeout applies, which the scheduler's gates would exceed.
func c12NewUniverseMode(t *testing.T, id, n int, mode string) *c12Universe {
	w := vfNewWorld(t)
	mr, err := miniredis.Run()
	if err != nil {
		t.Fatalf("miniredis: %v", err)
	}
	u := &c12Universe{id: id, n: n, w: w, mr: mr, hub: vfNewRedisHub(mr), s: &c12Sched{n: n, wake: make(chan struct{}, 1), pending: map[int]*c12Op{}, state: make([]int, n)}}
	w.OnClose(func() { u.hub.Close(); mr.Close() })
	iss := w.IdP.Issuer
	for i := 0; i < n; i++ {
		f := u.hub.Front(i)
		p, err := w.NewProxy(append([]string{"--skip-oidc-discovery=true", "--login-url=" + iss + "/authorize", "--redeem-url=" + fmt.Sprintf("%s/token/inst%d", iss, i), "--oidc-jwks-url=" + iss + "/jwks",
			"--session-store-type=redis", "--cookie-refresh=1m", "--cookie-expire=2h", "--pass-access-token=true"}, f.ModeFlags(mode, "read_timeout=30s&max_retries=-1&pool_size=8")...)...)
		if err != nil {
			t.Fatalf("universe %d replica %d: %v", id, i, err)
		}
		u.p = append(u.p, p)
		u.flags = p.Flags
	}
	// gates: session-key / lock operations at the store ...
	u.hub.SetHooks(func(c *vfRedisCmd) vfRedisDecision {
		if c.Op == "" || strings.Contains(c.Key, "healthcheck") || c.Op == "PING" {
			return vfRedisDecision{}
		}
		if c.Op == "OBTAIN" && u.mr.Exists(c.Key) {
			u.s.mark(c.Inst, c12Spinning) // doomed attempt: lock is held; pass through, not a choice point
			return vfRedisDecision{}
		}
		return vfRedisDecision{Gate: true}
	}, func(c *vfRedisCmd) { u.s.gate(c.Inst, c.Op) })
	// ... and refresh grants at the IdP
	w.IdP.Set(func(c *vfIdPCfg) {
		c.Hook = func(ev *vfIdPEvent) *vfIdPReply {
			if ev.Kind == "token.refresh" {
				inst := 0
				fmt.Sscanf(ev.Path, "/token/inst%d", &inst)
				u.s.gate(inst, "IDP-REFRESH")
			}
			return nil
		}
	})
	return u
}

type c12Result struct {
	Behaviour string   `json:"behaviour"`
	N         int      `json:"replicas"`
	Prefix    []int    `json:"forced_prefix"`
	Choices   []int    `json:"choices"`
	Trace     []string `json:"interleaving"`
	Codes     []int    `json:"status"`
	Tokens    []string `json:"access_token_seen_upstream"`
	TokState  []string `json:"token_state_at_idp"`
	Grants    int      `json:"refresh_grants_attempted"`
	GrantsOK  int      `json:"refresh_grants_ok"`
	FollowUp  int      `json:"follow_up_status"`
	FollowUpGrants int `json:"follow_up_grants"`
	Cleared   []bool   `json:"cookie_cleared"`
	KeysLeft  []string `json:"store_keys_left,omitempty"`
	Note      string   `json:"note,omitempty"`
	enabledAt [][]int
	namesAt   [][]string
}

// c12Stale prepares a fresh stale session in the universe and returns the browser holding its ticket.
// behaviour: rotating | norefreshtoken | refresh-fails-idtoken-valid | refresh-fails-idtoken-expired | norefreshtoken-idtoken-expired
func (u *c12Universe) stale(behaviour string, age time.Duration) (*vfBrowser, string, error) {
	u.mr.FlushAll()
	u.w.IdP.Set(func(c *vfIdPCfg) {
		c.RefreshFails = strings.HasPrefix(behaviour, "refresh-fails")
		c.NoRefreshRotation = strings.HasPrefix(behaviour, "nonrotating") // provider whose refresh tokens stay valid (no rotation)
	})
	id := vfIdentity{Sub: "u-c12", Email: "c12@example.com", Groups: []string{"g"}, NoRefreshToken: strings.HasPrefix(behaviour, "norefreshtoken")}
	b := vfNewBrowser("")
	p := u.p[0]
	if _, _, err := b.Login(p, id, "/"); err != nil {
		return nil, "", err
	}
	req := httptest.NewRequest("GET", "/", nil)
	req.Header.Set("Cookie", vfCookieHeader(b.Jar.For("proxy.test", "/", false)))
	s, err := p.P.LoadCookiedSession(req)
	if err != nil {
		return nil, "", err
	}
	old := time.Now().Add(-age)
	s.CreatedAt = &old
	if strings.HasSuffix(behaviour, "idtoken-expired") {
		cl := vfJWTClaims(s.IDToken)
		cl["exp"] = time.Now().Add(-time.Hour).Unix()
		s.IDToken = vfMint(cl, vfMintOpts{})
	}
	at0 := s.AccessToken
	rw := httptest.NewRecorder()
	if err := p.P.SaveSession(rw, req, s); err != nil {
		return nil, "", err
	}
	b.Jar.Apply("proxy.test", "/", rw.Header().Values("Set-Cookie"))
	return b, at0, nil
}

// runSchedule executes one schedule: prefix forces the first choices (index into the sorted enabled set),
// beyond the prefix pick() decides (nil = always the first).
func (u *c12Universe) runSchedule(behaviour string, prefix []int, pick func(nEnabled int) int) *c12Result {
	res := &c12Result{Behaviour: behaviour, N: u.n, Prefix: prefix}
	signout := strings.HasSuffix(behaviour, "+signout")
	behaviour = strings.TrimSuffix(behaviour, "+signout")
	s := u.s
	s.mu.Lock()
	s.enabled = false
	s.mu.Unlock()
	b, at0, err := u.stale(behaviour, 10*time.Minute)
	if err != nil {
		res.Note = "rig: " + err.Error()
		return res
	}
	_ = at0
	cookie := vfCookieHeader(b.Jar.For("proxy.test", "/", false))
	g0, _ := u.w.IdP.RefreshGrants()
	s.mu.Lock()
	s.enabled = true
	s.pending = map[int]*c12Op{}
	s.trace = nil
	for i := range s.state {
		s.state[i] = c12Running
	}
	s.mu.Unlock()
	resps := make([]*vfResp, u.n)
	ids := make([]string, u.n)
	var wg sync.WaitGroup
	for i := 0; i < u.n; i++ {
		ids[i] = fmt.Sprintf("c12-u%d-%s-%d-%d", u.id, vfRandHex(4), len(prefix), i)
		wg.Add(1)
		go func(i int) {
			defer wg.Done()
			target := "/x"
			if signout && i == 1 {
				target = "/oauth2/sign_out?rd=%2Fbye" // replica 1 signs the user out while replica 0 serves a request of the stale session
			}
			resps[i] = u.p[i].Do(vfGET(target, "X-Vf-Id", ids[i]).H("Cookie", cookie))
			s.mark(i, c12Finished)
		}(i)
	}
	lockHeld := func() bool {
		for _, k := range u.mr.Keys() {
			if strings.HasSuffix(k, ".lock") {
				return true
			}
		}
		return false
	}
	step := 0
	deadline := time.Now().Add(30 * time.Second)
	for {
		// wait for quiescence
		var en []int
		allFin := false
		for {
			s.mu.Lock()
			quiet, nfin := true, 0
			spinning := false
			for i := 0; i < u.n; i++ {
				switch s.state[i] {
				case c12Running:
					quiet = false
				case c12Spinning:
					spinning = true
				case c12Finished:
					nfin++
				}
			}
			if quiet && spinning && !lockHeld() {
				quiet = false // a spinner will find the lock free on its next attempt and arrive at a gate
			}
			if quiet {
				en = en[:0]
				for i := range s.pending {
					en = append(en, i)
				}
				sort.Ints(en)
				allFin = nfin == u.n
				s.mu.Unlock()
				break
			}
			s.mu.Unlock()
			if time.Now().After(deadline) {
				res.Note = fmt.Sprintf("scheduler: no quiescence within 30s (trace %v)", s.trace)
				u.abort()
				wg.Wait()
				return res
			}
			select {
			case <-s.wake:
			case <-time.After(2 * time.Millisecond): // spinners wake by themselves (10 ms retry sleep in the code under test)
			}
		}
		if allFin {
			break
		}
		if len(en) == 0 {
			// every unfinished replica is spinning while the lock is held and nobody can release it: deadlock
			res.Note = fmt.Sprintf("deadlock: lock held, nothing enabled (trace %v)", s.trace)
			u.abort()
			wg.Wait()
			break
		}
		c := 0
		if step < len(prefix) {
			c = prefix[step]
			if c >= len(en) {
				res.Note = "replay diverged: enabled set smaller than recorded"
				c = len(en) - 1
			}
		} else if pick != nil {
			c = pick(len(en))
		}
		s.mu.Lock()
		var names []string
		for _, i := range en {
			names = append(names, s.pending[i].name)
		}
		op := s.pending[en[c]]
		delete(s.pending, en[c])
		s.state[op.inst] = c12Running
		s.trace = append(s.trace, fmt.Sprintf("%d:%s", op.inst, op.name))
		s.mu.Unlock()
		res.Choices = append(res.Choices, c)
		res.enabledAt = append(res.enabledAt, append([]int{}, en...))
		res.namesAt = append(res.namesAt, names)
		close(op.release)
		step++
	}
	wg.Wait()
	s.mu.Lock()
	s.enabled = false
	res.Trace = append([]string{}, s.trace...)
	s.mu.Unlock()
	g1, _ := u.w.IdP.RefreshGrants()
	res.Grants = g1 - g0
	for _, e := range u.w.IdP.Events() {
		_ = e
	}
	for i := 0; i < u.n; i++ {
		r := resps[i]
		res.Codes = append(res.Codes, r.Code)
		tok := ""
		for _, h := range u.w.Up.FindHit(ids[i]) {
			tok = h.Header.Get("X-Forwarded-Access-Token")
		}
		res.Tokens = append(res.Tokens, tok)
		st := ""
		if tok != "" {
			st = u.w.IdP.ATState(tok)
		}
		res.TokState = append(res.TokState, st)
		// cleared = this response carries a deletion for the session cookie (judged on the response itself: a sibling's
		// response may already have removed the cookie from the shared jar)
		cleared := false
		for _, line := range r.SetCookies() {
			if ck, err := http.ParseSetCookie(line); err == nil && ck.Name == u.p[i].Opts.Cookie.Name && (ck.MaxAge < 0 || ck.Value == "") {
				cleared = true
			}
		}
		b.Jar.Apply("proxy.test", "/x", r.SetCookies())
		res.Cleared = append(res.Cleared, cleared)
	}
	if signout {
		// the pre-sign-out cookie replayed after BOTH requests completed, and what is left in the store
		res.Behaviour = behaviour + "+signout"
		rp := u.p[0].Do(vfGET("/oauth2/userinfo").H("Cookie", cookie))
		res.FollowUp = rp.Code
		for _, k := range u.mr.Keys() {
			if !strings.HasSuffix(k, ".lock") {
				res.KeysLeft = append(res.KeysLeft, k)
			}
		}
		return res
	}
	// follow-up with the jar after all responses were applied
	f := b.Get(u.p[0], "/x")
	res.FollowUp = f.Code
	g2, _ := u.w.IdP.RefreshGrants()
	res.FollowUpGrants = g2 - g1
	return res
}

// abort releases everything that is pending so that the request goroutines can finish.
func (u *c12Universe) abort() {
	s := u.s
	s.mu.Lock()
	s.enabled = false
	for i, op := range s.pending {
		close(op.release)
		delete(s.pending, i)
	}
	s.mu.Unlock()
	// release a stuck lock so spinners terminate
	for _, k := range u.mr.Keys() {
		if strings.HasSuffix(k, ".lock") {
			u.mr.Del(k)
		}
	}
}

func c12Judge(run *vfRun, u *c12Universe, r *c12Result, mode string) {
	detail := map[string]interface{}{"result": r, "flags_replica_n": u.flags, "mode": mode}
	rep := func(sig, msg string) {
		run.Violation(sig, fmt.Sprintf("%s [%s n=%d %s interleaving=%v status=%v grants=%d tokens=%v]", msg, r.Behaviour, r.N, mode, r.Trace, r.Codes, r.Grants, r.TokState), detail)
	}
	if strings.HasPrefix(r.Note, "deadlock") {
		rep("c12:deadlock", "requests cannot make progress: "+r.Note)
		return
	}
	for i, c := range r.Codes {
		_ = i
		if c == 0 {
			rep("c12:no-response", "a request did not complete")
			return
		}
	}
	if strings.HasSuffix(r.Behaviour, "+signout") {
		// replica 1 = sign-out. Whatever the interleaving with replica 0's refresh: once a sign-out that answered with the
		// success redirect has completed (and the other request too), the session must be gone — a refresh that was in
		// flight must not re-create it.
		if len(r.Codes) == 2 && r.Codes[1] == 302 && (len(r.KeysLeft) > 0 || r.FollowUp == 200) {
			rep("c12:session-resurrected-after-concurrent-sign-out", fmt.Sprintf("sign-out answered 302, yet after both requests completed the store still holds %v and the pre-sign-out cookie answers %d on /oauth2/userinfo", r.KeysLeft, r.FollowUp))
		}
		return
	}
	switch r.Behaviour {
	case "rotating":
		if r.Grants != 1 {
			rep("c12:refresh-count", fmt.Sprintf("%d refresh grants for one stale session (want exactly 1)", r.Grants))
		}
		for i, c := range r.Codes {
			if c != 200 {
				rep("c12:concurrent-request-not-served", fmt.Sprintf("request %d answered %d (all concurrent requests must be served)", i, c))
			} else if r.TokState[i] != "live" {
				rep("c12:stale-or-revoked-token-upstream", fmt.Sprintf("request %d reached the upstream with an access token the IdP considers %q", i, r.TokState[i]))
			}
		}
		if r.FollowUp != 200 || r.FollowUpGrants != 0 {
			rep("c12:follow-up", fmt.Sprintf("follow-up request with the resulting jar: status %d, %d further grants (want 200, 0)", r.FollowUp, r.FollowUpGrants))
		}
	case "norefreshtoken", "refresh-fails-idtoken-valid":
		// no refresh possible, but the ID token still validates: every request is served after re-validation
		for i, c := range r.Codes {
			if c != 200 {
				rep("c12:revalidated-request-not-served", fmt.Sprintf("request %d answered %d although re-validation succeeds", i, c))
			}
		}
		if r.Behaviour == "norefreshtoken" && r.Grants != 0 {
			rep("c12:refresh-count", fmt.Sprintf("%d refresh grants although the session has no refresh token", r.Grants))
		}
	case "refresh-fails-idtoken-expired", "norefreshtoken-idtoken-expired":
		// neither refresh nor validation succeeds: unauthenticated, cookie cleared, never served
		for i, c := range r.Codes {
			if c == 200 || r.Tokens[i] != "" {
				rep("c12:stale-session-honoured", fmt.Sprintf("request %d was served (%d) from a stale session that could be neither refreshed nor validated", i, c))
			} else if !r.Cleared[i] && c != 0 {
				// the request that found the session already removed by a sibling has nothing to clear at the store,
				// but the response must still clear the browser's cookie
				rep("c12:cookie-not-cleared", fmt.Sprintf("request %d refused (%d) but the response does not clear the session cookie", i, c))
			}
		}
	}
}

func c12Hash(tr []string) string {
	h := sha256.Sum256([]byte(strings.Join(tr, " ")))
	return fmt.Sprintf("%x", h[:6])
}

type c12Task struct {
	behaviour string
	prefix    []int
	names     [][]string // expected enabled op names along the prefix (replay determinism check)
}

// c12Explore runs a DFS over schedules of n replicas on the given universes, up to maxSchedules per behaviour.
func c12Explore(run *vfRun, us []*c12Universe, behaviour string, maxSchedules int, seen map[string]bool, seenMu *sync.Mutex) (explored int, complete bool) {
	var mu sync.Mutex
	stack := []c12Task{{behaviour: behaviour}}
	active := 0
	cond := sync.NewCond(&mu)
	var wg sync.WaitGroup
	for _, u := range us {
		wg.Add(1)
		go func(u *c12Universe) {
			defer wg.Done()
			for {
				mu.Lock()
				for len(stack) == 0 && active > 0 {
					cond.Wait()
				}
				if len(stack) == 0 || explored >= maxSchedules {
					mu.Unlock()
					cond.Broadcast()
					return
				}
				task := stack[len(stack)-1]
				stack = stack[:len(stack)-1]
				active++
				explored++
				mu.Unlock()
				res := u.runSchedule(task.behaviour, task.prefix, nil)
				// replay determinism: the op names enabled along the forced prefix must be those recorded
				diverged := strings.HasPrefix(res.Note, "replay diverged")
				for k := 0; k < len(task.names) && k < len(res.namesAt); k++ {
					if strings.Join(task.names[k], ",") != strings.Join(res.namesAt[k], ",") {
						diverged = true
					}
				}
				switch {
				case strings.HasPrefix(res.Note, "rig:") || strings.HasPrefix(res.Note, "scheduler:"):
					run.Inconclusive(vfTrunc(res.Note, 80))
				case diverged:
					run.Inconclusive("replayed prefix saw another enabled set")
				default:
					h := c12Hash(res.Trace)
					seenMu.Lock()
					first := !seen[behaviour+h]
					seen[behaviour+h] = true
					seenMu.Unlock()
					cell := ""
					if first {
						cell = fmt.Sprintf("interleaving|%s|n=%d|%s", behaviour, u.n, h)
					}
					run.Eval(cell)
					run.Count("schedules_"+behaviour, 1)
					c12Judge(run, u, res, "systematic")
					run.SampleEvery(151, func() interface{} { return res })
				}
				mu.Lock()
				if !diverged {
					for pos := len(task.prefix); pos < len(res.Choices); pos++ {
						for alt := res.Choices[pos] + 1; alt < len(res.enabledAt[pos]); alt++ {
							np := append(append([]int{}, res.Choices[:pos]...), alt)
							stack = append(stack, c12Task{behaviour: behaviour, prefix: np, names: res.namesAt[:pos+1]})
						}
					}
				}
				active--
				mu.Unlock()
				cond.Broadcast()
			}
		}(u)
	}
	wg.Wait()
	return explored, len(stack) == 0
}

func TestVerif_C12(t *testing.T) {
	run := vfNewRun(t, "C12", "exploration")
	run.SetRule("A: all interleavings of the gated store/lock/IdP operations of n replicas serving the same stale ticket (n=2 complete; n=3 first schedules in DFS order + seeded random ones in quick, complete in thorough), per provider behaviour; " +
		"B: stress rounds of 2-16 truly concurrent requests with seeded delays at the gates under -race; C: sequential ages x behaviours x stores. cell = distinct interleaving (hash of the executed (replica, operation) sequence) per behaviour, and (behaviour, age class, store) for C")
	run.Assume("miniredis (lock TTL never expires: miniredis time is manual — the property's proviso that the provider answers within the lock duration)", "interleavings between two I/O operations of one request are reached only by the stress workload under the race detector")
	thorough := run.Env.Thorough()
	seen := map[string]bool{}
	var seenMu sync.Mutex
	behaviours := []string{"rotating", "norefreshtoken", "refresh-fails-idtoken-valid", "refresh-fails-idtoken-expired", "norefreshtoken-idtoken-expired"}

	// ---- A: systematic ----------------------------------------------------------------------------------
	const nU = 8
	var u2, u3 []*c12Universe
	for i := 0; i < nU; i++ {
		u2 = append(u2, c12NewUniverse(t, i, 2))
	}
	for i := 0; i < nU; i++ {
		u3 = append(u3, c12NewUniverse(t, 100+i, 3))
	}
	defer func() {
		for _, u := range append(u2, u3...) {
			u.w.Close()
		}
	}()
	complete2 := true
	for _, bh := range behaviours {
		n, done := c12Explore(run, u2, bh, 5000, seen, &seenMu)
		run.Count("n2_schedules_total", int64(n))
		if !done {
			complete2 = false
		}
	}
	for _, bh := range []string{"rotating+signout", "nonrotating+signout", "norefreshtoken+signout", "refresh-fails-idtoken-valid+signout"} {
		n, done := c12Explore(run, u2, bh, 5000, seen, &seenMu)
		run.Count("n2_signout_schedules_total", int64(n))
		if !done {
			complete2 = false
		}
	}
	run.Extra("n2_complete", complete2)
	budget3 := map[string]int{"rotating": run.Env.Pick(300, 100000), "norefreshtoken": run.Env.Pick(60, 20000), "refresh-fails-idtoken-valid": run.Env.Pick(60, 20000),
		"refresh-fails-idtoken-expired": run.Env.Pick(60, 20000), "norefreshtoken-idtoken-expired": run.Env.Pick(40, 20000)}
	complete3 := true
	for _, bh := range behaviours {
		n, done := c12Explore(run, u3, bh, budget3[bh], seen, &seenMu)
		run.Count("n3_schedules_total", int64(n))
		if !done {
			complete3 = false
		}
	}
	run.Extra("n3_complete", complete3)
	// seeded random schedules (n=3)
	nRandom := run.Env.Pick(300, 3000)
	var wg sync.WaitGroup
	per := nRandom / nU
	for ui, u := range u3 {
		wg.Add(1)
		go func(ui int, u *c12Universe) {
			defer wg.Done()
			rng := rand.New(rand.NewSource(run.Env.Seed*31 + int64(ui)))
			for k := 0; k < per; k++ {
				bh := behaviours[0]
				if k%5 == 4 {
					bh = behaviours[1+rng.Intn(len(behaviours)-1)]
				}
				res := u.runSchedule(bh, nil, func(n int) int { return rng.Intn(n) })
				if strings.HasPrefix(res.Note, "rig:") || strings.HasPrefix(res.Note, "scheduler:") {
					run.Inconclusive(vfTrunc(res.Note, 80))
					continue
				}
				h := c12Hash(res.Trace)
				seenMu.Lock()
				first := !seen[bh+h]
				seen[bh+h] = true
				seenMu.Unlock()
				cell := ""
				if first {
					cell = fmt.Sprintf("interleaving|%s|n=3|%s", bh, h)
				}
				run.Eval(cell)
				run.Count("random_schedules", 1)
				c12Judge(run, u, res, "random")
			}
		}(ui, u)
	}
	wg.Wait()

	// ---- B: stress -------------------------------------------------------------------------------------------
	stuckDone := make(chan struct{})
	go func() { defer close(stuckDone); c12StuckLock(run, t) }()
	c12Stress(run, u3, run.Env.Pick(40, 600))
	// the same stress through the Cluster and the Sentinel client (lock, reload-under-lock and save go through other code)
	topo := []*c12Universe{c12NewUniverseMode(t, 200, 3, "cluster"), c12NewUniverseMode(t, 201, 3, "sentinel")}
	c12Stress(run, topo, run.Env.Pick(12, 160))
	for _, u := range topo {
		run.Count("stress_topology_client_universes", 1)
		u.w.Close()
	}
	// "once per session": several sessions of ONE user refresh independently (round 6)
	c12SessionsOfOneUser(run, u3[0], run.Env.Pick(6, 40))

	// ---- C: sequential ages x behaviours x stores --------------------------------------------------------------
	c12Sequential(run, t)
	c12Legacy(run, t)
	<-stuckDone

	run.RaceCheck("c12:data-race", "/pkg/middleware/stored_session", "/pkg/sessions/", "/pkg/apis/sessions/", "/providers/")
	_ = thorough
	run.Finish(300, 60)
}

// c12StuckLock (own universe, runs next to the other phases; one request waits out the 5 s lock-obtain timeout): the refresh
// lock of a stale session is held for the whole wait — a replica that died while refreshing, a provider that answers
// slowly to a queue of requests. The request that could neither refresh nor validate must not be served.
func c12StuckLock(run *vfRun, t *testing.T) {
	u := c12NewUniverse(t, 90, 1)
	defer u.w.Close()
	b, _, err := u.stale("rotating", 10*time.Minute)
	if err != nil {
		run.Inconclusive("rig: stuck-lock scenario: " + vfTrunc(err.Error(), 60))
		return
	}
	planted := 0
	for _, k := range u.mr.Keys() {
		if !strings.HasSuffix(k, ".lock") {
			_ = u.mr.Set(k+".lock", "held-by-a-dead-replica")
			planted++
		}
	}
	g0, _ := u.w.IdP.RefreshGrants()
	uid := "c12-stuck-lock-" + vfRandHex(3)
	resp := b.Get(u.p[0], "/x", "X-Vf-Id", uid)
	served := len(u.w.Up.FindHit(uid)) > 0
	g1, _ := u.w.IdP.RefreshGrants()
	run.Eval("stuck-lock|lock held for the whole obtain timeout|rotating")
	run.Count("stuck_lock_cases", 1)
	if planted == 0 {
		run.Inconclusive("rig: stuck-lock scenario found no session key")
		return
	}
	if served || resp.Code == 200 {
		run.Violation("c12:stale-session-honoured", fmt.Sprintf("the refresh lock of a stale session was held for the whole lock-obtain wait: the request was served (%d) although the session was neither refreshed (%d grants) nor validated", resp.Code, g1-g0),
			map[string]interface{}{"flags": u.flags, "status": resp.Code, "served": served, "refresh_grants": g1 - g0})
	}
}

// c12Stress: truly concurrent requests, no scheduling; seeded random delays at the gates widen the windows.
func c12Stress(run *vfRun, us []*c12Universe, rounds int) {
	var wg sync.WaitGroup
	per := rounds / len(us)
	if per < 1 {
		per = 1
	}
	for ui, u := range us {
		wg.Add(1)
		go func(ui int, u *c12Universe) {
			defer wg.Done()
			rng := rand.New(rand.NewSource(run.Env.Seed*97 + int64(ui)))
			var rmu sync.Mutex
			u.s.mu.Lock()
			u.s.enabled = false
			u.s.delay = func() time.Duration {
				rmu.Lock()
				defer rmu.Unlock()
				if rng.Intn(3) == 0 {
					return 0
				}
				return time.Duration(rng.Intn(3000)) * time.Microsecond
			}
			u.s.mu.Unlock()
			for k := 0; k < per; k++ {
				nReq := 2 + rng.Intn(15)
				oneInstance := rng.Intn(2) == 0
				// the first two rounds of every universe: a SLOW provider that still answers within the refresh lock's
				// duration (2 s) — the property's proviso holds, so exactly one refresh and everybody served
				lag := time.Duration(0)
				if k < 2 {
					lag = []time.Duration{1250, 1750}[k] * time.Millisecond
					nReq = 2 + rng.Intn(4)
				}
				u.s.mu.Lock()
				u.s.idpLag = lag
				u.s.mu.Unlock()
				b, _, err := u.stale("rotating", 10*time.Minute)
				if err != nil {
					run.Inconclusive("rig: " + vfTrunc(err.Error(), 60))
					continue
				}
				cookie := vfCookieHeader(b.Jar.For("proxy.test", "/", false))
				g0, _ := u.w.IdP.RefreshGrants()
				resps := make([]*vfResp, nReq)
				ids := make([]string, nReq)
				var rw sync.WaitGroup
				for i := 0; i < nReq; i++ {
					ids[i] = fmt.Sprintf("c12s-u%d-%d-%d-%s", u.id, k, i, vfRandHex(3))
					rw.Add(1)
					go func(i int) {
						defer rw.Done()
						inst := 0
						if !oneInstance {
							inst = i % u.n
						}
						resps[i] = u.p[inst].Do(vfGET("/x", "X-Vf-Id", ids[i]).H("Cookie", cookie))
					}(i)
				}
				rw.Wait()
				g1, _ := u.w.IdP.RefreshGrants()
				res := &c12Result{Behaviour: "rotating", N: nReq, Grants: g1 - g0}
				for i := 0; i < nReq; i++ {
					res.Codes = append(res.Codes, resps[i].Code)
					tok := ""
					for _, h := range u.w.Up.FindHit(ids[i]) {
						tok = h.Header.Get("X-Forwarded-Access-Token")
					}
					res.Tokens = append(res.Tokens, tok)
					st := ""
					if tok != "" {
						st = u.w.IdP.ATState(tok)
					}
					res.TokState = append(res.TokState, st)
					res.Cleared = append(res.Cleared, false)
					b.Jar.Apply("proxy.test", "/x", resps[i].SetCookies())
				}
				f := b.Get(u.p[0], "/x")
				res.FollowUp = f.Code
				g2, _ := u.w.IdP.RefreshGrants()
				res.FollowUpGrants = g2 - g1
				run.Eval(fmt.Sprintf("stress|requests=%d|one-instance=%v", nReq, oneInstance))
				run.Count("stress_rounds", 1)
				run.Count("stress_requests", int64(nReq))
				mode := "stress/replicas"
				if oneInstance {
					mode = "stress/one-instance"
				}
				if lag > 0 {
					mode += fmt.Sprintf("/provider-latency=%v", lag)
					run.Eval(fmt.Sprintf("stress|slow provider %v|one-instance=%v", lag, oneInstance))
					run.Count("stress_rounds_with_slow_provider", 1)
				}
				c12Judge(run, u, res, mode)
				u.w.Up.Reset()
			}
			u.s.mu.Lock()
			u.s.delay = nil
			u.s.idpLag = 0
			u.s.mu.Unlock()
		}(ui, u)
	}
	wg.Wait()
}

// c12Sequential: one request at a time; ages around the refresh period, provider behaviours, both stores.
// c12Legacy: a provider WITHOUT refresh support that re-validates through its validation URL (legacy keycloak provider
// against the rig's IdP: /userinfo answers 200 for a live access token). A stale session is honoured only if the
// validation endpoint confirms it; any other answer (401, 429, 5xx, reset) means "neither refresh nor validation
// succeeded": unauthenticated and cookie cleared.
func c12Legacy(run *vfRun, t *testing.T) {
	w := vfNewWorld(t)
	defer w.Close()
	iss := w.IdP.Issuer
	caseNo := 0
	// "redis+del-fault" (round 6): the store's DEL fails while the refused session is being removed — the refusal and the
	// clearing of the browser's cookie must not depend on the store delete succeeding
	var delFault int32
	hub := vfNewRedisHub(w.Redis())
	defer hub.Close()
	hub.SetHooks(func(c *vfRedisCmd) vfRedisDecision {
		if c.Op == "DEL" && atomic.LoadInt32(&delFault) == 1 && !strings.Contains(c.Key, "healthcheck") {
			return vfRedisDecision{Fault: &vfRedisFault{Kind: "err-before"}}
		}
		return vfRedisDecision{}
	}, nil)
	for _, store := range []string{"cookie", "redis", "redis+del-fault"} {
		storeFlags := []string{"--session-store-type=" + strings.TrimSuffix(store, "+del-fault"), "--redis-connection-url=" + w.RedisURL()}
		if store == "redis+del-fault" {
			storeFlags[1] = "--redis-connection-url=" + hub.Front(77).URL("max_retries=-1")
		}
		p, err := w.NewProxy(append([]string{"--provider=keycloak", "--login-url=" + iss + "/authorize", "--redeem-url=" + iss + "/token", "--profile-url=" + iss + "/userinfo", "--validate-url=" + iss + "/userinfo",
			"--cookie-refresh=1m", "--cookie-expire=2h", "--pass-access-token=true", "--scope=openid"}, storeFlags...)...)
		if err != nil {
			t.Fatalf("legacy provider instance (%s): %v", store, err)
		}
		for _, kind := range []string{"200", "401", "403", "429", "500", "502", "503", "reset", "200"} {
			for _, age := range []time.Duration{50 * time.Second, 2 * time.Minute} {
				// every other case with a session too large for one cookie (300 groups with incompressible names from the
				// profile endpoint): the cookie store then splits it
				caseNo++
				big := caseNo%2 == 0
				w.IdP.Set(func(c *vfIdPCfg) { c.Hook = nil })
				prof := map[string]interface{}{"sub": "u-legacy", "email": "legacy@example.com", "preferred_username": "legacy"}
				if big {
					var gs []string
					for g := 0; g < 300; g++ {
						gs = append(gs, vfRandHex(8))
					}
					prof["groups"] = gs
				}
				id := vfIdentity{Sub: "u-legacy-" + kind, Email: "legacy@example.com", Profile: prof}
				b := vfNewBrowser("")
				if _, _, err := b.Login(p, id, "/"); err != nil {
					run.Inconclusive("rig: legacy login: " + vfTrunc(err.Error(), 80))
					continue
				}
				req := httptest.NewRequest("GET", "/", nil)
				req.Header.Set("Cookie", vfCookieHeader(b.Jar.For("proxy.test", "/", false)))
				s, err := p.P.LoadCookiedSession(req)
				if err != nil {
					run.Inconclusive("rig: legacy load")
					continue
				}
				old := time.Now().Add(-age)
				s.CreatedAt = &old
				rw := httptest.NewRecorder()
				if err := p.P.SaveSession(rw, req, s); err != nil {
					run.Inconclusive("rig: legacy save")
					continue
				}
				b.Jar.Apply("proxy.test", "/", rw.Header().Values("Set-Cookie"))
				if n := len(b.Jar.For("proxy.test", "/", false)); n > 1 {
					run.Count("legacy_cases_with_split_session", 1)
				}
				var validations int32
				if kind != "200" {
					w.IdP.Set(func(c *vfIdPCfg) {
						c.Hook = func(ev *vfIdPEvent) *vfIdPReply {
							if ev.Kind != "userinfo" {
								return nil
							}
							atomic.AddInt32(&validations, 1)
							if kind == "reset" {
								return &vfIdPReply{Reset: true}
							}
							st, _ := strconv.Atoi(kind)
							return &vfIdPReply{Status: st, Body: []byte(`{"error":"scripted"}`)}
						}
					})
				}
				uid := fmt.Sprintf("c12l-%s-%s-%d-%s", store, kind, age/time.Second, vfRandHex(3))
				if store == "redis+del-fault" {
					atomic.StoreInt32(&delFault, 1)
				}
				r1 := b.Get(p, "/x", "X-Vf-Id", uid)
				atomic.StoreInt32(&delFault, 0)
				served1 := len(w.Up.FindHit(uid)) > 0
				left := len(b.Jar.For("proxy.test", "/", false))
				// a client that does not honour deletions (the very user whose token the provider no longer accepts) keeps every
				// session cookie the refusing response carried: presented again — validation still failing — it must not be served
				var kept []string
				for _, line := range r1.SetCookies() {
					if ck, err := http.ParseSetCookie(line); err == nil && ck.Value != "" && ck.MaxAge >= 0 && strings.HasPrefix(ck.Name, p.Opts.Cookie.Name) && !strings.HasSuffix(ck.Name, "_csrf") {
						kept = append(kept, ck.Name+"="+ck.Value)
					}
				}
				servedKept, keptCode := false, 0
				if len(kept) > 0 && age > time.Minute && kind != "200" && store == "redis+del-fault" {
					// not judged: the entry could not be deleted, so a client that ignores the cookie deletion may still present a
					// ticket for it — the statement speaks about this request and the browser's cookie only
					run.Count("legacy_del_fault_refusals_that_carried_a_session_cookie", 1)
				} else if len(kept) > 0 && age > time.Minute && kind != "200" {
					rk := p.Do(vfGET("/x", "X-Vf-Id", uid+"-k").H("Cookie", strings.Join(kept, "; ")))
					keptCode = rk.Code
					servedKept = len(w.Up.FindHit(uid+"-k")) > 0
					run.Count("legacy_refusals_that_carried_a_session_cookie", 1)
				}
				w.IdP.Set(func(c *vfIdPCfg) { c.Hook = nil })
				r2 := b.Get(p, "/x", "X-Vf-Id", uid+"-b")
				served2 := len(w.Up.FindHit(uid+"-b")) > 0
				stale := age > time.Minute
				run.Eval(fmt.Sprintf("legacy-validate|%s|validate=%s|stale=%v|split-session=%v", store, kind, stale, big))
				run.Count("legacy_validation_cases", 1)
				detail := map[string]interface{}{"flags": p.Flags, "validation_answer": kind, "age_s": age / time.Second, "status": []int{r1.Code, r2.Code}, "served": []bool{served1, served2}, "cookies_left": left}
				switch {
				case !stale || kind == "200":
					if !served1 {
						run.Violation("c12:revalidated-request-not-served", fmt.Sprintf("legacy provider, store %s, age %v, validation endpoint healthy: request refused (%d)", store, age, r1.Code), detail)
					}
				default:
					if servedKept {
						detail["kept_cookies"] = len(kept)
						run.Violation("c12:refusal-hands-out-honoured-credential", fmt.Sprintf("legacy provider, store %s: the stale session was refused (%d, validation answer %s), but the refusing response itself carries a re-stamped session cookie which — presented while validation still fails — is served (%d) without any validation", store, r1.Code, kind, keptCode), detail)
					}
					if served1 || r1.Code == 200 {
						run.Violation("c12:stale-session-honoured", fmt.Sprintf("legacy provider, store %s: stale session served (%d) although the validation endpoint answered %s (neither refreshed nor validated)", store, r1.Code, kind), detail)
					} else if left != 0 {
						run.Violation("c12:cookie-not-cleared", fmt.Sprintf("legacy provider, store %s: stale session refused after validation answer %s but the browser still holds the session cookie", store, kind), detail)
					} else if served2 {
						run.Violation("c12:stale-session-honoured", fmt.Sprintf("legacy provider, store %s: request after the refusal (validation answer %s) was served", store, kind), detail)
					}
				}
			}
		}
	}
	w.IdP.Set(func(c *vfIdPCfg) { c.Hook = nil })
}

func c12Sequential(run *vfRun, t *testing.T) {
	w := vfNewWorld(t)
	defer w.Close()
	for _, store := range []string{"cookie", "redis", "redis-cluster", "redis-sentinel"} {
		sflags := []string{"--session-store-type=cookie"}
		if strings.HasPrefix(store, "redis") {
			sflags = append([]string{"--session-store-type=redis"}, w.RedisModeFlags(strings.TrimPrefix(strings.TrimPrefix(store, "redis"), "-"))...)
		}
		p, err := w.NewProxy(append(sflags, "--cookie-refresh=1m", "--cookie-expire=2h", "--pass-access-token=true")...)
		if err != nil {
			t.Fatalf("sequential %s: %v", store, err)
		}
		for _, bh := range []string{"rotating", "rotating-noidtoken", "rotating-grows", "norefreshtoken", "refresh-fails-idtoken-valid", "refresh-fails-idtoken-expired", "norefreshtoken-idtoken-expired"} {
			for _, age := range []time.Duration{50 * time.Second, 70 * time.Second, 2 * time.Minute, 30 * time.Minute} {
				for rep := 0; rep < run.Env.Pick(2, 10); rep++ {
					w.IdP.Set(func(c *vfIdPCfg) {
						c.RefreshFails = strings.HasPrefix(bh, "refresh-fails")
						c.MintOverride = nil
						if bh == "rotating-noidtoken" { // provider that rotates refresh tokens but returns no id_token on refresh
							c.MintOverride = func(grant string, claims map[string]interface{}) (string, bool) { return "", grant == "refresh" }
						}
						if bh == "rotating-grows" { // the refreshed ID token is much larger (300 groups): a one-cookie session becomes a split one (round 8)
							c.MintOverride = func(grant string, claims map[string]interface{}) (string, bool) {
								if grant != "refresh" {
									return "", false
								}
								var gs []string
								for g := 0; g < 300; g++ {
									gs = append(gs, vfRandHex(8))
								}
								claims["groups"] = gs
								return vfMint(claims, vfMintOpts{}), true
							}
						}
					})
					id := vfIdentity{Sub: "u-seq", Email: "seq@example.com", NoRefreshToken: strings.HasPrefix(bh, "norefreshtoken")}
					b := vfNewBrowser("")
					if _, _, err := b.Login(p, id, "/"); err != nil {
						run.Inconclusive("rig: sequential login: " + vfTrunc(err.Error(), 60))
						continue
					}
					req := httptest.NewRequest("GET", "/", nil)
					req.Header.Set("Cookie", vfCookieHeader(b.Jar.For("proxy.test", "/", false)))
					s, err := p.P.LoadCookiedSession(req)
					if err != nil {
						run.Inconclusive("rig: sequential load")
						continue
					}
					at0 := s.AccessToken
					old := time.Now().Add(-age)
					s.CreatedAt = &old
					if strings.HasSuffix(bh, "idtoken-expired") {
						cl := vfJWTClaims(s.IDToken)
						cl["exp"] = time.Now().Add(-time.Hour).Unix()
						s.IDToken = vfMint(cl, vfMintOpts{})
					}
					rw := httptest.NewRecorder()
					if err := p.P.SaveSession(rw, req, s); err != nil {
						run.Inconclusive("rig: sequential save")
						continue
					}
					b.Jar.Apply("proxy.test", "/", rw.Header().Values("Set-Cookie"))
					stale := age > time.Minute
					g0, _ := w.IdP.RefreshGrants()
					uid := fmt.Sprintf("c12q-%s-%s-%d-%d", store, bh, age/time.Second, rep)
					r1 := b.Get(p, "/x", "X-Vf-Id", uid)
					g1, _ := w.IdP.RefreshGrants()
					tok1 := ""
					for _, h := range w.Up.FindHit(uid) {
						tok1 = h.Header.Get("X-Forwarded-Access-Token")
					}
					r2 := b.Get(p, "/x", "X-Vf-Id", uid+"-b")
					g2, _ := w.IdP.RefreshGrants()
					tok2 := ""
					for _, h := range w.Up.FindHit(uid + "-b") {
						tok2 = h.Header.Get("X-Forwarded-Access-Token")
					}
					ageClass := "fresh"
					if stale {
						ageClass = "stale"
					}
					run.Eval(fmt.Sprintf("sequential|%s|%s|%s", store, bh, ageClass))
					run.Count("sequential_cases", 1)
					detail := map[string]interface{}{"flags": p.Flags, "behaviour": bh, "age_s": age / time.Second, "status": []int{r1.Code, r2.Code}, "grants": []int{g1 - g0, g2 - g1}, "tokens": []string{at0, tok1, tok2}}
					rep2 := func(sig, msg string) {
						run.Violation(sig, fmt.Sprintf("%s [%s store=%s age=%v status=%d,%d grants=%d,%d]", msg, bh, store, age, r1.Code, r2.Code, g1-g0, g2-g1), detail)
					}
					if !stale {
						// younger than the refresh period: served as is, no grant (ID-token expiry is not consulted before the refresh period)
						if g1-g0 != 0 {
							rep2("c12:refresh-before-period", "refresh grant for a session younger than the refresh period")
						}
						continue
					}
					switch bh {
					case "rotating", "rotating-noidtoken", "rotating-grows":
						if g1-g0 != 1 || r1.Code != 200 {
							rep2("c12:stale-not-refreshed", "stale session with a refresh token: want one grant and the request served")
						} else {
							if tok1 == at0 || w.IdP.ATState(tok1) != "live" {
								rep2("c12:old-token-after-refresh", "the refreshing request reached the upstream with the old access token")
							}
							if r2.Code != 200 || g2-g1 != 0 || tok2 != tok1 {
								rep2("c12:refreshed-session-not-persisted", "the request after the refresh does not carry the refreshed session (status, further grant or other token)")
							}
							// second refresh cycle: the refreshed session becomes stale again and must refresh again with the
							// ROTATED refresh token (a provider with single-use refresh tokens revokes the family on reuse)
							req2 := httptest.NewRequest("GET", "/", nil)
							req2.Header.Set("Cookie", vfCookieHeader(b.Jar.For("proxy.test", "/", false)))
							if s2, err := p.P.LoadCookiedSession(req2); err == nil {
								old2 := time.Now().Add(-age)
								s2.CreatedAt = &old2
								rw2 := httptest.NewRecorder()
								if err := p.P.SaveSession(rw2, req2, s2); err == nil {
									b.Jar.Apply("proxy.test", "/", rw2.Header().Values("Set-Cookie"))
									_, ok0 := w.IdP.RefreshGrants()
									r3 := b.Get(p, "/x", "X-Vf-Id", uid+"-c")
									_, ok1 := w.IdP.RefreshGrants()
									tok3 := ""
									for _, h := range w.Up.FindHit(uid + "-c") {
										tok3 = h.Header.Get("X-Forwarded-Access-Token")
									}
									run.Count("sequential_second_refresh_cycles", 1)
									detail["second_cycle"] = map[string]interface{}{"status": r3.Code, "successful_grants": ok1 - ok0, "token": tok3, "token_state": w.IdP.ATState(tok3)}
									if r3.Code != 200 || ok1-ok0 != 1 || tok3 == tok1 || w.IdP.ATState(tok3) != "live" {
										rep2("c12:second-refresh-cycle", fmt.Sprintf("second refresh of the same session: status %d, %d successful grants, token state %q (want 200, 1, live new token)", r3.Code, ok1-ok0, w.IdP.ATState(tok3)))
									}
								}
							}
						}
					case "norefreshtoken", "refresh-fails-idtoken-valid":
						if r1.Code != 200 || r2.Code != 200 {
							rep2("c12:revalidated-request-not-served", "stale session whose ID token still validates was refused")
						}
					default:
						if r1.Code == 200 || tok1 != "" {
							rep2("c12:stale-session-honoured", "stale session that can be neither refreshed nor validated was served")
						}
						if len(b.Jar.For("proxy.test", "/", false)) != 0 {
							rep2("c12:cookie-not-cleared", "refused stale session: the browser still holds the session cookie")
						}
						if r2.Code == 200 {
							rep2("c12:stale-session-honoured", "second request after the refusal was served")
						}
					}
				}
			}
		}
	}
}

// c12SessionsOfOneUser (round 6): the refresh is owed once per SESSION, not once per user. Two or three sessions of the same
// identity (laptop, phone: separate logins, separate tickets, separate rotating refresh tokens) are stale at the same time and
// their requests overlap at a provider that takes 300 ms to answer; all on one instance (where any per-process coalescing would
// sit) or spread over the replicas. Every session must get its own refresh (one successful grant per session), reach the
// upstream with its own live token, and survive a second refresh cycle (a session that was handed another session's rotated
// refresh token fails there, or kills the other session's token family).
func c12SessionsOfOneUser(run *vfRun, u *c12Universe, rounds int) {
	u.s.mu.Lock()
	u.s.enabled = false
	u.s.delay = nil
	u.s.idpLag = 300 * time.Millisecond
	u.s.mu.Unlock()
	defer func() { u.s.mu.Lock(); u.s.idpLag = 0; u.s.mu.Unlock() }()
	u.w.IdP.Set(func(c *vfIdPCfg) { c.RefreshFails, c.NoRefreshRotation, c.MintOverride = false, false, nil })
	restale := func(p *vfProxy, b *vfBrowser) error {
		req := httptest.NewRequest("GET", "/", nil)
		req.Header.Set("Cookie", vfCookieHeader(b.Jar.For("proxy.test", "/", false)))
		s, err := p.P.LoadCookiedSession(req)
		if err != nil {
			return err
		}
		old := time.Now().Add(-10 * time.Minute)
		s.CreatedAt = &old
		rw := httptest.NewRecorder()
		if err := p.P.SaveSession(rw, req, s); err != nil {
			return err
		}
		b.Jar.Apply("proxy.test", "/", rw.Header().Values("Set-Cookie"))
		return nil
	}
	for k := 0; k < rounds; k++ {
		u.mr.FlushAll()
		nSess := 2 + k%2
		oneInstance := k%4 < 2
		id := vfIdentity{Sub: fmt.Sprintf("u-c12-multi-%d", k), Email: "multi@example.com", Groups: []string{"g"}}
		var bs []*vfBrowser
		ok := true
		for i := 0; i < nSess; i++ {
			b := vfNewBrowser("")
			if _, _, err := b.Login(u.p[0], id, "/"); err != nil || restale(u.p[0], b) != nil {
				ok = false
				break
			}
			bs = append(bs, b)
		}
		if !ok {
			run.Inconclusive("rig: sessions-of-one-user setup")
			continue
		}
		_, g0 := u.w.IdP.RefreshGrants()
		resps := make([]*vfResp, nSess)
		ids := make([]string, nSess)
		var wg sync.WaitGroup
		for i := range bs {
			ids[i] = fmt.Sprintf("c12m-%d-%d-%s", k, i, vfRandHex(3))
			wg.Add(1)
			go func(i int) {
				defer wg.Done()
				inst := 0
				if !oneInstance {
					inst = i % u.n
				}
				resps[i] = bs[i].Get(u.p[inst], "/x", "X-Vf-Id", ids[i])
			}(i)
		}
		wg.Wait()
		_, g1 := u.w.IdP.RefreshGrants()
		toks := make([]string, nSess)
		codes := make([]int, nSess)
		states := make([]string, nSess)
		distinct := map[string]bool{}
		for i := range bs {
			codes[i] = resps[i].Code
			for _, h := range u.w.Up.FindHit(ids[i]) {
				toks[i] = h.Header.Get("X-Forwarded-Access-Token")
			}
			if toks[i] != "" {
				states[i] = u.w.IdP.ATState(toks[i])
				distinct[toks[i]] = true
			}
		}
		run.Eval(fmt.Sprintf("sessions-of-one-user|sessions=%d|one-instance=%v", nSess, oneInstance))
		run.Count("sessions_of_one_user_rounds", 1)
		detail := map[string]interface{}{"flags": u.flags, "sessions": nSess, "one_instance": oneInstance, "status": codes, "token_states": states, "successful_grants": g1 - g0, "provider_latency": "300ms"}
		bad := g1-g0 != nSess || len(distinct) != nSess
		for i := range bs {
			if codes[i] != 200 || states[i] != "live" {
				bad = true
			}
		}
		if bad {
			run.Violation("c12:sessions-of-one-user-not-refreshed-independently", fmt.Sprintf("%d stale sessions of one user, overlapping requests (one instance: %v): %d successful refresh grants, %d distinct tokens upstream, status %v, token states %v (want one grant, one own live token per session)",
				nSess, oneInstance, g1-g0, len(distinct), codes, states), detail)
			u.w.Up.Reset()
			continue
		}
		// second cycle, one session after the other
		for i, b := range bs {
			if err := restale(u.p[0], b); err != nil {
				run.Violation("c12:sessions-of-one-user-not-refreshed-independently", fmt.Sprintf("session %d of %d of one user no longer loads after the overlapping refreshes: %v", i, nSess, err), detail)
				break
			}
			_, a0 := u.w.IdP.RefreshGrants()
			uid := ids[i] + "-2"
			r := b.Get(u.p[0], "/x", "X-Vf-Id", uid)
			_, a1 := u.w.IdP.RefreshGrants()
			tok := ""
			for _, h := range u.w.Up.FindHit(uid) {
				tok = h.Header.Get("X-Forwarded-Access-Token")
			}
			if r.Code != 200 || a1-a0 != 1 || tok == "" || u.w.IdP.ATState(tok) != "live" {
				detail["second_cycle"] = map[string]interface{}{"session": i, "status": r.Code, "successful_grants": a1 - a0, "token_state": u.w.IdP.ATState(tok)}
				run.Violation("c12:sessions-of-one-user-not-refreshed-independently", fmt.Sprintf("second refresh cycle of session %d of %d of one user: status %d, %d successful grants, token state %q (want 200, 1, live) — it holds a refresh token that is not its own", i, nSess, r.Code, a1-a0, u.w.IdP.ATState(tok)), detail)
				break
			}
		}
		u.w.Up.Reset()
	}
}
