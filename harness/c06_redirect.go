//go:build verif

package main

// C06 — Redirects derived from request data never leave the allowed origins.
//
// Oracle: BrowserURL (c06_browserurl.go, an independent WHATWG URL resolver, self-tested against the URL Standard at the
// start of every run) applied to every Location / href / action / hidden rd the proxy answers with, base = the URL the
// browser addressed. Allowed <=> navigation failure, or same host and port as the request, or permitted by an independent
// reading of the documented --whitelist-domain rules. Login start: Location == configured authorization endpoint.
// Fidelity: safe same-site path+query comes back byte for byte after login.
//
// Structure: the bulk (exhaustive enumeration on sign_out under each of 8 whitelist configurations, then the carried-over
// strings through the 26 other channels) is single-request string work and runs in 16 child processes (8 configurations x 2
// shards) from the NON-race build of the same harness ($VERIF_BIN_NORACE, TestVerif_C06Bulk) — processes, because the proxy
// serialises requests on a process-wide lock; the race build runs the self-tests, the fidelity clause, a smaller pass over
// all channels and the wire comparison, and merges the children's evidence and violations.

import (
	"encoding/json"
	"fmt"
	"os"
	"os/exec"
	"path/filepath"
	"sort"
	"strconv"
	"strings"
	"sync"
	"sync/atomic"
	"testing"
	"time"
)

type c06BulkResult struct {
	Acc         *c06Acc          `json:"acc"`
	Interesting []string         `json:"interesting"` // kept / off-origin strings handed to the wire pass of the parent
	Stats       map[string]int64 `json:"stats"`
}

// c06Chunks runs f(lo,hi) over [0,n) in chunks on `workers` goroutines.
func c06Chunks(n, chunk, workers int, f func(lo, hi int)) {
	nc := (n + chunk - 1) / chunk
	vfParallel(nc, workers, func(c int) {
		lo, hi := c*chunk, (c+1)*chunk
		if hi > n {
			hi = n
		}
		f(lo, hi)
	})
}

type c06Universe struct {
	maxTok   int
	nEnum    int
	nPref    int // per prefix
	nRand    int
	nFam     int
	maxFill  int
	nElem    int // path-element family
	nTarget  int // fragment/dot-segment/authority compositions
	known    []string
	seed     int64
	total    int
	bigFrom  int // enumerated strings from this index on have maxTok tokens and are "big" in the thorough tier
	thorough bool
}

func c06NewUniverse(env vfEnvT) *c06Universe {
	u := &c06Universe{maxTok: env.Pick(3, 4), nRand: env.Pick(50000, 1000000), known: c06KnownBad(), seed: env.Seed, thorough: env.Thorough()}
	n := len(c06Tokens)
	u.nEnum = c06CountUpTo(n, u.maxTok)
	u.nPref = c06CountUpTo(n, u.maxTok-1)
	u.bigFrom = c06CountUpTo(n, 3)
	u.maxFill = env.Pick(3, 4)
	u.nFam = c06FamilyCount(u.maxFill)
	u.nElem = c06ElemCount(env.Pick(3, 4))
	u.nTarget = c06TargetCount()
	u.total = u.nEnum + len(c06Prefixes)*u.nPref + u.nRand + u.nFam + u.nElem + u.nTarget + len(u.known)
	return u
}

func (u *c06Universe) IsRandom(idx int) bool {
	lo := u.nEnum + len(c06Prefixes)*u.nPref
	return idx >= lo && idx < lo+u.nRand
}

// At returns the idx-th string of the universe and whether it belongs to a sub-space that is only sampled when carried over.
func (u *c06Universe) At(idx int) (string, bool) {
	if idx < u.nEnum {
		return c06StringAt(idx), u.thorough && idx >= u.bigFrom
	}
	idx -= u.nEnum
	if idx < len(c06Prefixes)*u.nPref {
		return c06Prefixes[idx/u.nPref] + c06StringAt(idx%u.nPref), u.thorough && idx%u.nPref >= c06CountUpTo(len(c06Tokens), 2)
	}
	idx -= len(c06Prefixes) * u.nPref
	if idx < u.nRand {
		return c06RandomString(u.seed, idx), u.thorough
	}
	idx -= u.nRand
	if idx < u.nFam {
		return c06FamilyAt(idx), u.thorough && idx >= c06FamilyCount(3)
	}
	idx -= u.nFam
	if idx < u.nElem {
		return c06ElemAt(idx), u.thorough && idx >= c06ElemCount(3)
	}
	idx -= u.nElem
	if idx < u.nTarget {
		return c06TargetAt(idx), false
	}
	return u.known[idx-u.nTarget], false
}

// c06Bulk runs one job of the bulk: whitelist configuration wi, shard `shard` of `nShards` of the universe (index modulo).
//
//	phase 1 = the shard on sign_out?rd=; phase 2 = the short strings plus everything phase 1 saw kept under this configuration
//	or BrowserURL resolves off-origin if echoed, through every other channel.
//
// The proxy serialises requests on a process-wide lock (its per-request metrics middleware registers with the default
// Prometheus registry), so the jobs run as separate processes: that, not goroutines, is what uses the cores.
func c06Bulk(t testing.TB, env vfEnvT, workers, wi, shard, nShards int) *c06BulkResult {
	acc := c06NewAcc()
	res := &c06BulkResult{Acc: acc, Stats: map[string]int64{}}
	w0 := vfNewWorld(t)
	defer w0.Close()
	u := c06NewUniverse(env)
	if wi == 0 && shard == 0 {
		res.Stats["universe"] = int64(u.total)
		res.Stats["universe_enumerated_le_tokens"] = int64(u.maxTok)
		res.Stats["universe_enumerated"] = int64(u.nEnum)
		res.Stats["universe_prefixed"] = int64(len(c06Prefixes) * u.nPref)
		res.Stats["universe_random"] = int64(u.nRand)
		res.Stats["universe_slash_filler_slash_family"] = int64(u.nFam)
		res.Stats["universe_path_element_family"] = int64(u.nElem)
		res.Stats["universe_fragment_climb_authority_family"] = int64(u.nTarget)
		res.Stats["universe_known_bad_seeds"] = int64(len(u.known))
	}
	nWL := len(c06WLs)
	cx, err := c06NewCtx(w0, c06WLs[wi])
	if err != nil {
		t.Fatalf("c06: building instances for whitelist %v: %v", c06WLs[wi].Entries, err)
	}
	defer cx.Close()
	// window: a string that is not driven under every configuration meets the 2 (quick) / 3 (thorough) configurations
	// that follow its hash
	window := func(h uint64) bool { return (wi-int(h%uint64(nWL))+nWL)%nWL < env.Pick(2, 3) }
	carryWindow := func(h uint64) bool { return (wi-int(h%uint64(nWL))+nWL)%nWL < env.Pick(1, 3) }
	t0 := time.Now()
	// ---- phase 1
	flags := make([]uint8, u.total) // 1 = kept under this whitelist, 2 = off-origin if echoed verbatim
	c06Chunks(u.total, 2048, workers, func(lo, hi int) {
		loc := c06NewAcc()
		for i := lo; i < hi; i++ {
			if i%nShards != shard {
				continue
			}
			s, _ := u.At(i)
			if u.IsRandom(i) && !window(c06Hash(s)) {
				continue // a random string meets 2 (quick) / 3 (thorough) of the 7 configurations; enumerated ones meet all
			}
			kept, _ := cx.drive(loc, "so-rd", s, nil)
			if kept {
				flags[i] |= 1
			}
			if v, _ := c06Verdict(s, cx.BaseA, nil); v == "off" || v == "scheme" {
				flags[i] |= 2
			}
		}
		acc.merge(loc)
	})
	res.Stats["wall_ms_phase1_max"] = time.Since(t0).Milliseconds()
	t0 = time.Now()
	// ---- carry-over
	// "short" strings (<=2 / <=3 tokens) and the repository's list go through every cheap channel under every configuration.
	// Carried strings: an absolute URL kept under this configuration is driven under it (that is where it matters); a kept
	// relative path (the whitelist plays no part) and a string that is merely dangerous if echoed are driven under the
	// configurations of their hash window. Login channels: the shortest strings and the list (under 2 / all configurations)
	// and a hash sample of the carried ones. Big sub-spaces of the thorough tier (4-token, random, ...) are carried at 1/64.
	type item struct {
		s     string
		login bool
	}
	nShort := c06CountUpTo(len(c06Tokens), env.Pick(2, 3))
	nLoginShort := c06CountUpTo(len(c06Tokens), 2)
	seen := map[string]bool{}
	var items []item
	var nKept, nOff, nBigDropped, nLogin int64
	for i := shard; i < u.total; i += nShards {
		s, big := u.At(i)
		isKnown := i >= u.total-len(u.known)
		short := i < nShort || isKnown
		keptHere, off := flags[i]&1 != 0, flags[i]&2 != 0
		if keptHere {
			nKept++
		}
		if off {
			nOff++
		}
		if !short && !keptHere && !off {
			continue
		}
		if !short && big && c06Hash(s)%64 != 0 {
			nBigDropped++
			continue
		}
		h := c06Hash(s)
		keptAbs := keptHere && !strings.HasPrefix(s, "/")
		if !short && !keptAbs && !carryWindow(h) {
			continue
		}
		if seen[s] {
			continue
		}
		seen[s] = true
		it := item{s: s}
		switch {
		case i < nLoginShort || isKnown:
			it.login = (wi-int(h%uint64(nWL))+nWL)%nWL < env.Pick(2, nWL)
		default:
			it.login = (h>>20)%uint64(env.Pick(6, 4)) == 0
		}
		if it.login {
			nLogin++
		}
		items = append(items, it)
	}
	res.Stats["phase1_kept(summed_over_configurations)"] = nKept
	res.Stats["phase1_off_origin_if_echoed(summed_over_configurations)"] = nOff
	res.Stats["carried_sampled_out_(1/64_of_big_subspaces_kept)"] = nBigDropped
	res.Stats["phase2_string_x_whitelist_pairs_cheap_channels"] = int64(len(items))
	res.Stats["phase2_string_x_whitelist_pairs_login_channels"] = nLogin
	for _, it := range items {
		if c06Hash(it.s+"w")%uint64(1+len(items)*nShards*nWL/1500) == 0 {
			res.Interesting = append(res.Interesting, it.s)
		}
	}
	// ---- phase 2
	const block = 8000 // strings per login world (the fake IdP logs every login; worlds are discarded to bound memory)
	for lo := 0; lo < len(items); lo += block {
		hi := lo + block
		if hi > len(items) {
			hi = len(items)
		}
		if err := cx.Rotate(t); err != nil {
			t.Fatalf("c06: building login instances for whitelist %v: %v", cx.WL.Entries, err)
		}
		part := items[lo:hi]
		c06Chunks(len(part), 64, workers, func(a, b int) {
			loc := c06NewAcc()
			st := &c06State{}
			for _, it := range part[a:b] {
				for _, ch := range c06CheapChannels[1:] { // so-rd was phase 1
					cx.drive(loc, ch, it.s, st)
				}
				if it.login {
					for _, ch := range c06LoginChannels {
						cx.drive(loc, ch, it.s, st)
					}
				}
			}
			acc.merge(loc)
		})
	}
	res.Stats["wall_ms_phase2_max"] = time.Since(t0).Milliseconds()
	t0 = time.Now()
	// ---- phase 3: hosts taken from the instances' own configuration as redirect targets (c06_confighosts.go): the ordinary
	// instances (IdP and upstream on 127.0.0.1:<port>) and the configuration-rich ones (named IdP host, redirect-url, cookie
	// domains, second upstream, redis), every template through every cheap channel, the core forms through the login channels
	if err := cx.Rotate(t); err != nil {
		t.Fatalf("c06: building login instances for whitelist %v: %v", cx.WL.Entries, err)
	}
	c06CfgPhase(cx, acc, workers, shard, nShards, nil)
	rx, err := c06NewCtxV(w0, c06WLs[wi], true)
	if err == nil {
		err = rx.Rotate(t)
	}
	if err != nil {
		t.Fatalf("c06: building the configuration-rich instances for whitelist %v: %v", c06WLs[wi].Entries, err)
	}
	defer rx.Close()
	if n := len(c06CfgHostsOf(rx.A)); n < 8 || n > c06CfgMaxHosts {
		t.Fatalf("c06: the configuration-rich instance yields %d configuration hosts (expected 8..%d): %v", n, c06CfgMaxHosts, c06CfgHostsOf(rx.A))
	}
	c06CfgPhase(rx, acc, workers, shard, nShards, nil)
	res.Stats["wall_ms_phase3_config_hosts_max"] = time.Since(t0).Milliseconds()
	return res
}

func (r *c06BulkResult) absorb(o *c06BulkResult) {
	r.Acc.merge(o.Acc)
	r.Interesting = append(r.Interesting, o.Interesting...)
	for k, v := range o.Stats {
		if strings.HasSuffix(k, "_max") {
			if v > r.Stats[k] {
				r.Stats[k] = v
			}
		} else {
			r.Stats[k] += v
		}
	}
}

// TestVerif_C06Bulk is the child-process entry (non-race build); it only runs when the parent asks for it.
func TestVerif_C06Bulk(t *testing.T) {
	out := os.Getenv("VERIF_C06_BULK_OUT")
	if out == "" {
		t.Skip("child entry of TestVerif_C06")
	}
	vfQuiet()
	var wi, shard, nShards, workers int
	if _, err := fmt.Sscanf(os.Getenv("VERIF_C06_JOB"), "%d %d %d %d", &wi, &shard, &nShards, &workers); err != nil || wi < 0 || wi >= len(c06WLs) || nShards < 1 || shard >= nShards {
		t.Fatalf("c06 bulk child: bad VERIF_C06_JOB %q", os.Getenv("VERIF_C06_JOB"))
	}
	res := c06Bulk(t, vfEnv(), workers, wi, shard, nShards)
	b, err := json.Marshal(res)
	if err != nil {
		t.Fatalf("marshal: %v", err)
	}
	if err := os.WriteFile(out, b, 0o644); err != nil {
		t.Fatalf("write %s: %v", out, err)
	}
}

func c06RunBulk(run *vfRun) *c06BulkResult {
	total := &c06BulkResult{Acc: c06NewAcc(), Stats: map[string]int64{}}
	bin := os.Getenv("VERIF_BIN_NORACE")
	if st, err := os.Stat(bin); bin == "" || err != nil || st.IsDir() || os.Getenv("VERIF_C06_INPROCESS") != "" {
		// no non-race binary (the test binary was started by hand): same work, in this process, one configuration at a time
		run.Count("bulk_in_process(no non-race binary)", 1)
		for wi := range c06WLs {
			total.absorb(c06Bulk(run.T, run.Env, 16, wi, 0, 1))
		}
		return total
	}
	_ = os.MkdirAll(run.Env.WorkDir, 0o755)
	const nShards, workers = 2, 3 // 8 configurations x 2 shards = 16 processes x 3 workers on 16 cores
	type job struct{ wi, shard int }
	var jobs []job
	for wi := range c06WLs {
		for sh := 0; sh < nShards; sh++ {
			jobs = append(jobs, job{wi, sh})
		}
	}
	var mu sync.Mutex
	var failures []string
	vfParallel(len(jobs), len(jobs), func(k int) {
		j := jobs[k]
		out := filepath.Join(run.Env.WorkDir, fmt.Sprintf("c06bulk-%d-%d-%d.json", os.Getpid(), j.wi, j.shard))
		defer os.Remove(out)
		cmd := exec.Command(bin, "-test.run", "^TestVerif_C06Bulk$", "-test.timeout=0", "-test.count=1")
		cmd.Dir = run.Env.WorkDir
		cmd.Env = append(os.Environ(), "VERIF_C06_BULK_OUT="+out, fmt.Sprintf("VERIF_C06_JOB=%d %d %d %d", j.wi, j.shard, nShards, workers), "GOMAXPROCS=4")
		output, err := cmd.CombinedOutput()
		var res c06BulkResult
		if err == nil {
			var b []byte
			if b, err = os.ReadFile(out); err == nil {
				if err = json.Unmarshal(b, &res); err == nil && res.Acc == nil {
					err = fmt.Errorf("empty result")
				}
			}
		}
		mu.Lock()
		defer mu.Unlock()
		if err != nil {
			failures = append(failures, fmt.Sprintf("job whitelist=%s shard=%d: %v\n%s", c06WLs[j.wi].Kind, j.shard, err, vfTrunc(string(output), 3000)))
			return
		}
		total.absorb(&res)
	})
	if len(failures) > 0 {
		run.T.Fatalf("c06: bulk child process failed (rig failure, no verdict):\n%s", strings.Join(failures, "\n"))
	}
	run.Count("bulk_child_processes(non-race build)", int64(len(jobs)))
	return total
}

// ---------------------------------------------------------------------------------------------------------

func TestVerif_C06(t *testing.T) {
	run := vfNewRun(t, "C06", "exploration")
	run.SetRule("phase 1 (sign_out?rd=): every string of <=3 (quick) / <=4 (thorough) tokens over a 40-token adversarial alphabet, the same (one token shorter) behind 10 URL prefixes, the slash-filler-slash family (<=3/<=4 fillers), " +
		"and the repository's own open-redirect list, each under all 8 whitelist configurations (none, exact, .dot, *.star, host:port, host:*, IPv6/IPv4 literal, entries with an empty host part); 50k/1M seeded random strings of 5-12 tokens under 2/3 of the 8; " +
		"phase 2: every short string (<=2/<=3 tokens), the list, and every string phase 1 saw kept or that a browser would resolve off-origin if echoed (big thorough sub-spaces carried at 1/64) " +
		"through 26 more channels (X-Auth-Request-Redirect on sign_out/start, rd on start->IdP->callback with plain and base64 state, state edited at the callback, X-Forwarded-Proto/Host/Uri in reverse-proxy mode, htpasswd form login, " +
		"sign-in / error / 403 pages parsed with x/net/html, protected URL and sign_in with skip-provider-button, failed callbacks carrying a forged state in 5 failure modes x plain/base64); short strings under all configurations, carried ones under 1/3 chosen by hash (an absolute URL always under the configuration that keeps it); login channels on a sample; " +
		"phase 3: every host that occurs in an instance's own configuration (IdP issuer/login/redeem/JWKS/profile/validate, upstreams, redis, --redirect-url, cookie domains; read from the instance's flags) x 35 target forms (http/https/scheme-relative, with/without/other port, userinfo, backslash, case, trailing dot, sub-domain) " +
		"through every cheap channel and (8 core forms) every login channel, under all 8 whitelist configurations, for the ordinary instances (IdP and upstream on 127.0.0.1:port) and for configuration-rich ones (static endpoints with a NAMED authorization host, redirect-url, two cookie domains, second upstream, redis store); " +
		"plus a pass of all channels in the race build, the same requests over a real connection (Location as transmitted), and the fidelity clause on 200/3000 safe URIs plus paths sharing the proxy prefix as a string, x 7 routes x proxy prefixes /oauth2, /auth, /a. " +
		"cell = (channel, whitelist kind, leading class x backslash x whitespace/control x userinfo x port x non-ASCII x escape); non-trivial = the proxy kept the string or a browser would leave the origin if it were echoed verbatim")
	run.Assume("browsers follow the WHATWG URL Standard (BrowserURL is self-tested against the standard's examples at the start of the run)",
		"golang.org/x/net/idna implements UTS #46 as browsers do", "whitelist semantics as documented in docs/docs/configuration/overview.md (bare domain of a .x/*.x entry accepted)",
		"in reverse-proxy mode the host the browser addressed is X-Forwarded-Host (set by the trusted front proxy)")

	nSelf, fails := c06SelfTest()
	if len(fails) > 0 {
		t.Fatalf("c06: BrowserURL / whitelist reference self-tests failed (rig failure, no verdict):\n  %s", strings.Join(fails, "\n  "))
	}
	run.Count("oracle_selftests_passed", int64(nSelf))

	if run.Env.Replay != "" {
		c06Replay(run)
		return
	}

	// the children (bulk) and this process's own phases run side by side: the latter are mostly serial (the proxy's
	// process-wide lock), the former use the cores
	var bulk *c06BulkResult
	var wg sync.WaitGroup
	wg.Add(1)
	go func() {
		defer wg.Done()
		bulk = c06RunBulk(run)
	}()
	// this process's phases also run side by side (separate instances and worlds)
	w0 := vfNewWorld(t)
	defer w0.Close()
	wg.Add(2)
	go func() { defer wg.Done(); c06Concurrency(run) }()
	go func() { defer wg.Done(); c06RacePass(run, w0) }()
	c06Fidelity(run) // reports before the bulk's witnesses: the run keeps a bounded number of witness files
	wg.Wait()
	if bulk == nil {
		t.Fatalf("c06: bulk did not complete")
	}
	bulk.Acc.flush(run)
	for k, v := range bulk.Stats {
		run.Extra("bulk_"+k, v)
	}

	// a run that did not see the validator keep anything, or no completed logins, has observed too little
	musts := []string{"logins_completed", "login_starts_checked", "html_pages_parsed", "fidelity_ok", "wire_locations_compared"}
	for _, ch := range append(append([]string{}, c06CheapChannels...), c06LoginChannels...) {
		if c06IsCBFail(ch) {
			musts = append(musts, "ch_"+ch, "hidden_rd_seen_"+ch) // failed callbacks: the error page with its rd field was seen
			continue
		}
		musts = append(musts, "ch_"+ch, "kept_"+ch) // every channel delivered strings and showed at least one of them kept
	}
	for _, r := range c06FidelityRoutes {
		musts = append(musts, "fidelity_ok["+r+"]")
	}
	musts = append(musts, "cfg_targets_driven[ip-port-instances]", "cfg_targets_driven[named-host-instances]", "cfg_targets_kept", "cfg_logins_completed[ip-port-instances]", "cfg_logins_completed[named-host-instances]",
		"cfg_host_source[--oidc-issuer-url]", "cfg_host_source[--login-url]", "cfg_host_source[--upstream]", "cfg_host_source[--redirect-url]", "cfg_host_source[--cookie-domain]", "cfg_host_source[--redis-connection-url]")
	musts = append(musts, "fidelity_prefix_sharing_uris", "fidelity_custom_prefix_uris", "fidelity_long_uris", "ch_conc:so-rd", "ch_conc:form-rd", "ch_conc:so-xarr", "ch_conc:start-rd")
	for _, ch := range []string{"so-rd", "so-xarr", "form-rd", "page-error", "xf-so", "page-403", "cb-state"} {
		musts = append(musts, "kept_wire:"+ch)
	}
	for _, must := range musts {
		if run.Counter(must) == 0 {
			run.Inconclusive("counter " + must + " is zero")
			fmt.Printf("INCONCLUSIVE property=C06 reason=nothing observed for %s\n", must)
			t.Fail()
		}
	}
	run.Finish(int64(run.Env.Pick(800000, 12000000)), run.Env.Pick(18000, 20000))
}

// c06RacePass: all channels under the race build for the 1-token strings, the prefixes and a sample of the known-bad list,
// then the wire comparison: the same request through the real http.Server and the raw socket client.
func c06RacePass(run *vfRun, w0 *vfWorld) {
	// the wire pass also takes a hash sample of the whole universe of the bulk (about 200 / 1500 strings)
	var interesting []string
	u := c06NewUniverse(run.Env)
	div := uint64(1 + u.total/run.Env.Pick(200, 1500))
	for i := 0; i < u.total; i++ {
		if s, _ := u.At(i); c06Hash(s+"w")%div == 0 {
			interesting = append(interesting, s)
		}
	}
	var set []string
	set = append(set, c06Tokens...)
	set = append(set, c06Prefixes...)
	for _, t := range []string{"/", "\\", "@", ".", ":8443", "evil.test", ".evil.test", "\t"} {
		for _, p := range c06Prefixes {
			set = append(set, p+t)
		}
	}
	for i, s := range c06KnownBad() {
		if i%run.Env.Pick(10, 3) == int(run.Env.Seed)%run.Env.Pick(10, 3) {
			set = append(set, s)
		}
	}
	sort.Strings(interesting)
	wire := append([]string{}, set...)
	wire = append(wire, interesting...)
	// configuration-host templates (not on the wire: they are made concrete per instance inside drive): the core forms for
	// the first hosts of the ordinary instances
	for k := 0; k < 2; k++ {
		for _, f := range c06CfgForms[:c06CfgCoreForms] {
			set = append(set, c06CfgTemplate(k, f))
		}
	}
	run.Extra("race_pass_strings", len(set))
	run.Extra("wire_pass_strings", len(wire))
	acc := c06NewAcc()
	var wireN, wireDiff int64
	for wi, wl := range c06WLs {
		if !run.Env.Thorough() && (wi+int(run.Env.Seed))%len(c06WLs)%4 != 0 { // quick: two of the seven configurations, rotating with the seed
			continue
		}
		cx, err := c06NewCtx(w0, wl)
		if err != nil {
			run.T.Fatalf("c06: %v", err)
		}
		if err := cx.Rotate(run.T); err != nil {
			run.T.Fatalf("c06: %v", err)
		}
		c06Chunks(len(set), 16, 16, func(lo, hi int) {
			loc := c06NewAcc()
			st := &c06State{}
			for _, s := range set[lo:hi] {
				for _, ch := range c06CheapChannels {
					cx.drive(loc, ch, s, st)
				}
				for _, ch := range c06LoginChannels {
					cx.drive(loc, ch, s, st)
				}
			}
			acc.merge(loc)
		})
		// wire: Location as transmitted
		var mu sync.Mutex
		c06Chunks(len(wire), 16, 16, func(lo, hi int) {
			loc := c06NewAcc()
			for _, s := range wire[lo:hi] {
				n, d := cx.wireCompare(loc, s)
				atomic.AddInt64(&wireN, n)
				atomic.AddInt64(&wireDiff, d)
			}
			mu.Lock()
			acc.merge(loc)
			mu.Unlock()
		})
		cx.Close()
	}
	run.Count("wire_locations_compared", wireN)
	run.Count("wire_location_differs_from_direct(after header sanitising)", wireDiff)
	acc.flush(run)
}

// wireCompare sends the same request through the direct driver and over a real connection; the Location as transmitted is
// what is judged; a difference to the direct driver (beyond net/http's CR/LF->space and trimming) is recorded.
func (cx *c06Ctx) wireCompare(a *c06Acc, in string) (n, diff int64) {
	esc := vfQueryEscape(in)
	type wreq struct {
		ch   string
		p    *vfProxy
		base c06Base
		req  *vfReq
	}
	h := c06XFHost(in)
	xb, _ := c06ParseBase("https", h)
	reqs := []wreq{
		{"so-rd", cx.H, cx.BaseA, vfGET("/oauth2/sign_out?rd=" + esc)},
		{"so-xarr", cx.H, cx.BaseA, vfGET("/oauth2/sign_out", "X-Auth-Request-Redirect", in)},
		{"form-rd", cx.H, cx.BaseA, vfNewReq("POST", "/oauth2/sign_in").WithBody("application/x-www-form-urlencoded", []byte("username="+c06User+"&password="+c06Pass+"&rd="+esc))},
		{"page-error", cx.H, cx.BaseA, vfGET("/oauth2/callback?error=access_denied&rd=" + esc)},
		{"xf-so", cx.B, xb, vfGET("/oauth2/sign_out", "X-Forwarded-Proto", "https", "X-Forwarded-Host", h, "X-Forwarded-Uri", in)},
	}
	reqs = append(reqs, wreq{"cbfail-error", cx.A, cx.BaseA, vfGET("/oauth2/callback?error=access_denied&state=" + vfQueryEscape("Zm9yZ2Vk:"+in))})
	if c06ValidTarget(in) {
		reqs = append(reqs, wreq{"page-403", cx.H, cx.BaseA, vfGET(in)})
	}
	for _, r := range reqs {
		if (r.ch == "so-xarr" || r.ch == "xf-so") && !c06HeaderDeliverable(in) {
			continue
		}
		d := r.p.Do(r.req)
		if d.Invalid != "" {
			continue
		}
		wr := r.p.Wire(r.req)
		if wr.Err != "" {
			// Go's client refuses a response whose header value carries a control character; net/http's server sends such
			// a Location verbatim (only CR/LF are replaced). The bytes are those of the direct driver: judge them.
			if dl := d.Location(); !c06HeaderDeliverable(dl) {
				n++
				a.count("wire_response_unparsable_by_client(control character in Location; direct bytes judged)", 1)
				cx.judge(a, "wire:"+r.ch, in, r.base, r.p, d, r.req)
				continue
			}
			a.count("wire_errors", 1)
			a.count("wire_error["+r.ch+"] "+vfTrunc(strconv.QuoteToASCII(wr.Err), 160), 1)
			continue
		}
		n++
		cx.judge(a, "wire:"+r.ch, in, r.base, r.p, wr, r.req)
		san := strings.TrimSpace(strings.NewReplacer("\n", " ", "\r", " ").Replace(d.Location()))
		if wr.Code != d.Code || strings.TrimSpace(wr.Location()) != san {
			diff++
			a.count("wire_differs_"+r.ch, 1)
		}
	}
	// the callback over the wire: state edited, plain
	if s, err := cx.startLogin(cx.A, c06HostA, false); err == nil {
		if code, _, err := c06Authorize(cx.A, s.LoginURL); err == nil {
			cb := vfGET("/oauth2/callback?code="+vfQueryEscape(code)+"&state="+vfQueryEscape(s.Nonce+":"+in), "Cookie", s.Cookie)
			wr := cx.A.Wire(cb)
			if wr.Err == "" {
				n++
				if wr.Code == 302 {
					a.count("logins_completed", 1)
				}
				cx.judge(a, "wire:cb-state", in, cx.BaseA, cx.A, wr, cb)
			}
		}
	}
	return n, diff
}

// ---------------------------------------------------------------------------------------------------------
// fidelity: a plain same-site path and query requested before login is where the user lands after login, byte for byte.
// URIs: the safe grammar, plus paths that merely SHARE the proxy prefix as a string ("/oauth2-docs/x", "/authors/42" with
// --proxy-prefix=/auth): only "<prefix>/..." are the proxy's own endpoints. Instances with the default prefix, /auth and /a.

var c06FidelityRoutes = []string{"start-rd", "start-rd-b64", "protected-url", "form-login", "signin-page", "x-forwarded-uri:front.test", "x-forwarded-uri:good.test"}

var c06PrefixSuffixes = []string{"-docs/x", "x", "2/y?z=1", "ors/42?tab=books", "orize", "", "?x=1", ".", "_", "~", "%2Fsign_in", "%2fstart?next=x", "sign_in", "callback/x", "-"}

type c06FidInst struct {
	prefix                string
	plain, b64, skip, rev *vfProxy // b64 only for the default prefix
}

func c06Fidelity(run *vfRun) {
	w := vfNewWorld(run.T) // real nonce / PKCE checks, a signature per login
	defer w.Close()
	ht := w.File("htpasswd-fid", c06HtpasswdLine(c06User, c06Pass))
	mk := func(flags ...string) *vfProxy {
		p, err := w.NewProxy(flags...)
		if err != nil {
			run.T.Fatalf("c06 fidelity instance %v: %v", flags, err)
		}
		return p
	}
	var insts []*c06FidInst
	for _, pre := range []string{"/oauth2", "/auth", "/a"} {
		fi := &c06FidInst{prefix: pre}
		pf := "--proxy-prefix=" + pre
		if pre == "/oauth2" {
			fi.plain = mk(pf, "--htpasswd-file="+ht)
			fi.b64 = mk(pf, "--encode-state=true", "--code-challenge-method=S256", "--whitelist-domain=.good.test")
		} else {
			fi.plain = mk(pf, "--encode-state=true")
		}
		fi.skip = mk(pf, "--skip-provider-button=true")
		fi.rev = mk(pf, "--reverse-proxy=true", "--whitelist-domain=good.test")
		insts = append(insts, fi)
	}
	n := run.Env.Pick(200, 3000)
	routeIdx := map[string]int{}
	for i, r := range c06FidelityRoutes {
		routeIdx[r] = i
	}
	reported := make([]int64, len(c06FidelityRoutes))
	vfParallel(n, 16, func(i int) {
		check := func(route string, p *vfProxy, uri, want string, resp *vfResp, err error, reqNote string) {
			run.Eval("fidelity|" + route)
			got := ""
			if resp != nil {
				got = resp.Location()
			}
			if err != nil || resp == nil || resp.Code != 302 || got != want {
				st := 0
				if resp != nil {
					st = resp.Code
				}
				run.Count("fidelity_violations["+route+"]", 1)
				if atomic.AddInt64(&reported[routeIdx[route]], 1) > 1 {
					return // one witness per route
				}
				run.Violation("c06:fidelity:"+route, fmt.Sprintf("route %s: requested %s (%d bytes) before login, landed on %s (%d bytes; status %d, err %v)", route, vfTrunc(c06Quote(uri), 120), len(uri), vfTrunc(c06Quote(got), 120), len(got), st, err),
					c06Case{Channel: "fidelity:" + route, Input: c06Quote(uri), Status: st, Where: "Location", Output: c06Quote(got), Flags: p.Flags, Note: reqNote + "; expected Location " + c06Quote(want)})
				return
			}
			run.Count("fidelity_ok", 1)
			run.Count("fidelity_ok["+route+"]", 1)
			run.SampleEvery(2003, func() interface{} { return map[string]string{"route": route, "uri": uri, "location": got} })
		}
		finish := func(b *vfBrowser, p *vfProxy, start *vfResp) (*vfResp, error) {
			if start.Code != 302 {
				return start, fmt.Errorf("no login start (status %d)", start.Code)
			}
			l, err := b.continueLogin(p, vfStdIdentity, start)
			if err != nil {
				return nil, err
			}
			return b.Get(p, l.CallbackTarget(p)), nil
		}
		// the routes on which the proxy itself derives the target from the request (these consult the proxy prefix)
		derived := func(fi *c06FidInst, uri string, wire bool) {
			// protected URL, skip-provider-button
			b := vfNewBrowser("")
			b.Wire = wire
			cb, err := finish(b, fi.skip, b.Get(fi.skip, uri))
			check("protected-url", fi.skip, uri, uri, cb, err, "GET <uri> unauthenticated with --skip-provider-button -> IdP -> callback (proxy prefix "+fi.prefix+")")
			// sign-in page: the hidden rd of the 403 page is what the "Sign in" form submits to <prefix>/start
			b = vfNewBrowser("")
			page := b.Get(fi.plain, uri)
			rd, nrd := "", 0
			for _, o := range c06Outs(page, c06NewAcc()) {
				if o.Where == "hidden rd" {
					nrd++
					if nrd == 1 || o.Val != uri {
						rd = o.Val
					}
				}
			}
			if page.Code != 403 || nrd == 0 || rd != uri {
				check("signin-page", fi.plain, uri, uri, &vfResp{Code: page.Code, Header: map[string][]string{"Location": {rd}}}, fmt.Errorf("sign-in page (status %d) carries rd=%s in %d field(s)", page.Code, c06Quote(rd), nrd), "GET <uri> unauthenticated -> sign-in page (proxy prefix "+fi.prefix+")")
			} else {
				_, cb, err := b.Login(fi.plain, vfStdIdentity, rd)
				check("signin-page", fi.plain, uri, uri, cb, err, "GET <uri> unauthenticated -> sign-in page -> its rd submitted to "+fi.prefix+"/start -> IdP -> callback")
			}
			// reverse-proxy mode: the URI arrives in X-Forwarded-Uri (nginx auth_request style start)
			for _, h := range []string{"front.test", "good.test"} {
				if h == "good.test" && fi.prefix != "/oauth2" {
					continue
				}
				b = vfNewBrowser("")
				b.Extra = [][2]string{{"X-Forwarded-Proto", "https"}, {"X-Forwarded-Host", h}, {"X-Forwarded-Uri", uri}}
				want := uri
				if h == "good.test" {
					want = "https://good.test" + uri // whitelisted front host: the absolute form of the same page
				}
				cb, err := finish(b, fi.rev, b.Get(fi.rev, fi.prefix+"/start"))
				check("x-forwarded-uri:"+h, fi.rev, uri, want, cb, err, "GET "+fi.prefix+"/start with X-Forwarded-Proto/Host/Uri=<uri>")
			}
		}
		uri := c06SafeURI(run.Env.Seed, i)
		wire := i%10 == 0
		def := insts[0]
		// rd on <prefix>/start, plain state
		b := vfNewBrowser("")
		b.Wire = wire
		_, cb, err := b.Login(def.plain, vfStdIdentity, uri)
		check("start-rd", def.plain, uri, uri, cb, err, "GET /oauth2/start?rd=<uri> -> IdP -> callback")
		// rd on /oauth2/start, base64 state + PKCE
		b = vfNewBrowser("")
		_, cb, err = b.Login(def.b64, vfStdIdentity, uri)
		check("start-rd-b64", def.b64, uri, uri, cb, err, "GET /oauth2/start?rd=<uri> (encode-state, PKCE)")
		// htpasswd form
		r4 := def.plain.Do(vfNewReq("POST", "/oauth2/sign_in").WithBody("application/x-www-form-urlencoded", []byte("username="+c06User+"&password="+c06Pass+"&rd="+vfQueryEscape(uri))))
		check("form-login", def.plain, uri, uri, r4, nil, "POST /oauth2/sign_in rd=<uri>")
		derived(def, uri, wire)
		// long targets (900 ... 8000 bytes: long paths, long and many query parameters): the state has to carry all of it
		if i%4 == 0 {
			long := c06SafeLongURI(run.Env.Seed, i, []int{900, 1100, 2000, 4000, 8000}[(i/4)%5])
			run.Count("fidelity_long_uris", 1)
			b = vfNewBrowser("")
			_, cb, err = b.Login(def.plain, vfStdIdentity, long)
			check("start-rd", def.plain, long, long, cb, err, "GET /oauth2/start?rd=<uri> -> IdP -> callback (long target)")
			b = vfNewBrowser("")
			_, cb, err = b.Login(def.b64, vfStdIdentity, long)
			check("start-rd-b64", def.b64, long, long, cb, err, "GET /oauth2/start?rd=<uri> (encode-state, PKCE; long target)")
			derived(def, long, false)
		}
		// a path that shares the default prefix as a string
		st := c06Mix(uint64(run.Env.Seed)*31 + uint64(i))
		sfx := c06PrefixSuffixes[i%len(c06PrefixSuffixes)]
		tail := ""
		if st%3 == 0 && sfx != "" && !strings.Contains(sfx, "?") { // never "<prefix>/...": those are the proxy's own endpoints
			for tail = "/."; strings.Trim(tail, "/.") == ""; { // no dot segment: outside the safe grammar
				tail = "/" + c06SafeWord(&st, 1, 6)
			}
		}
		run.Count("fidelity_prefix_sharing_uris", 1)
		derived(def, def.prefix+sfx+tail, false)
		if i%3 == 0 {
			b = vfNewBrowser("")
			_, cb, err = b.Login(def.plain, vfStdIdentity, def.prefix+sfx+tail)
			check("start-rd", def.plain, def.prefix+sfx+tail, def.prefix+sfx+tail, cb, err, "GET /oauth2/start?rd=<uri> -> IdP -> callback")
		}
		// a custom proxy prefix (/auth, /a): a safe URI (many start with the letters of the prefix) and a prefix-sharing one
		ci := insts[1+i%2]
		first := strings.SplitN(strings.SplitN(uri, "?", 2)[0], "/", 3)[1]
		if first != strings.TrimPrefix(ci.prefix, "/") { // "<prefix>/..." are the proxy's own endpoints
			run.Count("fidelity_custom_prefix_uris", 1)
			derived(ci, uri, false)
		}
		sfx = c06PrefixSuffixes[(i/2)%len(c06PrefixSuffixes)]
		run.Count("fidelity_prefix_sharing_uris", 1)
		run.Count("fidelity_custom_prefix_uris", 1)
		derived(ci, ci.prefix+sfx, false)
	})
}

// ---------------------------------------------------------------------------------------------------------
// replay: ./check C06 --replay replays/C06/<hash>.json re-executes exactly the (channel, whitelist, input) of a witness

func c06Replay(run *vfRun) {
	b, err := os.ReadFile(run.Env.Replay)
	if err != nil {
		run.T.Fatalf("c06 replay: %v", err)
	}
	var wit struct {
		Detail c06Case `json:"detail"`
	}
	if err := json.Unmarshal(b, &wit); err != nil {
		run.T.Fatalf("c06 replay: %v", err)
	}
	in, err := strconv.Unquote(wit.Detail.Input)
	if err != nil {
		run.T.Fatalf("c06 replay: input %s: %v", wit.Detail.Input, err)
	}
	if wit.Detail.Template != "" {
		in = wit.Detail.Template // a configuration-host target: made concrete for the instances of this run
	}
	ch := wit.Detail.Channel
	if strings.HasPrefix(ch, "fidelity:") {
		run.T.Fatalf("c06 replay: fidelity witnesses are replayed by running the check with the same seed (input %s)", wit.Detail.Input)
	}
	w0 := vfNewWorld(run.T)
	defer w0.Close()
	for _, wl := range c06WLs {
		if wl.Kind != wit.Detail.WL {
			continue
		}
		rich := false
		for _, f := range wit.Detail.Flags {
			rich = rich || strings.HasPrefix(f, "--login-url=")
		}
		cx, err := c06NewCtxV(w0, wl, rich)
		if err != nil {
			run.T.Fatalf("c06 replay: %v", err)
		}
		if err := cx.Rotate(run.T); err != nil {
			run.T.Fatalf("c06 replay: %v", err)
		}
		defer cx.Close()
		acc := c06NewAcc()
		if strings.HasPrefix(ch, "conc:") {
			stats := &c06ConcStats{}
			for r := 0; r < 400; r++ {
				cx.c06ConcBurst(acc, stats, r, in, 8)
			}
			run.Count("conc_requests_overlapping_another(in-flight gauge > 1 on entry)", stats.overlapping)
		} else if strings.HasPrefix(ch, "wire:") {
			cx.wireCompare(acc, in)
		} else {
			cx.drive(acc, ch, in, &c06State{})
		}
		acc.flush(run)
	}
	run.Finish(1, 0)
}
