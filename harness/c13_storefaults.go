//go:build verif

package main

// C13 — Session-store failures fail closed.
//
// Technique: fault enumeration on the Redis wire. For each scenario a fault-free run records the sequence of store
// operations (GET/SET/DEL/OBTAIN/RELEASE/PING as seen by the RedisFront); then the scenario is re-executed from a
// fresh state once per (position k, fault kind) — and per pair of positions in the thorough tier — and the outcome is
// judged by the five guarantees of the property, each applied to the kind of operation it speaks about:
//   read  (GET of the ticket)  failed / nil / corrupted / truncated  => not forwarded with identity, no 202, no user info
//   lock  acquisition failing with an error                          => same
//   write (SET) failed   => no response carries a ticket cookie whose session the healed store cannot load, and the
//                           login / form sign-in does not answer with the success redirect
//   delete failed (no effect) => sign-out does not answer 302; and whenever it answers 302 every pre-sign-out cookie is dead
//   ping failed          => /ready != 200
//   always               => no panic
// Instances run once with go-redis retries disabled (every injected fault is then a client-level failure: crisp
// oracle) and once with default retries (only the retry-agnostic invariants are judged: served => an intact value was
// delivered; cookie handed out => loadable; 302 sign-out => dead; ready 200 => an unfaulted PING was answered).

import (
	"fmt"
	"net/http"
	"net/http/httptest"
	"sort"
	"strings"
	"sync"
	"testing"
	"time"

	"github.com/alicebob/miniredis/v2"
)

type c13Cell struct {
	w     *vfWorld
	mr    *miniredis.Miniredis
	hub   *vfRedisHub
	front *vfRedisFront
	p     map[string]*vfProxy // mode -> instance
	n     int
}

type c13Fault struct {
	Pos  int // 1-based index among the classified operations of the faulted phase
	Kind string
	N    int
}

var c13Kinds = []c13Fault{
	{Kind: "err-before"}, {Kind: "drop-before"}, {Kind: "down"}, {Kind: "effect-drop"}, {Kind: "effect-err"}, {Kind: "nil"}, {Kind: "stall"},
	{Kind: "corrupt", N: 0}, {Kind: "corrupt", N: 13}, {Kind: "corrupt", N: 1 << 20},
	{Kind: "truncate", N: 0}, {Kind: "truncate", N: 1}, {Kind: "truncate", N: 11}, {Kind: "truncate", N: 12}, {Kind: "truncate", N: 13}, {Kind: "truncate", N: 28}, {Kind: "truncate", N: -1},
}

func (f c13Fault) String() string {
	if f.Kind == "corrupt" || f.Kind == "truncate" {
		return fmt.Sprintf("%s(%d)@%d", f.Kind, f.N, f.Pos)
	}
	return fmt.Sprintf("%s@%d", f.Kind, f.Pos)
}

func (f c13Fault) isError() bool {
	switch f.Kind {
	case "err-before", "drop-before", "effect-drop", "effect-err", "stall", "down":
		return true
	}
	return false
}

type c13Outcome struct {
	Scenario   string        `json:"scenario"`
	Mode       string        `json:"mode"`    // noretry | retry (standalone client) | cluster | sentinel (topology clients, library-default retries)
	Retries    bool          `json:"retries"` // the client may retry: only the retry-agnostic invariants are judged
	Faults     []string      `json:"faults"`
	Ops        []string      `json:"ops"` // op log of the faulted phase: "GET", "GET!truncate", ...
	Status     int           `json:"status"`
	Served     bool          `json:"served_with_identity"`
	Panic      string        `json:"panic,omitempty"`
	SetCookies []string      `json:"set_cookies,omitempty"`
	After      map[string]int `json:"after,omitempty"` // follow-up probes against the healed store
	Flags      []string      `json:"flags,omitempty"`
	Note       string        `json:"note,omitempty"`
	Note2      string        `json:"observation,omitempty"`
}

var c13Modes = []string{"noretry", "retry", "cluster", "sentinel"}

// fault kinds used with the topology clients in the quick tier (the full list in thorough)
var c13TopologyKinds = map[string]bool{"err-before": true, "drop-before": true, "down": true, "effect-err": true, "nil": true, "corrupt": true, "truncate": true}

var c13Scenarios = []string{"login", "form-login", "request", "auth-only", "userinfo", "refresh", "refresh-norefreshtoken", "sign-out", "sign-out-post", "ready", "ready-head", "ready-ua"}

func c13NewCell(t *testing.T, run *vfRun, w *vfWorld, htp string, n int) *c13Cell {
	mr, err := miniredis.Run()
	if err != nil {
		t.Fatalf("miniredis: %v", err)
	}
	c := &c13Cell{w: w, mr: mr, hub: vfNewRedisHub(mr), p: map[string]*vfProxy{}, n: n}
	c.front = c.hub.Front(n)
	w.OnClose(func() { c.hub.Close(); mr.Close() })
	for _, mode := range c13Modes {
		params := "read_timeout=150ms&write_timeout=150ms&dial_timeout=1s&min_retry_backoff=1ms&max_retry_backoff=2ms"
		if mode == "noretry" {
			params += "&max_retries=-1" // go-redis: -1 disables retries
		}
		var storeFlags []string
		switch mode {
		case "cluster", "sentinel":
			// the Cluster / Sentinel clients (own wrapper type, own builder): the front poses as a one-node cluster resp. as
			// the master a fake sentinel names; same instance number, so the injection hook treats them alike. The builders
			// ignore URL parameters: library-default timeouts (3 s) and retries apply.
			storeFlags = c.hub.Front(n).ModeFlags(mode, "")
		default:
			storeFlags = c.front.ModeFlags("standalone", params)
		}
		p, err := w.NewProxy(append([]string{"--session-store-type=redis", "--cookie-refresh=1m", "--cookie-expire=2h",
			"--htpasswd-file=" + htp, "--ready-path=/ready", "--pass-access-token=true"}, storeFlags...)...)
		if err != nil {
			t.Fatalf("cell %d mode %s: %v", n, mode, err)
		}
		c.p[mode] = p
	}
	return c
}

func c13IsSessionCookie(p *vfProxy, line string) (name, value string, ok bool) {
	ck, err := http.ParseSetCookie(line)
	if err != nil || ck.Name != p.Opts.Cookie.Name || ck.Value == "" || ck.MaxAge < 0 {
		return "", "", false
	}
	return ck.Name, ck.Value, true
}

// c13Run executes one scenario from a fresh state with the given faults armed for the scenario's critical phase.
func (c *c13Cell) run(scn string, mode string, faults []c13Fault) *c13Outcome {
	p := c.p[mode]
	retries := mode != "noretry"
	out := &c13Outcome{Scenario: scn, Mode: mode, Retries: retries, After: map[string]int{}}
	for _, f := range faults {
		out.Faults = append(out.Faults, f.String())
	}
	c.hub.SetHooks(nil, nil)
	c.hub.SetDown(false)
	c.mr.FlushAll()
	b := vfNewBrowser("")
	id := vfIdentity{Sub: "u-c13", Email: "c13@example.com", Groups: []string{"g"}}
	if scn == "refresh-norefreshtoken" {
		id.NoRefreshToken = true
	}
	var login *vfLogin
	var preCookies []string // session cookies the browser held before the faulted phase
	switch scn {
	case "login":
		l, err := b.StartLogin(p, id, "/landing")
		if err != nil {
			out.Note = "rig: start failed: " + err.Error()
			return out
		}
		login = l
	case "form-login", "ready", "ready-head", "ready-ua":
	default:
		if _, _, err := b.Login(p, id, "/"); err != nil {
			out.Note = "rig: login failed: " + err.Error()
			return out
		}
		if strings.HasPrefix(scn, "refresh") {
			// make the stored session stale through the real store: load, back-date, save under the same ticket
			req := httptest.NewRequest("GET", "/", nil)
			req.Header.Set("Cookie", vfCookieHeader(b.Jar.For("proxy.test", "/", false)))
			s, err := p.P.LoadCookiedSession(req)
			if err != nil {
				out.Note = "rig: load for back-dating failed: " + err.Error()
				return out
			}
			old := time.Now().Add(-10 * time.Minute)
			s.CreatedAt = &old
			rw := httptest.NewRecorder()
			if err := p.P.SaveSession(rw, req, s); err != nil {
				out.Note = "rig: re-save failed: " + err.Error()
				return out
			}
			b.Jar.Apply("proxy.test", "/", rw.Header().Values("Set-Cookie"))
		}
		for _, ck := range b.Jar.For("proxy.test", "/", false) {
			preCookies = append(preCookies, ck.Name+"="+ck.Value)
		}
	}
	// arm
	c.hub.ResetLog()
	var mu sync.Mutex
	count := 0
	var ops []string
	c.hub.SetHooks(func(cmd *vfRedisCmd) vfRedisDecision {
		if cmd.Op == "" || cmd.Inst != c.n {
			return vfRedisDecision{}
		}
		mu.Lock()
		defer mu.Unlock()
		count++
		for _, f := range faults {
			if f.Kind == "down" && count >= f.Pos {
				ops = append(ops, cmd.Op+"!down")
				return vfRedisDecision{Fault: &vfRedisFault{Kind: "drop-before"}}
			}
			if f.Pos == count {
				if (f.Kind == "corrupt" || f.Kind == "truncate") && cmd.Op != "GET" {
					break // only bulk replies can be corrupted / truncated: not applicable here
				}
				ops = append(ops, cmd.Op+"!"+f.Kind)
				return vfRedisDecision{Fault: &vfRedisFault{Kind: f.Kind, N: f.N, Stall: 500 * time.Millisecond}}
			}
		}
		ops = append(ops, cmd.Op)
		return vfRedisDecision{}
	}, nil)
	uid := fmt.Sprintf("c13-%d-%s-%s-%s", c.n, scn, mode, strings.Join(out.Faults, "+"))
	var resp *vfResp
	switch scn {
	case "login":
		resp = b.Get(p, login.CallbackTarget(p))
	case "form-login":
		resp = b.Send(p, vfNewReq("POST", "/oauth2/sign_in").WithBody("application/x-www-form-urlencoded", []byte("username=hu&password=hp&rd=%2Flanding")))
	case "request", "refresh", "refresh-norefreshtoken":
		resp = b.Get(p, "/x", "X-Vf-Id", uid)
	case "auth-only":
		resp = b.Get(p, "/oauth2/auth")
	case "userinfo":
		resp = b.Get(p, "/oauth2/userinfo")
	case "sign-out":
		resp = b.Get(p, "/oauth2/sign_out?rd=%2Fbye")
	case "sign-out-post":
		resp = b.Send(p, vfNewReq("POST", "/oauth2/sign_out").WithBody("application/x-www-form-urlencoded", []byte("rd=%2Fbye")))
	case "ready":
		resp = b.Get(p, "/ready")
	case "ready-head": // probes come in more shapes than GET (round 8): HEAD, as load balancers send it
		resp = b.Send(p, vfNewReq("HEAD", "/ready"))
	case "ready-ua": // a kubelet-style probe: own User-Agent, Accept */*, query string
		resp = b.Send(p, vfNewReq("GET", "/ready?probe=1", "User-Agent", "kube-probe/1.29", "Accept", "*/*"))
	}
	// heal
	c.hub.SetHooks(nil, nil)
	mu.Lock()
	out.Ops = append([]string{}, ops...)
	mu.Unlock()
	// a stalled command whose reply the client still waited for (starved box: its read timeout fired late or not at all) was
	// answered late but intact: not a failed operation. The front marks those "stall-delivered".
	for _, lc := range c.hub.Log() {
		if lc.Inst == c.n && lc.Fault == "stall-delivered" {
			for i, o := range out.Ops {
				if o == lc.Op+"!stall" {
					out.Ops[i] = lc.Op
					out.Note2 = "a stalled " + lc.Op + " was answered late but intact (client still waiting)"
					break
				}
			}
		}
	}
	out.Status, out.Panic, out.SetCookies = resp.Code, resp.Panic, resp.SetCookies()
	switch scn {
	case "request", "refresh", "refresh-norefreshtoken":
		for _, h := range c.w.Up.FindHit(uid) {
			if h.Header.Get("X-Forwarded-Email") != "" || h.Header.Get("X-Forwarded-User") != "" || h.Header.Get("X-Forwarded-Access-Token") != "" {
				out.Served = true
			}
		}
		if resp.Code == 200 && !out.Served && string(resp.Body) == "upstream-main" {
			out.Served = true // forwarded (identity headers may be absent, still "as authenticated")
		}
	case "auth-only":
		out.Served = resp.Code == 202
	case "userinfo":
		out.Served = resp.Code == 200 && strings.Contains(string(resp.Body), "c13@example.com")
	}
	// follow-ups against the healed store
	// a cookie "handed out" = set by this response and still in the browser after the whole response was applied
	for i, line := range resp.SetCookies() {
		if n, v, ok := c13IsSessionCookie(p, line); ok {
			inJar := false
			for _, ck := range b.Jar.For("proxy.test", "/", false) {
				if ck.Name == n && ck.Value == v {
					inJar = true
				}
			}
			if !inJar {
				continue
			}
			r := p.Do(vfGET("/oauth2/userinfo").H("Cookie", n+"="+v))
			out.After[fmt.Sprintf("handed_out_cookie_%d_userinfo", i)] = r.Code
		}
	}
	if strings.HasPrefix(scn, "sign-out") {
		for i, ck := range preCookies {
			r := p.Do(vfGET("/oauth2/userinfo").H("Cookie", ck))
			out.After[fmt.Sprintf("pre_signout_cookie_%d_userinfo", i)] = r.Code
		}
	}
	// liveness after the fault: the same browser can still use / re-establish a session
	if !strings.HasPrefix(scn, "ready") {
		r := b.Get(p, "/oauth2/userinfo")
		out.After["same_browser_userinfo"] = r.Code
	}
	return out
}

func c13OpsHave(ops []string, op string, unfaulted bool) bool {
	for _, o := range ops {
		if unfaulted && o == op {
			return true
		}
		if !unfaulted && strings.HasPrefix(o, op+"!") {
			return true
		}
	}
	return false
}

// c13Judge applies the guarantees. faultedOp = operation kind at each faulted position ("" when the position was never reached).
func c13Judge(run *vfRun, o *c13Outcome, faults []c13Fault, base []string) {
	flagsDetail := func() map[string]interface{} { return map[string]interface{}{"outcome": o, "fault_free_ops": base} }
	report := func(sig, msg string) {
		run.Violation(sig, fmt.Sprintf("%s [%s mode=%s faults=%v ops=%v status=%d]", msg, o.Scenario, o.Mode, o.Faults, o.Ops, o.Status), flagsDetail())
	}
	if o.Panic != "" {
		report("c13:panic", "request handling panicked under a store fault: "+vfTrunc(o.Panic, 100))
		return
	}
	// which op kinds were actually faulted in this execution (labels "OP!kind" written by the injection hook)
	faulted := map[string][]c13Fault{}
	for _, op := range o.Ops {
		if i := strings.Index(op, "!"); i >= 0 {
			faulted[op[:i]] = append(faulted[op[:i]], c13Fault{Kind: op[i+1:]})
		}
	}
	// retry-agnostic invariants ----------------------------------------------------------------------------
	if o.Served && !c13OpsHave(o.Ops, "GET", true) {
		report("c13:served-without-intact-read", "request served as authenticated although no intact session value was delivered")
	}
	for name, code := range o.After {
		if strings.HasPrefix(name, "handed_out_cookie_") && code != 200 {
			report("c13:cookie-for-unpersisted-session", fmt.Sprintf("response handed out a session cookie that the healed store cannot load (%s=%d)", name, code))
		}
		if strings.HasPrefix(name, "pre_signout_cookie_") && o.Status == 302 && code == 200 {
			report("c13:signout-success-but-session-alive", "sign-out answered 302 although a pre-sign-out cookie still authenticates")
		}
	}
	if strings.HasPrefix(o.Scenario, "ready") && o.Status == 200 && !c13OpsHave(o.Ops, "PING", true) {
		report("c13:ready-while-store-unreachable", "/ready answered 200 although no PING was answered")
	}
	if o.Retries {
		return
	}
	// crisp rules (retries disabled: every injected fault is a failed / bad client-level call) -------------------
	for _, f := range faulted["GET"] {
		_ = f
		if o.Served {
			report("c13:served-after-failed-read", "request served as authenticated although the read of the session failed or returned bad data")
		}
	}
	for _, f := range faulted["OBTAIN"] {
		if f.isError() && o.Served {
			report("c13:served-after-lock-error", "request served as authenticated although acquiring the refresh lock failed with an error")
		}
	}
	for _, f := range faulted["SET"] {
		if (f.isError() || f.Kind == "nil") && (o.Scenario == "login" || o.Scenario == "form-login") && o.Status == 302 {
			report("c13:login-success-after-failed-write", "login answered with the success redirect although persisting the session failed")
		}
	}
	for _, f := range faulted["DEL"] {
		if (f.Kind == "err-before" || f.Kind == "drop-before" || f.Kind == "down" || f.Kind == "nil") && strings.HasPrefix(o.Scenario, "sign-out") && o.Status == 302 && !c13OpsHave(o.Ops, "DEL", true) {
			report("c13:signout-success-after-failed-delete", "sign-out answered 302 although the stored session could not be removed")
		}
	}
	for _, f := range faulted["PING"] {
		if (f.isError() || f.Kind == "nil") && o.Status == 200 {
			report("c13:ready-after-failed-ping", "/ready answered 200 although PING failed")
		}
	}
}

// c13HungStoreReadiness: the store answers PING only after 3.5 s, the client's read timeout is 2.5 s (go-redis default: 3 s),
// the prober is patient (the direct driver waits 60 s). Not ready is the only right answer; a 200 means the probe was
// answered although no PING was. A control probe against the healthy store must answer 200.
func c13HungStoreReadiness(t *testing.T, run *vfRun, w *vfWorld, htp string) {
	mr, err := miniredis.Run()
	if err != nil {
		t.Fatalf("miniredis: %v", err)
	}
	hub := vfNewRedisHub(mr)
	front := hub.Front(99)
	w.OnClose(func() { hub.Close(); mr.Close() })
	p, err := w.NewProxy("--session-store-type=redis", "--redis-connection-url="+front.URL("read_timeout=2500ms&write_timeout=2500ms&dial_timeout=1s&max_retries=-1"),
		"--htpasswd-file="+htp, "--ready-path=/ready")
	if err != nil {
		t.Fatalf("hung-store instance: %v", err)
	}
	if resp := p.Do(vfGET("/ready")); resp.Code != 200 {
		run.Inconclusive(fmt.Sprintf("rig: readiness control against the healthy store answered %d", resp.Code))
		return
	}
	for _, via := range []string{"direct", "wire"} {
		var mu sync.Mutex
		var ops []string
		hub.SetHooks(func(cmd *vfRedisCmd) vfRedisDecision {
			mu.Lock()
			defer mu.Unlock()
			if cmd.Op == "PING" {
				ops = append(ops, "PING!hang")
				return vfRedisDecision{Fault: &vfRedisFault{Kind: "stall", Stall: 3500 * time.Millisecond}}
			}
			ops = append(ops, cmd.Op)
			return vfRedisDecision{}
		}, nil)
		var resp *vfResp
		if via == "wire" {
			resp = p.Wire(vfGET("/ready"))
		} else {
			resp = p.Do(vfGET("/ready"))
		}
		hub.SetHooks(nil, nil)
		mu.Lock()
		o := &c13Outcome{Scenario: "ready-hung-store", Faults: []string{"hang(3.5s)@PING"}, Ops: append([]string{}, ops...), Status: resp.Code, Panic: resp.Panic, Flags: p.Flags, Note: ""}
		mu.Unlock()
		run.Eval("ready-hung-store|" + via + "|PING answered after the client's read timeout")
		run.Count("hung_store_readiness_probes", 1)
		if resp.Panic != "" {
			run.Violation("c13:panic", "request handling panicked under a store fault: "+vfTrunc(resp.Panic, 100), o)
		}
		if resp.Code >= 200 && resp.Code < 400 {
			run.Violation("c13:ready-while-store-unreachable", fmt.Sprintf("/ready answered %d (%s driver, body %q) although the store did not answer the PING within the client's timeout", resp.Code, via, vfTrunc(string(resp.Body), 40)), o)
		}
		time.Sleep(1200 * time.Millisecond) // the client gave up at 2.5 s; let the stalled reply (3.5 s) go by before the next probe
	}
	// sign-out whose DEL hangs (held at the store front until released): whatever the proxy answers, it must not report
	// success while the stored session is still loadable — probed at once, with the cookie a client kept, while the DEL is
	// still hanging
	b := vfNewBrowser("")
	if _, _, err := b.Login(p, vfIdentity{Sub: "u-c13-hang", Email: "c13hang@example.com", Groups: []string{"g"}}, "/"); err != nil {
		run.Inconclusive("rig: hung-store sign-out: login failed")
		return
	}
	pre := vfCookieHeader(b.Jar.For("proxy.test", "/", false))
	release := make(chan struct{})
	var mu sync.Mutex
	var ops []string
	hub.SetHooks(func(cmd *vfRedisCmd) vfRedisDecision {
		mu.Lock()
		defer mu.Unlock()
		if cmd.Op == "DEL" && !strings.HasSuffix(cmd.Key, ".lock") {
			ops = append(ops, "DEL!hang")
			return vfRedisDecision{Gate: true}
		}
		ops = append(ops, cmd.Op)
		return vfRedisDecision{}
	}, func(c *vfRedisCmd) { <-release })
	resp := b.Get(p, "/oauth2/sign_out?rd=%2Fbye")
	probe := p.Do(vfGET("/oauth2/userinfo").H("Cookie", pre))
	close(release)
	hub.SetHooks(nil, nil)
	mu.Lock()
	o := &c13Outcome{Scenario: "sign-out-hung-store", Faults: []string{"hang@DEL"}, Ops: append([]string{}, ops...), Status: resp.Code, Panic: resp.Panic, Flags: p.Flags, After: map[string]int{"pre_signout_cookie_userinfo_while_del_hangs": probe.Code}}
	mu.Unlock()
	run.Eval("sign-out-hung-store|direct|DEL held beyond the client's read timeout")
	run.Count("hung_store_sign_outs", 1)
	if resp.Panic != "" {
		run.Violation("c13:panic", "request handling panicked under a store fault: "+vfTrunc(resp.Panic, 100), o)
	}
	if resp.Code == 302 && probe.Code == 200 {
		run.Violation("c13:signout-success-but-session-alive", "sign-out answered 302 while its DEL was still hanging at the store: the pre-sign-out cookie still authenticates", o)
	}
}

func TestVerif_C13(t *testing.T) {
	run := vfNewRun(t, "C13", "fault_enumeration")
	run.SetRule("per scenario (login, form-login, request, auth-only, userinfo, refresh, refresh without refresh token, sign-out GET/POST, ready): fault-free run records the store-operation sequence; then every position x every fault kind " +
		"(err-before, drop-before, effect-drop, effect-err, nil, stall, corrupt at 3 offsets, truncate to 0/1/11/12/13/28/len-1), with the standalone client (go-redis retries off and on) and with the Cluster and Sentinel clients (front posing as a one-node cluster / as the master a fake sentinel names; library-default retries; reduced kind list in quick); thorough adds all ordered pairs of positions (standalone). " +
		"cell = (scenario, client mode, position, fault kind); non-trivial = the fault changed the status, the served flag or the operation sequence relative to the fault-free run")
	run.Assume("miniredis stands in for Redis", "a failed re-save after a successful IdP refresh and a failed lock release are recorded, not judged (request is served from a session that was read intact and validated; outside the five guarantees)")
	w := vfNewWorld(t)
	defer w.Close()
	htp := w.File("htpasswd", "hu:"+vfHtpasswdSHA("hp")+"\n")
	const workers = 12
	cells := make([]*c13Cell, workers)
	for i := range cells {
		cells[i] = c13NewCell(t, run, w, htp, i)
	}
	// readiness with a store that accepts the connection and never answers in time (black-holed / frozen Redis): an instance
	// with realistic client timeouts (seconds, not the 150 ms of the enumeration cells); runs next to the enumeration
	hangDone := make(chan struct{})
	go func() { defer close(hangDone); c13HungStoreReadiness(t, run, w, htp) }()
	type job struct {
		scn    string
		mode   string
		faults []c13Fault
	}
	// fault-free baselines
	base := map[string][]string{}
	baseOut := map[string]*c13Outcome{}
	for _, scn := range c13Scenarios {
		for _, mode := range c13Modes {
			o := cells[0].run(scn, mode, nil)
			key := scn + "/" + mode
			if o.Note != "" {
				t.Fatalf("baseline %s: %s", key, o.Note)
			}
			base[key], baseOut[key] = o.Ops, o
			c13Judge(run, o, nil, o.Ops)
			run.Sample(map[string]interface{}{"baseline": key, "ops": o.Ops, "status": o.Status, "served": o.Served})
			ok := map[string]bool{"login": o.Status == 302, "form-login": o.Status == 302, "request": o.Served, "auth-only": o.Served, "userinfo": o.Served, "refresh": o.Served,
				"refresh-norefreshtoken": o.Served, "sign-out": o.Status == 302, "sign-out-post": o.Status == 302, "ready": o.Status == 200, "ready-head": o.Status == 200, "ready-ua": o.Status == 200}[scn]
			if !ok || len(o.Ops) == 0 {
				t.Fatalf("baseline %s does not behave as expected: %+v", key, o)
			}
		}
	}
	run.Extra("fault_free_sequences", base)
	var jobs []job
	for _, scn := range c13Scenarios {
		for _, mode := range c13Modes {
			retries := mode != "noretry"
			topology := mode == "cluster" || mode == "sentinel"
			n := len(base[scn+"/"+mode])
			for pos := 1; pos <= n+1; pos++ { // n+1: first operation beyond the fault-free sequence (retries / follow-ups)
				for ki, kf := range c13Kinds {
					if retries && kf.Kind == "stall" && pos > n {
						continue
					}
					if topology && !run.Env.Thorough() && (!c13TopologyKinds[kf.Kind] || ((kf.Kind == "corrupt" || kf.Kind == "truncate") && ki%3 != 0)) {
						continue
					}
					f := kf
					f.Pos = pos
					jobs = append(jobs, job{scn, mode, []c13Fault{f}})
				}
			}
			if run.Env.Thorough() && !topology {
				pairKinds := []c13Fault{{Kind: "err-before"}, {Kind: "effect-drop"}, {Kind: "nil"}, {Kind: "truncate", N: 11}, {Kind: "corrupt", N: 13}}
				for p1 := 1; p1 <= n; p1++ {
					for p2 := p1 + 1; p2 <= n+1; p2++ {
						for _, k1 := range pairKinds {
							for _, k2 := range pairKinds {
								f1, f2 := k1, k2
								f1.Pos, f2.Pos = p1, p2
								jobs = append(jobs, job{scn, mode, []c13Fault{f1, f2}})
							}
						}
					}
				}
			}
		}
	}
	// stalls cost wall-clock (client timeouts, lock spinning): spread jobs over the cells
	var wg sync.WaitGroup
	ch := make(chan job, len(jobs))
	for _, j := range jobs {
		ch <- j
	}
	close(ch)
	for i := 0; i < workers; i++ {
		wg.Add(1)
		go func(c *c13Cell) {
			defer wg.Done()
			for j := range ch {
				o := c.run(j.scn, j.mode, j.faults)
				if o.Note != "" {
					run.Inconclusive("rig: " + o.Note)
					continue
				}
				key := j.scn + "/" + j.mode
				bo := baseOut[key]
				changed := o.Status != bo.Status || o.Served != bo.Served || strings.Join(o.Ops, ",") != strings.ReplaceAll(strings.Join(bo.Ops, ","), "!", "")
				reached := false
				for _, op := range o.Ops {
					if strings.Contains(op, "!") {
						reached = true
					}
				}
				cell := ""
				if reached && changed {
					var ks []string
					for _, f := range j.faults {
						ks = append(ks, fmt.Sprintf("%s@%d", f.Kind, f.Pos))
					}
					sort.Strings(ks)
					cell = fmt.Sprintf("%s|%s", key, strings.Join(ks, "+"))
				}
				run.Eval(cell)
				if reached {
					run.Count("runs_with_fault_injected", 1)
				} else {
					run.Count("runs_fault_position_not_reached", 1)
				}
				// observations outside the five guarantees
				if strings.HasPrefix(j.scn, "refresh") && o.Served && (c13OpsHave(o.Ops, "SET", false) || c13OpsHave(o.Ops, "RELEASE", false)) {
					run.Count("observed_served_after_failed_resave_or_release", 1)
				}
				if code, ok := o.After["same_browser_userinfo"]; ok {
					run.Count(fmt.Sprintf("after_fault_same_browser_userinfo_%d", code), 1)
				}
				c13Judge(run, o, j.faults, base[key])
				run.SampleEvery(211, func() interface{} { return o })
			}
		}(cells[i])
	}
	wg.Wait()
	<-hangDone
	run.RaceCheck("")
	run.SetExhaustive(true)
	run.Finish(500, 150)
}
