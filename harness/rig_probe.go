//go:build verif

package main

import (
	"testing"
)

// TestVerif_Smoke: the rig's own sanity check — a full login and a proxied request for both stores.
func TestVerif_Smoke(t *testing.T) {
	w := vfNewWorld(t)
	defer w.Close()
	for _, store := range []string{"cookie", "redis"} {
		p := w.MustProxy("--session-store-type="+store, "--redis-connection-url="+w.RedisURL(), "--pass-access-token=true", "--code-challenge-method=S256")
		b := vfNewBrowser("")
		r0 := b.Get(p, "/foo?x=1")
		if r0.Code != 403 {
			t.Fatalf("[%s] unauthenticated: %d", store, r0.Code)
		}
		_, cb, err := b.Login(p, vfStdIdentity, "/foo?x=1")
		if err != nil {
			t.Fatalf("[%s] login: %v", store, err)
		}
		if cb.Location() != "/foo?x=1" {
			t.Fatalf("[%s] location %q", store, cb.Location())
		}
		r1 := b.Get(p, "/foo?x=1", "X-Vf-Id", "smoke-"+store)
		if r1.Code != 200 || string(r1.Body) != "upstream-main" {
			t.Fatalf("[%s] authed: %d %q", store, r1.Code, r1.Body)
		}
		hits := w.Up.FindHit("smoke-" + store)
		if len(hits) != 1 || hits[0].Header.Get("X-Forwarded-Email") != "alice@example.com" {
			t.Fatalf("[%s] upstream hits %+v", store, hits)
		}
		b.Wire = true
		r2 := b.Get(p, "/oauth2/userinfo")
		if r2.Code != 200 {
			t.Fatalf("[%s] wire userinfo: %d %s", store, r2.Code, r2.Err)
		}
		t.Logf("[%s] ok: userinfo=%s cookies=%d", store, r2.Body, len(b.Jar.All()))
	}
}

func TestVerif_SmokeRedisFront(t *testing.T) {
	w := vfNewWorld(t)
	defer w.Close()
	hub := vfNewRedisHub(w.Redis())
	defer hub.Close()
	f := hub.Front(0)
	p := w.MustProxy("--session-store-type=redis", "--redis-connection-url="+f.URL("max_retries=0"), "--cookie-refresh=1m", "--cookie-expire=1h")
	b := vfNewBrowser("")
	if _, _, err := b.Login(p, vfStdIdentity, "/"); err != nil {
		t.Fatal(err)
	}
	if r := b.Get(p, "/x"); r.Code != 200 {
		t.Fatalf("status %d", r.Code)
	}
	for _, c := range hub.Log() {
		t.Logf("%d inst=%d op=%-8s %v -> %s", c.Seq, c.Inst, c.Op, c.Args, c.Reply)
	}
	n := 0
	hub.SetHooks(func(c *vfRedisCmd) vfRedisDecision {
		if c.Op == "GET" {
			n++
			return vfRedisDecision{Fault: &vfRedisFault{Kind: "truncate", N: 5}}
		}
		return vfRedisDecision{}
	}, nil)
	r := b.Get(p, "/x")
	t.Logf("truncated GET: status=%d panic=%q", r.Code, r.Panic)
}

func TestVerif_SmokeAlpha(t *testing.T) {
	w := vfNewWorld(t)
	defer w.Close()
	y := w.AlphaYAML("", "injectRequestHeaders:\n- name: X-Test-User\n  values:\n  - claim: user\n")
	p, err := w.NewProxyRaw(y, w.AlphaBaseFlags())
	if err != nil {
		t.Fatal(err)
	}
	b := vfNewBrowser("")
	if _, _, err := b.Login(p, vfStdIdentity, "/"); err != nil {
		t.Fatal(err)
	}
	r := b.Get(p, "/x", "X-Vf-Id", "alpha1")
	h := w.Up.FindHit("alpha1")
	if r.Code != 200 || len(h) != 1 || h[0].Header.Get("X-Test-User") != "u-alice" {
		t.Fatalf("alpha: %d %+v", r.Code, h)
	}
}

func TestVerif_SmokeRedisModes(t *testing.T) {
	w := vfNewWorld(t)
	defer w.Close()
	for _, mode := range []string{"cluster", "sentinel"} {
		hub := vfNewRedisHub(w.Redis())
		f := hub.Front(0)
		p := w.MustProxy(append([]string{"--session-store-type=redis", "--cookie-refresh=1m", "--cookie-expire=1h"}, f.ModeFlags(mode, "")...)...)
		b := vfNewBrowser("")
		if _, _, err := b.Login(p, vfStdIdentity, "/"); err != nil {
			t.Fatalf("[%s] %v", mode, err)
		}
		if r := b.Get(p, "/x"); r.Code != 200 {
			t.Fatalf("[%s] status %d", mode, r.Code)
		}
		if r := b.Get(p, "/oauth2/sign_out"); r.Code != 302 {
			t.Fatalf("[%s] sign-out status %d", mode, r.Code)
		}
		for _, c := range hub.Log() {
			t.Logf("[%s] %d op=%-8s %v -> %s", mode, c.Seq, c.Op, c.Args, c.Reply)
		}
		hub.Close()
		// direct (no front)
		p2 := w.MustProxy(append([]string{"--session-store-type=redis"}, w.RedisModeFlags(mode)...)...)
		b2 := vfNewBrowser("")
		if _, _, err := b2.Login(p2, vfStdIdentity, "/"); err != nil {
			t.Fatalf("[%s direct] %v", mode, err)
		}
		if r := b2.Get(p2, "/x"); r.Code != 200 {
			t.Fatalf("[%s direct] status %d", mode, r.Code)
		}
	}
}
