//go:build verif

package main

// C14 over the provider types that sit on the OIDC verifier but make a FURTHER identity-provider call of their own:
//
//   keycloak-oidc   verifies the (JWT) access token and reads roles from it — at login and after every refresh grant
//   adfs            falls back to the upn claim (ID token, then profile URL) when a login / refresh yields no e-mail
//   gitlab          takes user, e-mail and groups from <issuer host>/oauth/userinfo at login
//
// Judged from the property statement only ("creates or extends no session from it"):
//
//   stale session (issued ten minutes ago, --cookie-refresh=1m), refresh grant answered fine, the provider's FURTHER call of the
//   refresh faulted (keycloak-oidc: new access token signed by a foreign key / unknown key id / expired / foreign issuer /
//   garbage / roles of the wrong JSON type; adfs: second profile lookup answered 500 / reset / not JSON / truncated):
//     - the request may be refused or served from the old session, but the session is NOT extended: the same browser's next
//       request (fault gone) is either refused or makes the proxy try another refresh grant; it never carries the access token
//       of the rejected answer, and never an empty e-mail where the session had one.
//   gitlab login, /oauth/userinfo answered with a failing status / not at all / not JSON / JSON of another shape / a document
//   whose email_verified is anything but the JSON value true / a wrongly typed field                            => no session
//   always: no panic; a clean login on the same instance afterwards.

import (
	"encoding/json"
	"fmt"
	"net/url"
	"os"
	"sync"
	"testing"
	"time"

	"github.com/oauth2-proxy/oauth2-proxy/v7/pkg/clock"
)

type c14otState struct {
	mu         sync.Mutex
	jwtAT      bool   // the access token of every token response is replaced by a JWT with roles
	atFault    string // refresh grants: the replacement is defective in this way
	rejectedAT string // the defective token that was handed out last
	tag        string
	iss        string
	gl         *vfIdPReply // answer of /oauth/userinfo (nil: 401)
	glHits     int
	prof       *vfIdPReply // answer of the profile URL from call #profSkip+1 on (nil: ordinary)
	profSkip   int
	profHits   int
	profFired  int
}

func (s *c14otState) accessToken(grant string) (string, bool) {
	if !s.jwtAT {
		return "", false
	}
	now := time.Now()
	cl := map[string]interface{}{"iss": s.iss, "aud": "cid", "sub": "at-sub-" + s.tag, "exp": now.Add(time.Hour).Unix(), "iat": now.Unix(), "typ": "Bearer",
		"realm_access":    map[string]interface{}{"roles": []string{"realm-" + s.tag}},
		"resource_access": map[string]interface{}{"cid": map[string]interface{}{"roles": []string{"client-" + s.tag}}}}
	fault := ""
	if grant == "refresh" {
		fault = s.atFault
	}
	o := vfMintOpts{}
	tok := ""
	switch fault {
	case "":
	case "signed-by-a-foreign-key":
		o.Key = vfKeyB
	case "unknown-key-id":
		o.Key, o.Kid = vfKeyB, "k-never-published"
	case "signature-of-another-payload":
		o.BadSig = true
	case "expired":
		cl["exp"] = now.Add(-time.Hour).Unix()
	case "foreign-issuer":
		cl["iss"] = "https://other-idp.test"
	case "foreign-audience":
		cl["aud"] = "another-client"
	case "roles-of-wrong-json-type":
		cl["realm_access"] = "realm-" + s.tag
	case "alg-none":
		o.Alg = "none"
	case "not-a-jwt":
		tok = "at-opaque-" + s.tag
	case "garbage":
		tok = "eyJ.%%%.~~"
	}
	if tok == "" {
		tok = vfMint(cl, o)
	}
	if fault != "" {
		s.rejectedAT = tok
	}
	return tok, true
}

func c14otTail(s string, n int) string {
	if len(s) > n {
		return s[len(s)-n:]
	}
	return s
}

func c14otOnly() bool { return os.Getenv("VERIF_C14_OT_ONLY") != "" }

type c14otWitness struct {
	Type     string      `json:"provider_type"`
	Flags    []string    `json:"flags"`
	Flow     string      `json:"flow"`
	Kind     string      `json:"fault"`
	Steps    []string    `json:"steps"`
	Observed interface{} `json:"observed"`
}

func c14OIDCTypes(run *vfRun, t testing.TB) {
	w := vfNewWorld(t)
	defer w.Close()
	seed, thorough := int(run.Env.Seed), run.Env.Thorough()
	st := &c14otState{iss: w.IdP.Issuer}
	w.IdP.Set(func(c *vfIdPCfg) {
		c.TokenResponseMutate = func(grant string, resp map[string]interface{}) {
			st.mu.Lock()
			defer st.mu.Unlock()
			if tok, ok := st.accessToken(grant); ok {
				resp["access_token"] = tok
			}
		}
		c.Hook = func(ev *vfIdPEvent) *vfIdPReply {
			st.mu.Lock()
			defer st.mu.Unlock()
			if ev.Path == "/oauth/userinfo" {
				st.glHits++
				if st.gl != nil {
					return st.gl
				}
				return &vfIdPReply{Status: 401, Body: []byte(`{"error":"invalid_token"}`)}
			}
			if ev.Kind == "userinfo" && st.prof != nil {
				st.profHits++
				if st.profHits > st.profSkip {
					st.profFired++
					return st.prof
				}
			}
			return nil
		}
	})
	set := func(f func()) { st.mu.Lock(); f(); st.mu.Unlock() }
	common := []string{"--cookie-refresh=1m", "--pass-access-token=true"}
	px := map[string]*vfProxy{}
	for _, typ := range []string{"keycloak-oidc", "adfs", "gitlab"} {
		for _, store := range []string{"cookie", "redis"} {
			flags := append([]string{"--provider=" + typ}, common...)
			if store == "redis" {
				flags = append(flags, "--session-store-type=redis", "--redis-connection-url="+w.RedisURL())
			}
			p, err := w.NewProxy(flags...)
			if err != nil {
				run.Inconclusive(fmt.Sprintf("c14ot: no %s instance: %v", typ, err))
				return
			}
			px[typ+"/"+store] = p
		}
	}
	stores := func(i int) []string {
		if thorough {
			return []string{"cookie", "redis"}
		}
		return []string{[]string{"cookie", "redis"}[(i+seed)%2]}
	}
	login := func(p *vfProxy, b *vfBrowser, id vfIdentity, adfs bool) (*vfResp, error) {
		l, err := b.StartLogin(p, id, "/")
		if err != nil {
			return nil, err
		}
		if adfs {
			if u, e := url.QueryUnescape(l.State); e == nil {
				l.State = u
			}
		}
		return b.Get(p, l.CallbackTarget(p)), nil
	}
	viol := func(sig, what, typ, flow, kind string, p *vfProxy, steps []string, obs interface{}) {
		run.Violation(sig, fmt.Sprintf("provider type %s, %s flow, the provider's further call answered with %s: %s", typ, flow, kind, what),
			c14otWitness{Type: typ, Flags: p.Flags, Flow: flow, Kind: kind, Steps: steps, Observed: obs})
	}
	verified := true // every claim the proxy looks for is in the ID token: no profile lookup of the generic OIDC code
	seq := 0
	clean := func(typ, store string) {
		seq++
		tag := fmt.Sprintf("clean-%d", seq)
		set(func() {
			st.jwtAT, st.atFault, st.tag, st.prof = typ == "keycloak-oidc", "", tag, nil
			doc, _ := json.Marshal(map[string]interface{}{"nickname": "nick-" + tag, "email": "gitlab-" + tag + "@gitlab.test", "email_verified": true, "groups": []string{"glgroup-" + tag}})
			st.gl = &vfIdPReply{Status: 200, ContentType: "application/json", Body: doc}
		})
		p, b := px[typ+"/"+store], vfNewBrowser("")
		id := vfIdentity{Sub: "ot-" + tag, Email: "ot-" + tag + "@tok.test", Groups: []string{"g1"}, PreferredUsername: "pu-" + tag, EmailVerified: &verified}
		resp, err := login(p, b, id, typ == "adfs")
		ok := err == nil && resp.Code == 302 && c14ObserveBrowser(w, p, b).session()
		run.Count(fmt.Sprintf("c14ot_clean_login_%s=%v", typ, ok), 1)
		if !ok {
			code := 0
			if resp != nil {
				code = resp.Code
			}
			viol("c14:no-clean-login-after-fault", fmt.Sprintf("a clean login on the instance fails (%v, callback status %d)", err, code), typ, "clean", "-", p, nil, nil)
		}
		w.Up.Reset()
	}

	// ---- refresh: the provider's further call is faulted --------------------------------------------------------------
	type rfCase struct {
		typ, kind, store string
		prof             *vfIdPReply
		b                *vfBrowser
		id               vfIdentity
		oldAT            string
		oldEmail         string
		err              error
	}
	var rf []*rfCase
	atKinds := []string{"signed-by-a-foreign-key", "unknown-key-id", "signature-of-another-payload", "expired", "foreign-issuer", "foreign-audience", "roles-of-wrong-json-type", "alg-none", "not-a-jwt", "garbage"}
	for i, k := range atKinds {
		for _, s := range stores(i) {
			rf = append(rf, &rfCase{typ: "keycloak-oidc", kind: k, store: s})
		}
	}
	profKinds := []struct {
		name string
		rep  *vfIdPReply
	}{
		{"http-500", &vfIdPReply{Status: 500, ContentType: "application/json", Body: []byte(`{"error":"server_error"}`)}},
		{"http-401", &vfIdPReply{Status: 401, ContentType: "application/json", Body: []byte(`{"error":"invalid_token"}`)}},
		{"connection-reset", &vfIdPReply{Reset: true}},
		{"not-json", &vfIdPReply{Status: 200, ContentType: "text/html", Body: []byte("<html><body>maintenance</body></html>")}},
		{"truncated-json", &vfIdPReply{Status: 200, ContentType: "application/json", Body: []byte(`{"sub":"profile-x","upn":"someone@adfs.te`)}},
		{"empty-body", &vfIdPReply{Status: 200, ContentType: "application/json", Body: []byte{}}},
	}
	for i, k := range profKinds {
		for _, s := range stores(i + 1) {
			rf = append(rf, &rfCase{typ: "adfs", kind: k.name, store: s, prof: k.rep})
		}
	}
	// stale sessions (global clock mock; nothing else runs)
	clock.Set(time.Now().Add(-10 * time.Minute))
	for i, c := range rf {
		tag := fmt.Sprintf("rf-%d", i)
		set(func() { st.jwtAT, st.atFault, st.tag, st.prof, st.gl = c.typ == "keycloak-oidc", "", tag, nil, nil })
		c.b = vfNewBrowser("")
		c.id = vfIdentity{Sub: "ot-" + tag, Email: "ot-" + tag + "@tok.test", Groups: []string{"g1"}, PreferredUsername: "pu-" + tag, EmailVerified: &verified}
		if c.typ == "adfs" {
			// AD FS: neither the ID token nor the profile document carries an e-mail or a upn, so that every refresh consults the
			// profile URL for the upn claim after the token call
			c.id.Email = ""
			c.id.Profile = map[string]interface{}{"sub": "profile-ot-" + tag, "upn": "upn-" + tag + "@adfs.test"}
		}
		c.oldEmail = c.id.Email
		if c.typ == "adfs" {
			c.oldEmail = "upn-" + tag + "@adfs.test"
		}
		resp, err := login(px[c.typ+"/"+c.store], c.b, c.id, c.typ == "adfs")
		if err == nil && resp.Code != 302 {
			err = fmt.Errorf("callback: status %d: %s", resp.Code, c14otTail(vfErrText(resp.Body), 260))
		}
		c.err = err
		if err != nil {
			evs := w.IdP.Events()
			var tail []string
			for _, e := range evs[len(evs)-min(6, len(evs)):] {
				tail = append(tail, fmt.Sprintf("%s %s -> %d %s", e.Kind, e.Path, e.Status, e.Note))
			}
			c.err = fmt.Errorf("%v; provider calls %v", err, tail)
		}
	}
	clock.Reset()
	for _, c := range rf {
		p := px[c.typ+"/"+c.store]
		flow := "stale"
		if c.err != nil {
			run.Eval("")
			run.Count(fmt.Sprintf("c14ot_no_stale_session_%s", c.typ), 1)
			run.Extra("c14ot_no_stale_session_"+c.typ, c.err.Error())
			continue
		}
		var steps []string
		set(func() {
			st.jwtAT, st.tag, st.rejectedAT = c.typ == "keycloak-oidc", "x", ""
			st.atFault, st.prof, st.profSkip, st.profHits, st.profFired = "", nil, 0, 0, 0
			if c.typ == "keycloak-oidc" {
				st.atFault = c.kind
			} else {
				st.prof, st.profSkip = c.prof, 1 // call #1: the claim lookup of the refreshed tokens; call #2: the upn fallback
			}
		})
		a0, ok0 := w.IdP.RefreshGrants()
		r1 := c.b.Get(p, "/oauth2/userinfo")
		a1, ok1 := w.IdP.RefreshGrants()
		var rejected string
		fired := 0
		set(func() {
			rejected, fired = st.rejectedAT, st.profFired
			st.atFault, st.prof = "", nil
		})
		if c.typ == "keycloak-oidc" && rejected != "" {
			fired = 1
		}
		steps = append(steps, fmt.Sprintf("stale session (10 min old, refresh period 1 min) GET /oauth2/userinfo with the fault armed -> %d; refresh grants seen by the provider %d (%d answered 200), fault fired %d time(s)", r1.Code, a1-a0, ok1-ok0, fired))
		cell := ""
		if fired > 0 && ok1 > ok0 {
			cell = fmt.Sprintf("ptype=%s/flow=stale/call=further/kind=%s/store=%s", c.typ, c.kind, c.store)
		} else {
			run.Count("c14ot_fault_position_not_reached_"+c.typ, 1)
		}
		run.Eval(cell)
		run.Count("c14ot_cases_stale_"+c.typ, 1)
		if r1.Panic != "" {
			viol("c14:panic", "panic "+vfTrunc(r1.Panic, 200), c.typ, flow, c.kind, p, steps, nil)
			continue
		}
		obs := c14ObserveBrowser(w, p, c.b)
		a2, ok2 := w.IdP.RefreshGrants()
		steps = append(steps, fmt.Sprintf("same browser, fault gone: GET /oauth2/userinfo -> %d (e-mail %q), GET /app/x reached the upstream: %v; further refresh grants seen by the provider %d (%d answered 200)", obs.UserinfoCode, obs.Email, obs.UpHit, a2-a1, ok2-ok1))
		detail := map[string]interface{}{"first_request_status": r1.Code, "first_request_session_cookies": c14SessionCookies(r1.SetCookies()), "follow_up": obs, "rejected_access_token": rejected,
			"refresh_grants_during_fault": a1 - a0, "refresh_grants_during_follow_up": a2 - a1}
		if obs.Panic != "" {
			viol("c14:panic", "panic "+vfTrunc(obs.Panic, 200), c.typ, flow, c.kind, p, steps, detail)
			continue
		}
		if cell != "" {
			run.Count("c14ot_must_not_extend", 1)
			switch {
			case obs.session() && a2 == a1:
				viol("c14:ptype-session-extended-by-rejected-refresh", "the provider code rejected the refresh answer, yet the session counts as refreshed: the next request is served without a further refresh attempt", c.typ, flow, c.kind, p, steps, detail)
			case obs.UpHit && rejected != "" && obs.UpAT == rejected:
				viol("c14:ptype-session-carries-rejected-tokens", "the next request forwards the access token of the answer the provider code rejected", c.typ, flow, c.kind, p, steps, detail)
			case obs.UserinfoCode == 200 && obs.Email == "" && c.oldEmail != "":
				viol("c14:ptype-identity-lost-by-faulted-refresh", "the session is still served but its e-mail is now empty", c.typ, flow, c.kind, p, steps, detail)
			}
			if obs.session() {
				run.Count("c14ot_stale_served_from_old_session_"+c.typ, 1)
			} else {
				run.Count("c14ot_stale_refused_"+c.typ, 1)
			}
		}
		w.Up.Reset()
	}
	for _, typ := range []string{"keycloak-oidc", "adfs"} {
		clean(typ, "cookie")
		clean(typ, "redis")
	}

	// ---- gitlab login: the userinfo document ------------------------------------------------------------------------
	type glKind struct {
		name string
		must bool // => no session
		rep  func(tag string) *vfIdPReply
	}
	doc := func(mod func(m map[string]interface{})) func(tag string) *vfIdPReply {
		return func(tag string) *vfIdPReply {
			m := map[string]interface{}{"nickname": "nick-" + tag, "email": "gitlab-" + tag + "@gitlab.test", "email_verified": true, "groups": []string{"glgroup-" + tag}, "sub": "77"}
			mod(m)
			b, _ := json.Marshal(m)
			return &vfIdPReply{Status: 200, ContentType: "application/json", Body: b}
		}
	}
	setf := func(k string, v interface{}) func(tag string) *vfIdPReply {
		return doc(func(m map[string]interface{}) { m[k] = v })
	}
	raw := func(status int, ct, body string) func(tag string) *vfIdPReply {
		return func(string) *vfIdPReply { return &vfIdPReply{Status: status, ContentType: ct, Body: []byte(body)} }
	}
	good := `{"nickname":"nick-raw","email":"gitlab-raw@gitlab.test","email_verified":true,"groups":["glgroup-raw"]}`
	glKinds := []glKind{
		{"email_verified-missing", true, doc(func(m map[string]interface{}) { delete(m, "email_verified") })},
		{"email_verified-null", true, setf("email_verified", nil)},
		{"email_verified-false", true, setf("email_verified", false)},
		{"email_verified-string-true", true, setf("email_verified", "true")},
		{"email_verified-number-1", true, setf("email_verified", 1)},
		{"email_verified-object", true, setf("email_verified", map[string]interface{}{"value": true})},
		{"email_verified-list", true, setf("email_verified", []bool{true})},
		{"email_verified-missing-and-only-an-e-mail", true, raw(200, "application/json", `{"email":"gitlab-partial@gitlab.test"}`)},
		{"email_verified-under-another-name", true, raw(200, "application/json", `{"nickname":"n","email":"gitlab-partial@gitlab.test","emailVerified":true,"verified":true,"groups":["glgroup-partial"]}`)},
		{"email-number", true, setf("email", 12345)},
		{"email-object", true, setf("email", map[string]interface{}{"address": "x@gitlab.test"})},
		{"email-list", true, setf("email", []string{"x@gitlab.test"})},
		{"nickname-number", true, setf("nickname", 7)},
		{"nickname-object", true, setf("nickname", map[string]interface{}{"n": "x"})},
		{"groups-string", true, setf("groups", "glgroup-x")},
		{"groups-object", true, setf("groups", map[string]interface{}{"glgroup-x": true})},
		{"groups-list-of-numbers", true, setf("groups", []int{1, 2})},
		{"empty-object", true, raw(200, "application/json", `{}`)},
		{"json-null", true, raw(200, "application/json", `null`)},
		{"json-list", true, raw(200, "application/json", `[`+good+`]`)},
		{"json-string", true, raw(200, "application/json", `"ok"`)},
		{"empty-body", true, raw(200, "application/json", ``)},
		{"truncated-json", true, raw(200, "application/json", good[:len(good)-30])},
		{"truncated-before-email_verified", true, raw(200, "application/json", `{"nickname":"nick-raw","email":"gitlab-raw@gitlab.test"`)},
		{"not-json", true, raw(200, "text/html", "<html><body>maintenance</body></html>")},
		{"http-500-with-the-ordinary-body", true, raw(500, "application/json", good)},
		{"http-401", true, raw(401, "application/json", `{"error":"invalid_token"}`)},
		{"http-403-with-the-ordinary-body", true, raw(403, "application/json", good)},
		{"http-404", true, raw(404, "text/plain", "not found")},
		{"connection-reset", true, func(string) *vfIdPReply { return &vfIdPReply{Reset: true} }},
		// tolerated: the document says the e-mail is verified; whatever session exists carries an e-mail the provider sent
		{"email-missing", false, doc(func(m map[string]interface{}) { delete(m, "email") })},
		{"nickname-null", false, setf("nickname", nil)},
		{"groups-null", false, setf("groups", nil)},
		{"unknown-extra-fields", false, setf("extra", map[string]interface{}{"a": []int{1}})},
	}
	gi := 0
	for ki, k := range glKinds {
		for _, store := range stores(ki) {
			gi++
			tag := fmt.Sprintf("gl-%d", gi)
			p := px["gitlab/"+store]
			rep := k.rep(tag)
			set(func() { st.jwtAT, st.atFault, st.tag, st.prof, st.gl, st.glHits = false, "", tag, nil, rep, 0 })
			b := vfNewBrowser("")
			id := vfIdentity{Sub: "ot-" + tag, Email: "ot-" + tag + "@tok.test", Groups: []string{"g1"}, PreferredUsername: "pu-" + tag, EmailVerified: &verified}
			resp, err := login(p, b, id, false)
			hits := 0
			set(func() { hits = st.glHits })
			cell := ""
			if err == nil && hits > 0 {
				cell = fmt.Sprintf("ptype=gitlab/flow=login/call=oauth-userinfo/kind=%s/store=%s", k.name, store)
			} else {
				run.Count("c14ot_fault_position_not_reached_gitlab", 1)
			}
			run.Eval(cell)
			run.Count("c14ot_cases_login_gitlab", 1)
			if err != nil {
				run.Extra("c14ot_gitlab_start_failed", err.Error())
				continue
			}
			steps := []string{fmt.Sprintf("login as %s; /oauth/userinfo (called %d time(s)) answered %d %q; callback -> %d", id.Email, hits, rep.Status, vfTrunc(string(rep.Body), 200), resp.Code)}
			if resp.Panic != "" {
				viol("c14:panic", "panic "+vfTrunc(resp.Panic, 200), "gitlab", "login", k.name, p, steps, nil)
				continue
			}
			set(func() { st.gl = nil }) // afterwards the endpoint refuses (nothing can be re-derived from it)
			cookies := c14SessionCookies(resp.SetCookies())
			obs := c14ObserveBrowser(w, p, b)
			steps = append(steps, fmt.Sprintf("follow-up with the browser's cookies: GET /oauth2/userinfo -> %d (e-mail %q, user %q, groups %v), GET /app/x reached the upstream: %v", obs.UserinfoCode, obs.Email, obs.User, obs.Groups, obs.UpHit))
			detail := map[string]interface{}{"callback_status": resp.Code, "session_cookies_set_by_callback": cookies, "follow_up": obs, "userinfo_answer": string(rep.Body)}
			if obs.Panic != "" {
				viol("c14:panic", "panic "+vfTrunc(obs.Panic, 200), "gitlab", "login", k.name, p, steps, detail)
				continue
			}
			if cell != "" && k.must {
				run.Count("c14ot_must_fail_closed", 1)
				if len(cookies) > 0 || obs.session() {
					viol("c14:ptype-session-despite-failed-identity-lookup", fmt.Sprintf("a session exists afterwards (session cookies set by the callback %v; follow-up: userinfo %d as %q, upstream reached %v)", cookies, obs.UserinfoCode, obs.Email, obs.UpHit), "gitlab", "login", k.name, p, steps, detail)
				}
			}
			if cell != "" && !k.must && obs.UserinfoCode == 200 {
				run.Count("c14ot_gitlab_tolerated_sessions", 1)
				if obs.Email != id.Email && obs.Email != "gitlab-"+tag+"@gitlab.test" {
					viol("c14:ptype-identity-not-asserted", fmt.Sprintf("the session's e-mail %q was sent neither in the ID token nor in the userinfo document", obs.Email), "gitlab", "login", k.name, p, steps, detail)
				}
			}
			w.Up.Reset()
		}
	}
	clean("gitlab", "cookie")
	clean("gitlab", "redis")
	if n := run.Counter("c14ot_must_not_extend"); n < 6 {
		run.Inconclusive(fmt.Sprintf("c14ot: only %d refresh cases reached the provider's further call", n))
	}
	if n := run.Counter("c14ot_must_fail_closed"); n < 15 {
		run.Inconclusive(fmt.Sprintf("c14ot: only %d gitlab cases reached /oauth/userinfo", n))
	}
}
