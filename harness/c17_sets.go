//go:build verif

package main

// C17 upstream sets: each is described once (c17Up list) and rendered either as legacy --upstream flags or as an
// alpha-config YAML; the same description feeds the reference router.

import (
	"fmt"
	"os"
	"path/filepath"
	"regexp"
	"sort"
	"strings"
)

type c17Set struct {
	Name     string
	Legacy   bool
	Raw      bool
	PassHost bool // legacy: global flag
	Ups      []*c17Up
	Bases    []string
	Injected []string // header names the configuration injects (C07's business: excluded from the comparison)
	Light    bool     // reduced workload (order-permutation sets)
	Tiny     bool     // only the bases and the slow-exchange cases (short upstream timeout)
	Refresh  bool     // --cookie-refresh=1s: every case logs in on its own, waits past the period and is the refreshing request
	Prefix   string   // --proxy-prefix ("" = default /oauth2)
	PingPath, ReadyPath, PingUA string // --ping-path / --ready-path / --ping-user-agent ("" = defaults /ping, /ready, none)
	Timeout  string   // upstream timeout ("" = default 30s): legacy --upstream-timeout, alpha per-upstream timeout
	ExtraYML string

	Proxy  *vfProxy
	Cookie string
}

var c17Files = map[string]string{
	"plain.txt":   "file-plain-content\n",
	"a b.txt":     "file with a space in its name\n",
	"é.txt":       "file with utf-8 name\n",
	"a+b;c.txt":   "file with plus and semicolon\n",
	"~t@x,y.txt":  "file with tilde at comma\n",
	"sub/x.txt":   "file in a sub directory\n",
	"big.bin":     strings.Repeat("0123456789abcdef", 8192), // 128 KiB
	"A.txt":       "capital A\n",
	"a=b&c.txt":   "equals ampersand\n",
	"100%.txt":    "percent sign\n",
	"q?mark.txt":  "question mark\n",
	"h#ash.txt":   "hash\n",
	// dot-directories and dot-files are ordinary content of a served directory (RFC 8615 /.well-known/ documents, …)
	".well-known/security.txt":         "Contact: mailto:security@example.test\n",
	".well-known/openid-configuration": `{"issuer":"https://files.example.test"}` + "\n",
	".well-known/acme-challenge/tok_-1": "tok_-1.thumbprint\n",
	".hidden.txt":                      "dot file at the top\n",
	"sub/.dot/x.txt":                   "file below a dot directory\n",
	"sub/.dot/.inner":                  "dot file below a dot directory\n",
	"...dots/y.txt":                    "directory named with three dots\n",
	"a..b.txt":                         "dots inside a name\n",
	"sub/[x]{y}^z|.txt":                "brackets braces caret bar\n",
	"sub/-dash_under.tar.gz":           "several dots\n",
}

// c17FileNames: the names of c17Files in a fixed order (map iteration order must not leak into the case list).
func c17FileNames() []string {
	out := make([]string, 0, len(c17Files))
	for n := range c17Files {
		out = append(out, n)
	}
	sort.Strings(out)
	return out
}

// c17EscapeName renders a file name as a request path tail: strict (everything but unreserved octets and '/' is
// percent-encoded) or lenient (only what cannot stand literally in a path segment: space, %, ?, #, [, ], {, }, ^, |, non-ASCII).
func c17EscapeName(name string, strict bool) string {
	var b strings.Builder
	for i := 0; i < len(name); i++ {
		ch := name[i]
		lit := ch == '/' || c17IsUnreserved(ch)
		if !strict && !lit {
			lit = strings.IndexByte("!$&'()*+,;=:@", ch) >= 0
		}
		if lit {
			b.WriteByte(ch)
		} else {
			fmt.Fprintf(&b, "%%%02X", ch)
		}
	}
	return b.String()
}

func c17WriteFiles(w *vfWorld) string {
	dir := filepath.Join(w.Dir, "c17files")
	for name, content := range c17Files {
		p := filepath.Join(dir, filepath.FromSlash(name))
		_ = os.MkdirAll(filepath.Dir(p), 0o755)
		if err := os.WriteFile(p, []byte(content), 0o644); err != nil {
			w.T.Fatalf("c17 file %s: %v", p, err)
		}
	}
	return dir
}

func c17HTTP(id, path, up string) *c17Up {
	return &c17Up{ID: id, Kind: "http", Path: path, UpName: up, PassHost: true}
}
func c17WithURIPath(u *c17Up, p string) *c17Up { u.URIPath = p; return u }

// c17PermSets: the same three overlapping rewrite rules (different rewriteTarget and upstream each) plus two plain
// prefixes, configured in every order of the rules and with the plain upstreams at varying positions. The reference
// outcome does not depend on the configured order.
func c17PermSets() []*c17Set {
	mk := func() map[string]*c17Up {
		return map[string]*c17Up{
			"gen":   c17RW("gen", "^/api/(.*)$", "/gen/$1", "u1"),
			"v2":    c17WithURIPath(c17RW("v2", "^/api/v2/(.*)$", "/v2/$1?ver=2", "u2"), "/backend"),
			"users": c17RW("users", "^/api/v2/users/(.*)$", "/u/$1", "u3"),
			"pfx":   c17HTTP("pfx", "/api/", "u4"),
			"root":  c17HTTP("root", "/", "u0"),
		}
	}
	orders := [][]string{
		{"users", "v2", "gen", "pfx", "root"}, {"users", "root", "gen", "v2", "pfx"}, {"v2", "users", "pfx", "gen", "root"},
		{"root", "v2", "gen", "users", "pfx"}, {"gen", "pfx", "users", "root", "v2"}, {"pfx", "gen", "v2", "root", "users"},
	}
	var out []*c17Set
	for k, o := range orders {
		m := mk()
		st := &c17Set{Name: fmt.Sprintf("alpha-rwperm-%d", k), Light: true,
			Bases: []string{"/api/", "/api/v2/", "/api/v2/users/", "/api/v2/users", "/api/v2", "/api", "/", "/api%2Fv2/", "/apix/", "/api/v2/usersx/"}}
		for _, id := range o {
			st.Ups = append(st.Ups, m[id])
		}
		out = append(out, st)
	}
	return out
}

func c17RW(id, pattern, target, up string) *c17Up {
	return &c17Up{ID: id, Kind: "http", Path: pattern, Rewrite: target, Re: regexp.MustCompile(pattern), UpName: up, PassHost: true}
}

func c17Sets(w *vfWorld) []*c17Set {
	dir := c17WriteFiles(w)
	nohost := func(u *c17Up) *c17Up { u.PassHost = false; return u }
	sets := []*c17Set{
		{Name: "legacy-nested", Legacy: true, PassHost: true, PingPath: "/a/healthz", ReadyPath: "/a/b/rdy",
			Ups:   []*c17Up{c17HTTP("root", "/", "u0"), c17HTTP("a", "/a/", "u1"), c17HTTP("ab", "/a/b/", "u2"), c17HTTP("aba", "/a/b/a/", "u3")},
			Bases: []string{"/", "/a/", "/a/b/", "/a/b/a/", "/a%2Fb/", "/a/b%2Fa/", "/%61/", "/b/", "/a", "/a/b", "/A/", "/a%2f"}},
		{Name: "legacy-siblings-exact-noroot", Legacy: true, PassHost: true,
			Ups:   []*c17Up{c17HTTP("a", "/a/", "u1"), c17HTTP("ab", "/ab/", "u2"), c17HTTP("b-exact", "/b", "u3"), c17HTTP("a-b-exact", "/a/b", "u4"), c17HTTP("bc", "/b/c/", "u5")},
			Bases: []string{"/a/", "/ab/", "/a", "/ab", "/b", "/b/", "/bx", "/a/b", "/a/b/", "/a/bx", "/b/c/", "/b/c", "/c/", "/", "/a%2Fb", "/%62", "/b%2Fc", "/b%2Fc%2F"}},
		{Name: "legacy-static-file-nohost", Legacy: true, PassHost: false,
			Ups:   []*c17Up{{ID: "static", Kind: "static", Path: "/", StaticCode: 202}, {ID: "files", Kind: "file", Path: "/files/", Dir: dir}, c17HTTP("a", "/a/", "u1"),
				{ID: "wk", Kind: "file", Path: "/.well-known/", Dir: filepath.Join(dir, ".well-known"), FileRoot: ".well-known/"}},
			Bases: []string{"/", "/a/", "/files/", "/files", "/x/", "/a", "/.well-known/", "/.well-known"}},
		{Name: "legacy-scrambled-deep-nohost", Legacy: true, PassHost: false,
			Ups:   []*c17Up{c17HTTP("abab", "/a/b/a/b/", "u4"), c17HTTP("root", "/", "u0"), c17HTTP("ab", "/a/b/", "u2"), c17HTTP("aba", "/a/b/a/", "u3"), c17HTTP("a", "/a/", "u1")},
			Bases: []string{"/", "/a/", "/a/b/", "/a/b/a/", "/a/b/a/b/", "/a/b/a/b", "/a/b%2Fa%2Fb/"}},
		{Name: "legacy-exact-with-root", Legacy: true, PassHost: true,
			Ups:   []*c17Up{c17HTTP("b-exact", "/b", "u3"), c17HTTP("root", "/", "u0"), c17HTTP("a-b-exact", "/a/b", "u4"), c17HTTP("a", "/a/", "u1")},
			Bases: []string{"/", "/b", "/b/", "/bx", "/a/b", "/a/b/", "/a/bx", "/a/", "/a", "/%62", "/a%2Fb"}},
		{Name: "legacy-wide", Legacy: true, PassHost: true, PingUA: "kube-probe/1.29",
			Ups: []*c17Up{c17HTTP("aaa", "/a/a/a/", "u7"), c17HTTP("b", "/b/", "u2"), c17HTTP("aa-exact", "/a/a", "u12"), c17HTTP("ab", "/a/b/", "u4"), c17HTTP("root", "/", "u0"), c17HTTP("bb", "/b/b/", "u6"),
				c17HTTP("abb", "/a/b/b/", "u10"), c17HTTP("a", "/a/", "u1"), c17HTTP("baa", "/b/a/a/", "u11"), c17HTTP("aa", "/a/a/", "u3"), c17HTTP("bbb-exact", "/b/b/b", "u13"), c17HTTP("aab", "/a/a/b/", "u8"),
				c17HTTP("ba", "/b/a/", "u5"), c17HTTP("aba", "/a/b/a/", "u9")},
			Bases: []string{"/", "/a/", "/b/", "/a/a/", "/a/b/", "/b/a/", "/b/b/", "/a/a", "/b/b/b", "/b/b/b/", "/a/a/a/", "/b/a/a/"}},
		{Name: "alpha-rewrite", PingPath: "/rw/long/hc", ReadyPath: "/sw/x/rdy", PingUA: "probe/1.0",
			Ups: []*c17Up{c17HTTP("root", "/", "u0"), c17RW("rw", "^/rw/(.*)$", "/t/$1", "u1"), c17RW("rwlong", "^/rw/long/(.*)$", "/long/$1?added=1&k=v%20w", "u2"), c17HTTP("rw-prefix", "/rw/", "u3"),
				c17HTTP("deeper", "/rw/long/deeper/x/", "u4"), c17RW("swap", "^/sw/([^/]+)/([^/]+)$", "/$2/$1", "u5"), c17RW("old", "^/old/v[0-9]+/", "/new/", "u6"),
				c17RW("q", "^/q/([a-z]*)$", "/search?path=$1&fixed=1", "u7"), c17WithURIPath(c17RW("same", "^/same/(.*)$", "/same/$1", "u8"), "/pfx/")},
			Bases: []string{"/rw/", "/rw/long/", "/rw/long/deeper/x/", "/rw", "/sw/", "/sw/a/", "/old/v1/", "/old/v22/", "/old/vx/", "/q/", "/same/", "/", "/rw%2F", "/rwx/", "/rw%2Flong%2F"}},
		{Name: "alpha-raw", Raw: true, PingPath: "/a/b/hc", ReadyPath: "/exact-rdy",
			Ups: []*c17Up{c17HTTP("root", "/", "u0"), nohost(c17HTTP("a", "/a/", "u1")), c17HTTP("ab", "/a/b/", "u2"), c17HTTP("exact", "/exact", "u3"),
				{ID: "st", Kind: "static", Path: "/st/", StaticCode: 418}, c17WithURIPath(c17HTTP("sib", "/ab/", "u4"), "/x/"), c17HTTP("abc", "/a/b/c/", "u5")},
			Bases: []string{"/", "/a/", "/a/b/", "/a%2Fb/", "/a%2fb/", "/%61/", "/exact", "/st/", "/a", "/a/%2F/", "/a/%2E/", "/a/%2e%2e/", "/a%2F", "/a%2f", "/a/b%2F", "/a/b%2Fc", "/a/b%2Fc/", "/a/b%2fc%2F",
				"/ab%2F", "/ab/", "/a%2Fb%2Fc%2F", "/st%2F", "/exact%2F", "/%65xact", "/a/b/c/", "/a/b/c%2F"}},
		{Name: "alpha-raw-rewrite-noroot", Raw: true,
			Ups:   []*c17Up{c17RW("rw", "^/rw/(.*)$", "/t/$1", "u1"), c17RW("rwlong", "^/rw/long/(.*)$", "/long/$1?added=1&k=v%20w", "u2"), nohost(c17HTTP("a", "/a/", "u3"))},
			Bases: []string{"/rw/", "/rw/long/", "/a/", "/a", "/zzz/", "/rw", "/rw%2F", "/a/%2F/", "/a%2F", "/a%2fb/", "/rw%2Flong%2F", "/rw/long%2F"}},
		{Name: "alpha-mixed-inject",
			Ups: []*c17Up{{ID: "docs", Kind: "file", Path: "^/docs/(.*)$", Rewrite: "/$1", Re: regexp.MustCompile("^/docs/(.*)$"), Dir: dir}, {ID: "files", Kind: "file", Path: "/files/", Dir: dir},
				{ID: "ok", Kind: "static", Path: "/ok", StaticCode: 200}, {ID: "st", Kind: "static", Path: "/st/", StaticCode: 418},
				nohost(c17HTTP("a", "/a/", "u1")), c17WithURIPath(c17HTTP("b", "/b/", "u2"), "/base"), c17RW("api", "^/api/(v[0-9]+)/(.*)$", "/$2?version=$1", "u3"),
				{ID: "dotsub", Kind: "file", Path: "/.d/", Dir: filepath.Join(dir, "sub", ".dot"), FileRoot: "sub/.dot/"},
				{ID: "wkrw", Kind: "file", Path: "^/\\.wk/v[0-9]/(.*)$", Rewrite: "/.well-known/$1", Re: regexp.MustCompile("^/\\.wk/v[0-9]/(.*)$"), Dir: dir}},
			Bases:    []string{"/docs/", "/files/", "/ok", "/ok/", "/st/", "/st", "/a/", "/b/", "/api/v1/", "/api/v22/", "/api/vx/", "/", "/a", "/.d/", "/.wk/v1/"},
			Injected: []string{"X-Custom-User", "X-Custom-Email"},
			ExtraYML: "injectRequestHeaders:\n- name: X-Custom-User\n  values:\n  - claim: user\n- name: X-Custom-Email\n  values:\n  - claim: email\n"},
	}
	sets = append(sets, c17PermSets()...)
	// several upstreams on ONE backend (same scheme+host+port), differing in passHostHeader — both assignments
	for k := 0; k < 2; k++ {
		ph := func(u *c17Up, v bool) *c17Up { u.PassHost = (v == (k == 0)); return u }
		sets = append(sets, &c17Set{Name: fmt.Sprintf("alpha-shared-backend-%d", k), Light: true,
			Ups: []*c17Up{ph(c17HTTP("root", "/", "u1"), true), ph(c17HTTP("a", "/a/", "u1"), false), ph(c17HTTP("ab", "/a/b/", "u1"), true), ph(c17HTTP("c", "/c/", "u1"), false),
				ph(c17HTTP("c-exact", "/c", "u1"), true), ph(c17RW("rw", "^/rw/(.*)$", "/t/$1", "u1"), false), ph(c17RW("rwlong", "^/rw/long/(.*)$", "/long/$1", "u1"), true), ph(c17HTTP("other", "/o/", "u2"), false)},
			Bases: []string{"/", "/a/", "/a/b/", "/c/", "/c", "/rw/", "/rw/long/", "/o/", "/a%2Fb/"}})
	}
	// siblings of the proxy prefix: paths that merely START with its characters belong to the upstreams
	for _, pp := range []string{"", "/auth"} {
		x := "/oauth2"
		name := "legacy-prefix-siblings"
		if pp != "" {
			x, name = pp, "legacy-prefix-siblings-custom"
		}
		sets = append(sets, &c17Set{Name: name, Legacy: true, PassHost: true, Light: true, Prefix: pp,
			Ups:   []*c17Up{c17HTTP("root", "/", "u0"), c17HTTP("admin", x+"-admin/", "u1"), c17HTTP("json-exact", x+".json", "u2"), c17HTTP("dot-dir", x+".d/", "u3")},
			Bases: []string{x + "-admin/", x + "-admin", x + ".json", x + "x", x + "x/", x + "_/", x + "callback", x + "%2Fx", x + "~/", x + ".d/", x + "-", x + "%2D/", x[:len(x)-1] + "/", "/"}})
	}
	// session refresh on the judged request (documented addition: the proxy's own session cookie; nothing else)
	sets = append(sets, &c17Set{Name: "legacy-cookie-refresh-1s", Legacy: true, PassHost: true, Tiny: true, Refresh: true,
		Ups: []*c17Up{c17HTTP("root", "/", "u14"), c17HTTP("a", "/a/", "u15")}, Bases: []string{"/", "/a/"}})
	// short upstream timeout (1s): exchanges that START in time but last longer must still be relayed completely
	sets = append(sets,
		&c17Set{Name: "legacy-timeout-1s", Legacy: true, PassHost: true, Tiny: true, Timeout: "1s",
			Ups: []*c17Up{c17HTTP("root", "/", "u14"), c17HTTP("a", "/a/", "u15")}, Bases: []string{"/", "/a/"}},
		&c17Set{Name: "alpha-timeout-1s", Tiny: true, Timeout: "1s",
			Ups: []*c17Up{c17HTTP("root", "/", "u14"), nohost(c17HTTP("a", "/a/", "u15")), c17RW("rw", "^/rw/(.*)$", "/t/$1", "u15")}, Bases: []string{"/", "/a/", "/rw/"}})
	for _, s := range sets {
		if s.Legacy {
			s.Injected = []string{"X-Forwarded-User", "X-Forwarded-Email", "X-Forwarded-Groups", "X-Forwarded-Preferred-Username"}
			for _, u := range s.Ups {
				u.PassHost = s.PassHost
			}
		}
		// rig sanity: two rewrite patterns of equal length would make "longest pattern" ambiguous
		seen := map[int]string{}
		for _, u := range s.Ups {
			if u.Rewrite != "" {
				if o, dup := seen[len(u.Path)]; dup {
					w.T.Fatalf("c17 set %s: rewrite patterns %q and %q have equal length", s.Name, o, u.Path)
				}
				seen[len(u.Path)] = u.Path
			}
		}
	}
	return sets
}

func c17YAMLStr(s string) string {
	return "'" + strings.ReplaceAll(strings.ReplaceAll(s, "'", "''"), "$", "$$") + "'"
}

func (s *c17Set) healthFlags() []string {
	var f []string
	if s.PingPath != "" {
		f = append(f, "--ping-path="+s.PingPath)
	}
	if s.ReadyPath != "" {
		f = append(f, "--ready-path="+s.ReadyPath)
	}
	if s.PingUA != "" {
		f = append(f, "--ping-user-agent="+s.PingUA)
	}
	return f
}

func (s *c17Set) build(w *vfWorld) error {
	var err error
	if s.Legacy {
		flags := []string{fmt.Sprintf("--pass-host-header=%v", s.PassHost)}
		if s.Timeout != "" {
			flags = append(flags, "--upstream-timeout="+s.Timeout)
		}
		if s.Prefix != "" {
			flags = append(flags, "--proxy-prefix="+s.Prefix)
		}
		if s.Refresh {
			flags = append(flags, "--cookie-refresh=1s", "--cookie-expire=1h")
		}
		flags = append(flags, s.healthFlags()...)
		for _, u := range s.Ups {
			switch u.Kind {
			case "http":
				flags = append(flags, "--upstream="+w.Upstream(u.UpName).URL()+u.Path)
			case "static":
				flags = append(flags, fmt.Sprintf("--upstream=static://%d", u.StaticCode))
			case "file":
				flags = append(flags, "--upstream=file://"+u.Dir+"#"+u.Path)
			}
		}
		s.Proxy, err = w.NewProxy(flags...)
	} else {
		var y strings.Builder
		y.WriteString("upstreamConfig:\n")
		if s.Raw {
			y.WriteString("  proxyRawPath: true\n")
		}
		y.WriteString("  upstreams:\n")
		for _, u := range s.Ups {
			fmt.Fprintf(&y, "  - id: %s\n    path: %s\n", u.ID, c17YAMLStr(u.Path))
			if u.Rewrite != "" {
				fmt.Fprintf(&y, "    rewriteTarget: %s\n", c17YAMLStr(u.Rewrite))
			}
			switch u.Kind {
			case "http":
				fmt.Fprintf(&y, "    uri: %s%s\n", w.Upstream(u.UpName).URL(), u.URIPath)
				if !u.PassHost {
					y.WriteString("    passHostHeader: false\n")
				}
				if s.Timeout != "" {
					fmt.Fprintf(&y, "    timeout: %s\n", s.Timeout)
				}
			case "static":
				fmt.Fprintf(&y, "    static: true\n    staticCode: %d\n", u.StaticCode)
			case "file":
				fmt.Fprintf(&y, "    uri: file://%s\n", u.Dir)
			}
		}
		s.Proxy, err = w.NewProxyRaw(w.AlphaYAML(y.String(), s.ExtraYML), append(append([]string{}, w.AlphaBaseFlags()...), s.healthFlags()...))
	}
	if err != nil {
		return fmt.Errorf("set %s: %w", s.Name, err)
	}
	b := vfNewBrowser("")
	if _, _, err := b.Login(s.Proxy, vfStdIdentity, "/"); err != nil {
		return fmt.Errorf("set %s: login: %w", s.Name, err)
	}
	s.Cookie = vfCookieHeader(b.Jar.For("proxy.test", "/", false))
	if s.Cookie == "" {
		return fmt.Errorf("set %s: no session cookie after login", s.Name)
	}
	return nil
}
