//go:build verif

package main

// rig_redis: RedisFront — a RESP2 TCP proxy between go-redis (inside the proxy under test) and an in-process
// miniredis. One listening port per proxy instance. It records every command, can inject a fault at any command
// (error before effect, effect then lost reply, effect then error, corrupted / truncated / nil bulk, stall, down),
// and can gate commands for the C12 scheduler. Every command is executed against miniredis under ONE mutex of
// the hub, and the "decide" callback runs under that same mutex (see DESIGN.md C12: avoids a TOCTOU in the rig).

import (
	"bufio"
	"fmt"
	"io"
	"net"
	"strconv"
	"strings"
	"sync"
	"time"

	"github.com/alicebob/miniredis/v2"
)

type vfRedisCmd struct {
	Seq   int
	Inst  int
	Op    string // GET SET DEL OBTAIN RELEASE PING EXISTS or "" for connection set-up / unclassified commands
	Verb  string
	Key   string
	Args  []string
	Reply string // first line of the reply that was sent to the client ("" when the connection was dropped)
	Fault string
}

type vfRedisFault struct {
	Kind  string        // err-before | effect-drop | effect-err | corrupt | truncate | nil | stall | drop-before
	N     int           // corrupt: byte offset; truncate: new length
	Stall time.Duration // stall
}

type vfRedisDecision struct {
	Gate  bool
	Fault *vfRedisFault
}

type vfRedisHub struct {
	MR *miniredis.Miniredis

	mu     sync.Mutex // serialises every command against miniredis and guards everything below
	seq    int
	log    []*vfRedisCmd
	decide func(c *vfRedisCmd) vfRedisDecision
	gate   func(c *vfRedisCmd)
	fronts []*vfRedisFront
	down   bool
}

func vfNewRedisHub(mr *miniredis.Miniredis) *vfRedisHub { return &vfRedisHub{MR: mr} }

// SetHooks installs the callbacks: decide runs under the hub mutex right before a command would execute;
// gate runs without the mutex when decide asked for it and blocks until the scheduler lets the command go.
func (h *vfRedisHub) SetHooks(decide func(c *vfRedisCmd) vfRedisDecision, gate func(c *vfRedisCmd)) {
	h.mu.Lock()
	h.decide, h.gate = decide, gate
	h.mu.Unlock()
}

// SetDown makes every front refuse service (connections are closed on the next command) until cleared.
func (h *vfRedisHub) SetDown(d bool) { h.mu.Lock(); h.down = d; h.mu.Unlock() }

func (h *vfRedisHub) Log() []vfRedisCmd {
	h.mu.Lock()
	defer h.mu.Unlock()
	out := make([]vfRedisCmd, len(h.log))
	for i, c := range h.log {
		out[i] = *c
	}
	return out
}

func (h *vfRedisHub) ResetLog() { h.mu.Lock(); h.log = nil; h.seq = 0; h.mu.Unlock() }

// Ops returns the classified operations (Op != "") recorded so far.
func (h *vfRedisHub) Ops() []vfRedisCmd {
	var out []vfRedisCmd
	for _, c := range h.Log() {
		if c.Op != "" {
			out = append(out, c)
		}
	}
	return out
}

func (h *vfRedisHub) setReply(c *vfRedisCmd, r string) { h.mu.Lock(); c.Reply = r; h.mu.Unlock() }

// WithStore runs f under the hub mutex (consistent view of miniredis between commands).
func (h *vfRedisHub) WithStore(f func(mr *miniredis.Miniredis)) { h.mu.Lock(); defer h.mu.Unlock(); f(h.MR) }

func (h *vfRedisHub) Close() {
	h.mu.Lock()
	fs := h.fronts
	h.fronts = nil
	h.mu.Unlock()
	for _, f := range fs {
		f.close()
	}
}

type vfRedisFront struct {
	Hub  *vfRedisHub
	Inst int
	ln   net.Listener
	mu   sync.Mutex
	cs   map[net.Conn]bool
	// resp2Only: HELLO is refused so that go-redis stays on RESP2 (the cluster and sentinel client builders of
	// oauth2-proxy ignore the protocol=2 parameter of the connection URL); set by ClusterFlags / SentinelFlags
	resp2Only bool
	sentinel  *vfSentinel
}

func (h *vfRedisHub) Front(inst int) *vfRedisFront {
	ln, err := net.Listen("tcp", "127.0.0.1:0")
	if err != nil {
		panic(err)
	}
	f := &vfRedisFront{Hub: h, Inst: inst, ln: ln, cs: map[net.Conn]bool{}}
	h.mu.Lock()
	h.fronts = append(h.fronts, f)
	h.mu.Unlock()
	go func() {
		for {
			c, err := ln.Accept()
			if err != nil {
				return
			}
			f.mu.Lock()
			f.cs[c] = true
			f.mu.Unlock()
			go f.handle(c)
		}
	}()
	return f
}

func (f *vfRedisFront) Addr() string { return f.ln.Addr().String() }

// URL for --redis-connection-url; params e.g. "read_timeout=200ms&max_retries=0".
func (f *vfRedisFront) URL(params string) string {
	u := "redis://" + f.Addr() + "/0?protocol=2"
	if params != "" {
		u += "&" + params
	}
	return u
}

func (f *vfRedisFront) close() {
	_ = f.ln.Close()
	f.mu.Lock()
	// the fake sentinel stays up until the process ends: the failover clients of abandoned instances keep their
	// subscription open and would re-dial in a loop otherwise
	for c := range f.cs {
		_ = c.Close()
	}
	f.mu.Unlock()
}

// DropConnections closes the client connections of this front (go-redis will redial).
func (f *vfRedisFront) DropConnections() {
	f.mu.Lock()
	for c := range f.cs {
		_ = c.Close()
	}
	f.cs = map[net.Conn]bool{}
	f.mu.Unlock()
}

func vfRespReadCmd(br *bufio.Reader) ([]string, []byte, error) {
	line, err := br.ReadBytes('\n')
	if err != nil {
		return nil, nil, err
	}
	raw := append([]byte{}, line...)
	if len(line) == 0 || line[0] != '*' {
		return nil, nil, fmt.Errorf("not an array: %q", line)
	}
	n, _ := strconv.Atoi(strings.TrimSpace(string(line[1:])))
	args := make([]string, 0, n)
	for i := 0; i < n; i++ {
		l2, err := br.ReadBytes('\n')
		if err != nil {
			return nil, nil, err
		}
		raw = append(raw, l2...)
		ln, _ := strconv.Atoi(strings.TrimSpace(string(l2[1:])))
		buf := make([]byte, ln+2)
		if _, err := io.ReadFull(br, buf); err != nil {
			return nil, nil, err
		}
		raw = append(raw, buf...)
		args = append(args, string(buf[:ln]))
	}
	return args, raw, nil
}

func vfRespReadReply(br *bufio.Reader) ([]byte, error) {
	line, err := br.ReadBytes('\n')
	if err != nil {
		return nil, err
	}
	raw := append([]byte{}, line...)
	switch line[0] {
	case '+', '-', ':':
		return raw, nil
	case '$':
		n, _ := strconv.Atoi(strings.TrimSpace(string(line[1:])))
		if n < 0 {
			return raw, nil
		}
		buf := make([]byte, n+2)
		if _, err := io.ReadFull(br, buf); err != nil {
			return nil, err
		}
		return append(raw, buf...), nil
	case '*':
		n, _ := strconv.Atoi(strings.TrimSpace(string(line[1:])))
		for i := 0; i < n; i++ {
			sub, err := vfRespReadReply(br)
			if err != nil {
				return nil, err
			}
			raw = append(raw, sub...)
		}
		return raw, nil
	}
	return nil, fmt.Errorf("bad reply %q", line)
}

func vfRedisClassify(args []string) (op, key string) {
	if len(args) == 0 {
		return "", ""
	}
	verb := strings.ToUpper(args[0])
	if len(args) > 1 {
		key = args[1]
	}
	switch verb {
	case "GET", "SET", "DEL", "EXISTS":
		return verb, key
	case "PING":
		return "PING", ""
	case "EVALSHA", "EVAL":
		// redislock: obtain = script numkeys key value tokenLen ttl (7 args); release = script numkeys key value (5 args); refresh 6
		if len(args) >= 4 {
			key = args[3]
		}
		switch len(args) {
		case 7:
			return "OBTAIN", key
		case 5:
			return "RELEASE", key
		case 6:
			return "LOCKREFRESH", key
		}
	}
	return "", key
}

func vfBulk(b []byte) []byte { return append([]byte(fmt.Sprintf("$%d\r\n", len(b))), append(b, '\r', '\n')...) }

// parseBulk returns the payload of a bulk reply, ok=false if rep is not a non-nil bulk.
func vfParseBulk(rep []byte) ([]byte, bool) {
	if len(rep) == 0 || rep[0] != '$' {
		return nil, false
	}
	k := strings.Index(string(rep), "\r\n")
	n, _ := strconv.Atoi(string(rep[1:k]))
	if n < 0 {
		return nil, false
	}
	return rep[k+2 : k+2+n], true
}

func (f *vfRedisFront) handle(c net.Conn) {
	h := f.Hub
	defer func() {
		_ = c.Close()
		f.mu.Lock()
		delete(f.cs, c)
		f.mu.Unlock()
	}()
	up, err := net.Dial("tcp", h.MR.Addr())
	if err != nil {
		return
	}
	defer up.Close()
	cbr, ubr := bufio.NewReader(c), bufio.NewReader(up)
	continuation := false // EVAL following a NOSCRIPT reply: same logical operation as the EVALSHA before it
	for {
		args, raw, err := vfRespReadCmd(cbr)
		if err != nil {
			return
		}
		if len(args) > 0 {
			// topology / handshake commands answered by the front itself: never logged, never faulted
			switch verb := strings.ToUpper(args[0]); {
			case verb == "HELLO" && f.isResp2Only():
				if _, err := c.Write([]byte("-ERR unknown command 'hello'\r\n")); err != nil {
					return
				}
				continue
			case verb == "CLUSTER" && len(args) > 1 && strings.EqualFold(args[1], "SLOTS"):
				if _, err := c.Write(f.clusterSlots()); err != nil {
					return
				}
				continue
			}
		}
		op, key := vfRedisClassify(args)
		targs := make([]string, len(args))
		for i, a := range args {
			targs[i] = vfTrunc(a, 48)
		}
		cmd := &vfRedisCmd{Inst: f.Inst, Op: op, Verb: strings.ToUpper(args[0]), Key: key, Args: targs}
		h.mu.Lock()
		if h.down {
			h.seq++
			cmd.Seq, cmd.Fault = h.seq, "down"
			h.log = append(h.log, cmd)
			h.mu.Unlock()
			return
		}
		var dec vfRedisDecision
		if continuation {
			cmd.Op = ""
			continuation = false
		} else if h.decide != nil {
			dec = h.decide(cmd)
		}
		if dec.Gate && h.gate != nil {
			g := h.gate
			h.mu.Unlock()
			g(cmd)
			h.mu.Lock()
		}
		h.seq++
		cmd.Seq = h.seq
		h.log = append(h.log, cmd)
		flt := dec.Fault
		if flt != nil {
			cmd.Fault = flt.Kind
			switch flt.Kind {
			case "err-before":
				h.mu.Unlock()
				h.setReply(cmd, "-ERR injected failure")
				if _, err := c.Write([]byte("-ERR injected failure\r\n")); err != nil {
					return
				}
				continue
			case "drop-before":
				h.mu.Unlock()
				return
			case "nil":
				h.mu.Unlock()
				h.setReply(cmd, "$-1")
				if _, err := c.Write([]byte("$-1\r\n")); err != nil {
					return
				}
				continue
			}
		}
		if _, err := up.Write(raw); err != nil {
			h.mu.Unlock()
			return
		}
		rep, err := vfRespReadReply(ubr)
		if err != nil {
			h.mu.Unlock()
			return
		}
		h.mu.Unlock()
		if strings.HasPrefix(string(rep), "-NOSCRIPT") {
			continuation = true
		}
		if flt != nil {
			switch flt.Kind {
			case "effect-drop":
				return
			case "effect-err":
				rep = []byte("-ERR injected failure after effect\r\n")
			case "corrupt":
				if b, ok := vfParseBulk(rep); ok && len(b) > 0 {
					nb := append([]byte{}, b...)
					nb[flt.N%len(nb)] ^= 0x41
					rep = vfBulk(nb)
				}
			case "truncate":
				if b, ok := vfParseBulk(rep); ok {
					n := flt.N
					if n < 0 {
						n = len(b) + n
					}
					if n < 0 {
						n = 0
					}
					if n < len(b) {
						rep = vfBulk(append([]byte{}, b[:n]...))
					}
				}
			case "stall":
				time.Sleep(flt.Stall)
				// Did the client give up meanwhile? It closes the connection when its read timeout fires. On a starved box the
				// timeout may fire late (or not before the reply is there): then the stalled command was simply answered
				// late, with intact data, and is not a failed operation. Marked so that oracles can tell the two apart.
				_ = c.SetReadDeadline(time.Now().Add(2 * time.Millisecond))
				_, perr := cbr.Peek(1)
				_ = c.SetReadDeadline(time.Time{})
				if perr != nil {
					if ne, ok := perr.(net.Error); !ok || !ne.Timeout() {
						return // client gone: reply never delivered
					}
				}
				h.mu.Lock()
				cmd.Fault = "stall-delivered"
				h.mu.Unlock()
			}
		}
		h.setReply(cmd, vfTrunc(strings.SplitN(string(rep), "\r\n", 2)[0], 40))
		if _, err := c.Write(rep); err != nil {
			return
		}
	}
}

// ---------------------------------------------------------------------------------------------------------------
// Cluster and Sentinel topologies: oauth2-proxy builds a different go-redis client (and, for the cluster, a different
// wrapper type: clusterClient) for --redis-use-cluster / --redis-use-sentinel. The front poses as a one-node cluster
// (CLUSTER SLOTS names the front itself for all 16384 slots) or as the master a fake sentinel points to, so that every
// session command still crosses the front and can be recorded, faulted and gated.

func (f *vfRedisFront) isResp2Only() bool { f.mu.Lock(); defer f.mu.Unlock(); return f.resp2Only }

func (f *vfRedisFront) clusterSlots() []byte {
	host, port, _ := net.SplitHostPort(f.Addr())
	id := fmt.Sprintf("%040d", f.Inst)
	return []byte(fmt.Sprintf("*1\r\n*3\r\n:0\r\n:16383\r\n*3\r\n$%d\r\n%s\r\n:%s\r\n$%d\r\n%s\r\n", len(host), host, port, len(id), id))
}

// ClusterFlags: flags that make an instance use the Redis Cluster client against this front.
func (f *vfRedisFront) ClusterFlags() []string {
	f.mu.Lock()
	f.resp2Only = true
	f.mu.Unlock()
	return []string{"--redis-use-cluster=true", "--redis-cluster-connection-urls=redis://" + f.Addr()}
}

// SentinelFlags: flags that make an instance use the Sentinel (failover) client; a fake sentinel names this front as master.
func (f *vfRedisFront) SentinelFlags() []string {
	f.mu.Lock()
	f.resp2Only = true
	if f.sentinel == nil {
		f.sentinel = vfNewSentinel("vfmaster", f.Addr())
	}
	s := f.sentinel
	f.mu.Unlock()
	return []string{"--redis-use-sentinel=true", "--redis-sentinel-master-name=vfmaster", "--redis-sentinel-connection-urls=redis://" + s.Addr()}
}

// ModeFlags: "standalone" (connection URL with params), "cluster" or "sentinel".
func (f *vfRedisFront) ModeFlags(mode, params string) []string {
	switch mode {
	case "cluster":
		return f.ClusterFlags()
	case "sentinel":
		return f.SentinelFlags()
	}
	return []string{"--redis-connection-url=" + f.URL(params)}
}

// vfSentinel: the part of the Sentinel protocol go-redis' failover client uses (get-master-addr-by-name, sentinels,
// SUBSCRIBE +switch-master with keep-alive PINGs). The master never changes.
type vfSentinel struct {
	name, target string
	ln           net.Listener
	mu           sync.Mutex
	cs           map[net.Conn]bool
	queries      int
}

func vfNewSentinel(name, target string) *vfSentinel {
	ln, err := net.Listen("tcp", "127.0.0.1:0")
	if err != nil {
		panic(err)
	}
	s := &vfSentinel{name: name, target: target, ln: ln, cs: map[net.Conn]bool{}}
	go func() {
		for {
			c, err := ln.Accept()
			if err != nil {
				return
			}
			s.mu.Lock()
			s.cs[c] = true
			s.mu.Unlock()
			go s.handle(c)
		}
	}()
	return s
}

func (s *vfSentinel) Addr() string { return s.ln.Addr().String() }
func (s *vfSentinel) Queries() int { s.mu.Lock(); defer s.mu.Unlock(); return s.queries }
func (s *vfSentinel) Close() {
	_ = s.ln.Close()
	s.mu.Lock()
	for c := range s.cs {
		_ = c.Close()
	}
	s.mu.Unlock()
}

func (s *vfSentinel) handle(c net.Conn) {
	defer func() {
		_ = c.Close()
		s.mu.Lock()
		delete(s.cs, c)
		s.mu.Unlock()
	}()
	br := bufio.NewReader(c)
	subscribed := 0
	bulk := func(v string) string { return fmt.Sprintf("$%d\r\n%s\r\n", len(v), v) }
	for {
		args, _, err := vfRespReadCmd(br)
		if err != nil || len(args) == 0 {
			return
		}
		var rep string
		switch strings.ToUpper(args[0]) {
		case "HELLO":
			rep = "-ERR unknown command 'hello'\r\n"
		case "CLIENT", "AUTH":
			rep = "+OK\r\n"
		case "PING":
			if subscribed > 0 {
				rep = "*2\r\n" + bulk("pong") + bulk("")
			} else {
				rep = "+PONG\r\n"
			}
		case "SUBSCRIBE":
			for _, ch := range args[1:] {
				subscribed++
				rep += "*3\r\n" + bulk("subscribe") + bulk(ch) + fmt.Sprintf(":%d\r\n", subscribed)
			}
		case "SENTINEL":
			sub := ""
			if len(args) > 1 {
				sub = strings.ToLower(args[1])
			}
			switch sub {
			case "get-master-addr-by-name":
				if len(args) > 2 && args[2] == s.name {
					host, port, _ := net.SplitHostPort(s.target)
					rep = "*2\r\n" + bulk(host) + bulk(port)
					s.mu.Lock()
					s.queries++
					s.mu.Unlock()
				} else {
					rep = "*-1\r\n"
				}
			default: // sentinels, replicas, masters: nothing else to report
				rep = "*0\r\n"
			}
		default:
			rep = "-ERR unknown command\r\n"
		}
		if _, err := c.Write([]byte(rep)); err != nil {
			return
		}
	}
}
