//go:build verif

package main

// C18 — Every cookie the proxy sets carries the configured protection attributes.
//
// A cookie-attribute MONITOR (c18CheckLine) reads every raw Set-Cookie line of every response produced by a scenario
// library (start, failed and successful callbacks, split sessions, refresh re-issue, load-error clearing,
// authorisation-failure clearing, sign-out, htpasswd form login, per-request CSRF, Redis ticket) under a sweep of
// cookie options x request hosts, and compares it attribute by attribute with the configuration:
//   Secure present <=> --cookie-secure; HttpOnly present <=> --cookie-httponly; SameSite=Lax|Strict|None <=> --cookie-samesite
//   (absent for ""); Path == --cookie-path; whole line <= 4096 bytes;
//   Domain == the LONGEST configured --cookie-domain that is a suffix of the request host (port ignored: the reading in
//   force since fix 09579bc, F8), else the SHORTEST configured one, absent when none is configured (a leading dot is not
//   serialised by net/http); request host = Host, or X-Forwarded-Host in reverse-proxy mode;
//   Max-Age: session / split part / ticket == --cookie-expire, CSRF == --cookie-csrf-expire, deletions <= 0 (or Expires in the past);
//   a deletion names a cookie this client holds with the SAME (name, path, domain) — or one the request presented — and
//   after a response that deletes cookies of a family nothing of that family is left in the client.
// The reference is written from the property statement and docs/configuration (cookie options); none of the code's own
// helpers (GetCookieDomain, MakeCookieFromOptions, splitCookieName ...) is called.

import (
	"crypto/sha1"
	"encoding/base64"
	"fmt"
	"math/rand"
	"net/http"
	"net/http/httptest"
	"net/url"
	"sort"
	"strconv"
	"strings"
	"sync/atomic"
	"testing"
	"time"

	c18sess "github.com/oauth2-proxy/oauth2-proxy/v7/pkg/apis/sessions"
)

// ---------------------------------------------------------------------------------------------------------
// configuration space

type c18Cfg struct {
	ID             int
	Secure         bool
	HTTPOnly       bool
	SameSite       string
	Path           string
	DomainSet      string
	Domains        []string // in command-line order (deliberately not sorted)
	Name           string
	NameClass      string
	Store          string
	CSRFPerRequest bool
	ReverseProxy   bool
	CSRFExpire     time.Duration
	Expire         time.Duration
	SkipButton     bool
	HTPasswd       bool
	Redirect       string            // --redirect-url mode: "" (derived from the request) | host:<name> | relative
	Raw            map[string]string // flag name -> value text exactly as the operator spelt it (spelling sweep); the fields above hold what it means
	RawDomains     []string          // --cookie-domain values as spelt (nil: Domains)
	Spelling       string
	Hosts          []c18Host // extra sweeps: the request hosts to use (nil: c18Hosts)

	Prefix string // proxy prefix (under the cookie path, so that a browser would return the cookies to it)
	Flags  []string
	P, P2  *vfProxy
}

var c18DomainSets = []struct {
	Name    string
	Domains []string
}{
	{"none", nil},
	{"one", []string{"example.com"}},
	{"one-dotted", []string{".example.com"}},
	{"two-nested", []string{"example.com", "a.example.com"}},
	{"three-nested", []string{"a.example.com", "example.com", "b.a.example.com"}},
	{"three-nested-dotted", []string{"example.com", ".b.a.example.com", ".a.example.com"}},
}

var c18SameSites = []string{"", "lax", "strict", "none"}
var c18Paths = []string{"/", "/app/"}
var c18NameClasses = []string{"short", "100", "250"}
var c18Stores = []string{"cookie", "redis"}

func c18Name(class string, k int) string {
	switch class {
	case "100":
		return "s100_" + strings.Repeat("abcdefghij", 10)[:95]
	case "250":
		return "s250_" + strings.Repeat("klmnopqrst", 25)[:245]
	}
	// names with the RFC 6265bis prefixes are ordinary names to the proxy: the configured attributes apply unchanged (round 9)
	return []string{"_oauth2_proxy", "my+cookie", "sid", "__Host-sess", "__Secure-sid"}[k%5]
}

// factor levels, in this order: secure, httponly, samesite, path, domains, name, store, per-request, reverse-proxy, csrf-expire, expire, skip-button,
// duplicate-domain (the same --cookie-domain listed twice: validation accepts it, the configured list is a SET for the rule)
// redirect-url (derived from the request / explicit host a.example.com / sibling auth.example.com under a shared configured domain /
// host matching no configured domain / relative): the cookie Domain follows the REQUEST host whatever the redirect URL says
var c18Levels = []int{2, 2, 4, 2, 6, 3, 2, 2, 2, 2, 2, 2, 2, 5}

var c18Redirects = []string{"", "host:a.example.com", "host:auth.example.com", "host:login.other.test:8443", "relative"}

func c18FromVector(id int, v []int) *c18Cfg {
	c := &c18Cfg{ID: id, Secure: v[0] == 1, HTTPOnly: v[1] == 0, SameSite: c18SameSites[v[2]], Path: c18Paths[v[3]], DomainSet: c18DomainSets[v[4]].Name,
		Domains: c18DomainSets[v[4]].Domains, NameClass: c18NameClasses[v[5]], Store: c18Stores[v[6]], CSRFPerRequest: v[7] == 1, ReverseProxy: v[8] == 1,
		CSRFExpire: []time.Duration{15 * time.Minute, 2 * time.Minute}[v[9]], Expire: []time.Duration{168 * time.Hour, time.Hour}[v[10]], SkipButton: v[11] == 1}
	if len(v) > 12 && v[12] == 1 && len(c.Domains) > 0 {
		// repeat the shortest or the longest configured domain, in front or at the end of the list
		pick := c.Domains[0]
		for _, d := range c.Domains {
			if (id%2 == 0 && len(d) < len(pick)) || (id%2 == 1 && len(d) > len(pick)) {
				pick = d
			}
		}
		if id%4 >= 2 {
			c.Domains = append([]string{pick}, c.Domains...)
		} else {
			c.Domains = append(append([]string{}, c.Domains...), pick)
		}
		if id%8 >= 4 {
			c.Domains = append(c.Domains, pick) // listed three times
		}
		c.DomainSet += "+duplicate"
	}
	if len(v) > 13 {
		c.Redirect = c18Redirects[v[13]]
	}
	c.Name = c18Name(c.NameClass, id)
	c.Prefix = "/oauth2"
	if c.Path != "/" {
		c.Prefix = strings.TrimSuffix(c.Path, "/") + "/oauth2"
	}
	return c
}

// c18Covering: greedy covering array — every combination of levels of every THREE of the first `main` factors and of
// every TWO of all factors occurs in some row. Pure function of the rng.
func c18Covering(rng *rand.Rand, levels []int, main int) [][]int {
	var groups [][]int // factor index tuples to cover
	for i := 0; i < len(levels); i++ {
		for j := i + 1; j < len(levels); j++ {
			groups = append(groups, []int{i, j})
			if j < main {
				for k := j + 1; k < main; k++ {
					groups = append(groups, []int{i, j, k})
				}
			}
		}
	}
	key := func(g int, v []int) string {
		var b strings.Builder
		b.WriteString(strconv.Itoa(g))
		for _, f := range groups[g] {
			b.WriteByte('.')
			b.WriteString(strconv.Itoa(v[f]))
		}
		return b.String()
	}
	type open struct {
		g    int
		vals []int
	}
	unc := map[string]open{}
	for g, fs := range groups {
		var rec func(k int, vals []int)
		rec = func(k int, vals []int) {
			if k == len(fs) {
				v := make([]int, len(levels))
				for x, f := range fs {
					v[f] = vals[x]
				}
				unc[key(g, v)] = open{g, append([]int{}, vals...)}
				return
			}
			for a := 0; a < levels[fs[k]]; a++ {
				rec(k+1, append(vals, a))
			}
		}
		rec(0, nil)
	}
	gain := func(v []int) int {
		n := 0
		for g := range groups {
			if _, ok := unc[key(g, v)]; ok {
				n++
			}
		}
		return n
	}
	var rows [][]int
	for len(unc) > 0 {
		keys := make([]string, 0, len(unc))
		for k := range unc {
			keys = append(keys, k)
		}
		sort.Strings(keys) // map order must not leak into the case list
		seed := unc[keys[rng.Intn(len(keys))]]
		var best []int
		bg := -1
		for try := 0; try < 40; try++ {
			v := make([]int, len(levels))
			for k := range v {
				v[k] = rng.Intn(levels[k])
			}
			for x, f := range groups[seed.g] {
				v[f] = seed.vals[x]
			}
			if g := gain(v); g > bg {
				best, bg = v, g
			}
		}
		rows = append(rows, best)
		for g := range groups {
			delete(unc, key(g, best))
		}
	}
	return rows
}

func (c *c18Cfg) build(w *vfWorld, htpasswd string, withP2 bool) error {
	f := []string{
		"--cookie-secure=" + strconv.FormatBool(c.Secure), "--cookie-httponly=" + strconv.FormatBool(c.HTTPOnly), "--cookie-samesite=" + c.SameSite,
		"--cookie-path=" + c.Path, "--cookie-name=" + c.Name, "--session-store-type=" + c.Store,
		"--cookie-csrf-per-request=" + strconv.FormatBool(c.CSRFPerRequest), "--cookie-csrf-expire=" + c.CSRFExpire.String(), "--cookie-expire=" + c.Expire.String(),
		"--cookie-refresh=1s", "--reverse-proxy=" + strconv.FormatBool(c.ReverseProxy), "--proxy-prefix=" + c.Prefix, "--skip-provider-button=" + strconv.FormatBool(c.SkipButton),
		// refreshed ID tokens carry no nonce (as with most providers); the nonce re-check after a refresh is not this property's concern
		"--insecure-oidc-skip-nonce=true",
	}
	doms := c.Domains
	if c.RawDomains != nil {
		doms = c.RawDomains
	}
	for _, d := range doms {
		f = append(f, "--cookie-domain="+d)
	}
	for i := range f {
		name := f[i][2:strings.IndexByte(f[i], '=')]
		if v, ok := c.Raw[name]; ok {
			f[i] = "--" + name + "=" + v
		}
	}
	switch {
	case strings.HasPrefix(c.Redirect, "host:"):
		scheme := "http"
		if c.Secure {
			scheme = "https"
		}
		f = append(f, "--redirect-url="+scheme+"://"+strings.TrimPrefix(c.Redirect, "host:")+c.Prefix+"/callback")
	case c.Redirect == "relative":
		f = append(f, "--redirect-url="+c.Prefix+"/callback", "--relative-redirect-url=true")
	}
	if c.Store == "redis" {
		f = append(f, "--redis-connection-url="+w.RedisURL())
	}
	if c.HTPasswd {
		f = append(f, "--htpasswd-file="+htpasswd)
	}
	p, err := w.NewProxy(f...)
	if err != nil {
		return err
	}
	c.P, c.Flags = p, p.Flags
	if withP2 {
		// a second instance sharing secret, store and cookie options whose e-mail rule rejects the user: authorisation-failure clearing
		f2 := append([]string{}, f...)
		for i := range f2 {
			if strings.HasPrefix(f2[i], "--htpasswd-file=") {
				f2[i] = "--display-htpasswd-form=false"
			}
		}
		f2 = append(f2, "--email-domain=elsewhere.test")
		if c.P2, err = w.NewProxy(f2...); err != nil {
			return err
		}
	}
	return nil
}

// ---------------------------------------------------------------------------------------------------------
// reference: request host and Domain rule

type c18Host struct {
	Host  string // Host header
	XFH   string // X-Forwarded-Host ("" = none)
	XFP   string // X-Forwarded-Proto ("" = none): the attributes never depend on the request's scheme, forwarded or not
	Shape string
}

// c18XFPs: forwarded-scheme values a fronting proxy (or, with reverse-proxy mode off, anybody) may send.
var c18XFPs = []string{"", "https", "http", "HTTP", "http, https", "gopher-ish garbage"}

// c18EffectiveHost: Host, or X-Forwarded-Host when the instance runs in reverse-proxy mode.
func c18EffectiveHost(cfg *c18Cfg, h c18Host) string {
	if cfg.ReverseProxy && h.XFH != "" {
		return h.XFH
	}
	return h.Host
}

func c18StripPort(h string) string {
	if strings.HasPrefix(h, "[") {
		if k := strings.Index(h, "]"); k >= 0 {
			return h[1:k]
		}
		return h
	}
	if k := strings.LastIndexByte(h, ':'); k >= 0 && strings.Count(h, ":") == 1 {
		return h[:k]
	}
	return h
}

// c18WantDomain returns the acceptable Domain values (leading dot stripped, "" = attribute absent) and the rule case.
// Two values are acceptable only where "matching" is ambiguous: a configured domain that is a plain string suffix of the
// host without being a label-boundary suffix (xa.example.com vs a.example.com) — both readings are accepted there.
func c18WantDomain(domains []string, effHost string) (want []string, rule string) {
	if len(domains) == 0 {
		return []string{""}, "none"
	}
	host := c18StripPort(effHost)
	// one reading of "the longest configured domain matching the request host, else the shortest configured one"
	resolve := func(labelBoundary, foldCase bool) (string, bool) {
		h := host
		if foldCase {
			h = strings.ToLower(h)
		}
		best, found := "", false
		for _, d := range domains {
			dd := d
			if foldCase {
				dd = strings.ToLower(dd)
			}
			if !strings.HasSuffix(h, dd) {
				continue
			}
			if labelBoundary {
				bare := strings.TrimPrefix(dd, ".")
				if !(h == bare || strings.HasSuffix(h, "."+bare)) {
					continue
				}
			}
			if !found || len(d) > len(best) {
				best, found = d, true
			}
		}
		if !found {
			best = domains[0]
			for _, d := range domains {
				if len(d) < len(best) {
					best = d
				}
			}
		}
		return strings.ToLower(strings.TrimPrefix(best, ".")), found
	}
	// primary reading: plain string suffix, case as configured. The others are accepted only where they disagree with it:
	// label-boundary matching (xa.example.com vs a.example.com) and case-insensitive matching (a domain configured in upper case).
	prim, matched := resolve(false, false)
	want = []string{prim}
	for _, alt := range [][2]bool{{true, false}, {false, true}, {true, true}} {
		v, _ := resolve(alt[0], alt[1])
		dup := false
		for _, w := range want {
			dup = dup || w == v
		}
		if !dup {
			want = append(want, v)
		}
	}
	switch {
	case len(want) > 1:
		return want, "ambiguous"
	case matched:
		return want, "longest"
	}
	return want, "fallback"
}

func c18Hosts(cfg *c18Cfg, thorough bool) []c18Host {
	bases := []struct{ h, shape string }{
		{"example.com", "exact"}, {"a.example.com", "sub"}, {"b.a.example.com", "deep"}, {"c.b.a.example.com", "deeper"},
		{"other.test", "unrelated"}, {"xa.example.com", "lookalike"}, {"127.0.0.1", "ip"},
		{"a.example.com.evil.test", "embedded"}, // a configured domain occurs inside the host without being its suffix
	}
	if len(cfg.Domains) == 0 {
		bases = bases[:3] // no domain configured: the host cannot matter (Domain must be absent); a few shapes suffice
	}
	var out []c18Host
	for bi, b := range bases {
		for pi, port := range []string{"", ":8443"} {
			if pi != (bi+cfg.ID)%2 && b.shape != "sub" && b.shape != "deep" && !(thorough && b.shape == "exact") {
				continue // one port variant per host shape (alternating over configurations), both for the nested sub-domains
			}
			h := b.h + port
			shape := b.shape
			if port != "" {
				shape += "+port"
			}
			nested := b.shape == "sub" || b.shape == "deep"
			switch {
			case cfg.ReverseProxy && (bi+cfg.ID/2)%2 == 0:
				out = append(out, c18Host{Host: "internal.lan:4180", XFH: h, Shape: shape + "/xfh"})
				if thorough && nested {
					out = append(out, c18Host{Host: h, Shape: shape})
				}
			case !cfg.ReverseProxy && (bi+2*pi+cfg.ID/2)%4 == 1:
				// forwarding header present but reverse-proxy mode off: it must not take part in the rule
				out = append(out, c18Host{Host: h, XFH: "b.a.example.com", Shape: shape + "/xfh-ignored"})
			default:
				out = append(out, c18Host{Host: h, Shape: shape})
			}
		}
	}
	if thorough {
		out = append(out, c18Host{Host: "[2001:db8::1]:8443", Shape: "ip6+port"})
		if cfg.ReverseProxy {
			out = append(out, c18Host{Host: "a.example.com", XFH: "other.test:8443", Shape: "unrelated+port/xfh-over-matching-host"})
		}
	}
	return out
}

// ---------------------------------------------------------------------------------------------------------
// raw Set-Cookie reading

type c18Line struct {
	Raw         string
	Name, Value string
	Attr        map[string]string // lower-cased attribute name -> value as written (last occurrence wins, as in browsers)
	Has         map[string]bool
}

func c18Parse(line string) c18Line {
	l := c18Line{Raw: line, Attr: map[string]string{}, Has: map[string]bool{}}
	parts := strings.Split(line, ";")
	nv := strings.TrimSpace(parts[0])
	if k := strings.IndexByte(nv, '='); k >= 0 {
		l.Name, l.Value = nv[:k], nv[k+1:]
	} else {
		l.Name = nv
	}
	for _, a := range parts[1:] {
		a = strings.TrimSpace(a)
		if a == "" {
			continue
		}
		k, v := a, ""
		if i := strings.IndexByte(a, '='); i >= 0 {
			k, v = a[:i], a[i+1:]
		}
		k = strings.ToLower(strings.TrimSpace(k))
		l.Attr[k], l.Has[k] = strings.TrimSpace(v), true
	}
	return l
}

func (l c18Line) maxAge() (int, bool) {
	if !l.Has["max-age"] {
		return 0, false
	}
	n, err := strconv.Atoi(l.Attr["max-age"])
	if err != nil {
		return 0, false
	}
	return n, true
}

func (l c18Line) isDeletion() bool {
	if n, ok := l.maxAge(); ok {
		return n <= 0
	}
	if l.Has["expires"] {
		if t, err := http.ParseTime(l.Attr["expires"]); err == nil {
			return t.Before(time.Now())
		}
	}
	return false
}

func (l c18Line) domain() string {
	return strings.TrimPrefix(strings.ToLower(l.Attr["domain"]), ".")
}

// c18Kind classifies a cookie name from the configured name alone: session|ticket, split, csrf, other.
func c18Kind(cfg *c18Cfg, name string) string {
	switch {
	case name == cfg.Name:
		if cfg.Store == "redis" {
			return "ticket"
		}
		return "session"
	case strings.HasPrefix(name, cfg.Name+"_") && strings.HasSuffix(name, "_csrf"):
		return "csrf"
	case strings.HasPrefix(name, cfg.Name+"_"):
		if _, err := strconv.Atoi(name[len(cfg.Name)+1:]); err == nil {
			return "split"
		}
	}
	return "other"
}

func c18Family(kind string) string {
	if kind == "split" || kind == "ticket" {
		return "session"
	}
	return kind
}

// ---------------------------------------------------------------------------------------------------------
// the monitor

type c18Witness struct {
	Config    string   `json:"config"`
	Flags     []string `json:"flags"`
	Step      string   `json:"step"`
	Request   *vfReq   `json:"request"`
	Status    int      `json:"status"`
	EffHost   string   `json:"request_host_for_the_rule"`
	SetCookie string   `json:"set_cookie"`
	Kind      string   `json:"cookie_kind"`
	Expected  string   `json:"expected"`
	Got       string   `json:"got"`
	Held      string   `json:"client_held,omitempty"`
}

// c18CheckLine judges one raw Set-Cookie line against the configuration. It returns the parsed line, its kind and
// whether it is a deletion. effHost is the request host the Domain rule applies to.
func c18CheckLine(run *vfRun, cfg *c18Cfg, effHost, shape, step string, req *vfReq, status int, raw string) (c18Line, string, bool) {
	l := c18Parse(raw)
	kind := c18Kind(cfg, l.Name)
	del := l.isDeletion()
	wit := func(exp, got string) c18Witness {
		return c18Witness{Config: cfg.describe(), Flags: cfg.Flags, Step: step, Request: c18TrimReq(req), Status: status, EffHost: effHost, SetCookie: vfTrunc(raw, 400), Kind: kind, Expected: exp, Got: got}
	}
	what := kind
	if del {
		what = "deletion of " + kind
	}
	bad := func(sig, attr, exp, got string) {
		run.Violation(sig, fmt.Sprintf("%s cookie %q set by %s (host %q, %s): %s is %s, configuration demands %s", what, vfTrunc(l.Name, 40), step, effHost, cfg.describe(), attr, got, exp), wit(exp, got))
	}
	present := func(b bool) string {
		if b {
			return "present"
		}
		return "absent"
	}
	if l.Has["secure"] != cfg.Secure {
		bad("c18:secure", "Secure", present(cfg.Secure), present(l.Has["secure"]))
	}
	if l.Has["httponly"] != cfg.HTTPOnly {
		bad("c18:httponly", "HttpOnly", present(cfg.HTTPOnly), present(l.Has["httponly"]))
	}
	wantSS := map[string]string{"": "(absent)", "lax": "lax", "strict": "strict", "none": "none"}[cfg.SameSite]
	gotSS := "(absent)"
	if l.Has["samesite"] {
		gotSS = strings.ToLower(l.Attr["samesite"])
		if gotSS == "" {
			gotSS = "(bare attribute)"
		}
	}
	if gotSS != wantSS {
		bad("c18:samesite", "SameSite", wantSS, gotSS)
	}
	gotPath := "(absent)"
	if l.Has["path"] {
		gotPath = l.Attr["path"]
	}
	if gotPath != cfg.Path {
		bad("c18:path", "Path", cfg.Path, gotPath)
	}
	wantDom, rule := c18WantDomain(cfg.Domains, effHost)
	gotDom := l.domain()
	okDom := false
	for _, d := range wantDom {
		if d == gotDom && (d != "") == l.Has["domain"] {
			okDom = true
		}
	}
	if okDom && rule == "ambiguous" {
		// recorded, not judged: which reading the code follows where plain-suffix and label-boundary matching disagree
		if gotDom == wantDom[0] {
			run.Count("ambiguous_host_plain_suffix_reading_observed", 1)
		} else {
			run.Count("ambiguous_host_label_boundary_reading_observed", 1)
		}
	}
	if !okDom {
		bad("c18:domain", "Domain", fmt.Sprintf("%q (rule case %s over %v)", wantDom, rule, cfg.Domains), fmt.Sprintf("%q", gotDom))
	}
	if len(raw) > 4096 {
		bad("c18:length", "serialised length", "<= 4096", strconv.Itoa(len(raw)))
	}
	// lifetime attribute
	if !del {
		want := cfg.Expire
		if kind == "csrf" {
			want = cfg.CSRFExpire
		}
		if kind != "other" {
			n, ok := l.maxAge()
			if !ok || n != int(want/time.Second) {
				bad("c18:max-age", "Max-Age", strconv.Itoa(int(want/time.Second)), fmt.Sprintf("%q", l.Attr["max-age"]))
			}
		}
	} else if l.Value != "" {
		bad("c18:deletion-carries-value", "value", "empty", vfTrunc(l.Value, 20))
	}
	cell := fmt.Sprintf("%s|del=%v|sec=%v,ho=%v,ss=%s,path=%s|%s|%s", kind, del, cfg.Secure, cfg.HTTPOnly, cfg.SameSite, cfg.Path, rule, shape)
	run.Eval(cell)
	k := "lines_" + kind
	if del {
		k += "_deletion"
	}
	run.Count(k, 1)
	run.Count("domain_rule_"+rule, 1)
	run.SampleEvery(2503, func() interface{} { return wit("(sample: all attributes as configured)", "") })
	return l, kind, del
}

// c18CfgFromProxy reads the cookie configuration of any instance built by the rig (from the parsed options, i.e. the
// configuration itself), so that the line monitor can be attached to the responses of other checks' instances.
func c18CfgFromProxy(p *vfProxy) *c18Cfg {
	o := p.Opts
	c := &c18Cfg{ID: -1, Secure: o.Cookie.Secure, HTTPOnly: o.Cookie.HTTPOnly, SameSite: o.Cookie.SameSite, Path: o.Cookie.Path, DomainSet: "from-options",
		Domains: append([]string{}, o.Cookie.Domains...), Name: o.Cookie.Name, NameClass: "from-options", Store: string(o.Session.Type), CSRFPerRequest: o.Cookie.CSRFPerRequest,
		ReverseProxy: o.ReverseProxy, CSRFExpire: o.Cookie.CSRFExpire, Expire: o.Cookie.Expire, Prefix: o.ProxyPrefix, Flags: p.Flags, P: p}
	return c
}

// c18MonitorResponse applies the attribute monitor to every Set-Cookie line of one response of any instance
// (attribute / Domain / length / Max-Age checks; the deletion-matching rule needs the client's cookie store and is
// applied by c18Client.do). Intended as the always-on hook of DESIGN.md §2.2.
func c18MonitorResponse(run *vfRun, p *vfProxy, req *vfReq, resp *vfResp) {
	cfg := c18CfgFromProxy(p)
	h := c18Host{Host: req.Host, XFH: req.Get("X-Forwarded-Host"), Shape: "foreign"}
	for _, raw := range resp.SetCookies() {
		c18CheckLine(run, cfg, c18EffectiveHost(cfg, h), h.Shape, "monitor", req, resp.Code, raw)
	}
}

func (c *c18Cfg) describe() string {
	return fmt.Sprintf("#%d secure=%v httponly=%v samesite=%q path=%s domains=%v name=%s(%d) store=%s csrf-per-request=%v reverse-proxy=%v redirect-url=%q%s", c.ID, c.Secure, c.HTTPOnly, c.SameSite, c.Path, c.Domains, c.NameClass, len(c.Name), c.Store, c.CSRFPerRequest, c.ReverseProxy, c.Redirect, c.Spelling)
}

func c18TrimReq(r *vfReq) *vfReq {
	if r == nil {
		return nil
	}
	c := r.Clone()
	for i := range c.Headers {
		if len(c.Headers[i][1]) > 600 {
			c.Headers[i][1] = vfTrunc(c.Headers[i][1], 600)
		}
	}
	return c
}

// ---------------------------------------------------------------------------------------------------------
// client: holds every cookie it is given (whatever the host), remembers the attributes each was set with

type c18Held struct {
	Name, Value  string
	Path, Domain string
	HasDomain    bool
	Kind         string
	Seq          int
}

type c18Client struct {
	run  *vfRun
	cfg  *c18Cfg
	h    c18Host
	held map[string]*c18Held
	seq  int
}

func c18NewClient(run *vfRun, cfg *c18Cfg, h c18Host) *c18Client {
	return &c18Client{run: run, cfg: cfg, h: h, held: map[string]*c18Held{}}
}

func (cl *c18Client) clone() *c18Client {
	n := c18NewClient(cl.run, cl.cfg, cl.h)
	for k, v := range cl.held {
		c := *v
		n.held[k] = &c
	}
	n.seq = cl.seq
	return n
}

func (cl *c18Client) cookieHeader() (string, map[string]bool) {
	var hs []*c18Held
	for _, h := range cl.held {
		hs = append(hs, h)
	}
	sort.Slice(hs, func(i, j int) bool { return hs[i].Seq < hs[j].Seq })
	names := map[string]bool{}
	var parts []string
	for _, h := range hs {
		parts = append(parts, h.Name+"="+h.Value)
		names[h.Name] = true
	}
	return strings.Join(parts, "; "), names
}

func (cl *c18Client) familyLeft(fam string) []string {
	var out []string
	for _, h := range cl.held {
		if c18Family(h.Kind) == fam {
			out = append(out, h.Name)
		}
	}
	sort.Strings(out)
	return out
}

// do sends the request as this client (host, forwarding header, held cookies) and runs the monitor over the response.
func (cl *c18Client) do(p *vfProxy, step string, req *vfReq) *vfResp {
	req = req.Clone()
	req.Host = cl.h.Host
	if cl.h.XFH != "" {
		req.H("X-Forwarded-Host", cl.h.XFH)
	}
	if cl.h.XFP != "" {
		req.H("X-Forwarded-Proto", cl.h.XFP)
		cl.run.Count("requests_with_x_forwarded_proto", 1)
	}
	hdr, presented := cl.cookieHeader()
	if hdr != "" {
		req.H("Cookie", hdr)
	}
	resp := p.Do(req)
	if resp.Panic != "" {
		cl.run.Inconclusive("panic in " + step)
		return resp
	}
	cl.run.Count(fmt.Sprintf("responses_status_%d", resp.Code), 1)
	eff := c18EffectiveHost(cl.cfg, cl.h)
	deletedFam := map[string]bool{}
	for _, raw := range resp.SetCookies() {
		l, kind, del := c18CheckLine(cl.run, cl.cfg, eff, cl.h.Shape, step, req, resp.Code, raw)
		held := cl.held[l.Name]
		if !del {
			cl.seq++
			cl.held[l.Name] = &c18Held{Name: l.Name, Value: l.Value, Path: l.Attr["path"], Domain: l.domain(), HasDomain: l.Has["domain"], Kind: kind, Seq: cl.seq}
			continue
		}
		deletedFam[c18Family(kind)] = true
		switch {
		case held != nil:
			// the deletion must use the name, path and domain the cookie was set with
			if held.Path != l.Attr["path"] || held.Domain != l.domain() || held.HasDomain != l.Has["domain"] {
				cl.run.Violation("c18:deletion-mismatch", fmt.Sprintf("deletion of %s cookie %q by %s (host %q, %s) uses Path=%q Domain=%q, the cookie was set with Path=%q Domain=%q: a browser keeps it",
					kind, vfTrunc(l.Name, 40), step, eff, cl.cfg.describe(), l.Attr["path"], l.domain(), held.Path, held.Domain),
					c18Witness{Config: cl.cfg.describe(), Flags: cl.cfg.Flags, Step: step, Request: c18TrimReq(req), Status: resp.Code, EffHost: eff, SetCookie: vfTrunc(raw, 400), Kind: kind,
						Expected: fmt.Sprintf("Path=%q Domain=%q", held.Path, held.Domain), Got: fmt.Sprintf("Path=%q Domain=%q", l.Attr["path"], l.domain())})
			}
			delete(cl.held, l.Name)
			cl.run.Count("deletions_matching_held_cookie", 1)
		case presented[l.Name]:
			cl.run.Count("deletions_of_presented_cookie", 1) // e.g. a second deletion of the same cookie in one response
		case l.Name == cl.cfg.Name && len(cl.familyLeft("session")) == 0:
			// the server-side store clears "its" cookie unconditionally when it finds no usable ticket: nothing to delete, nothing mis-deleted
			cl.run.Count("deletions_vacuous_session_name", 1)
		default:
			cl.run.Violation("c18:deletion-matches-nothing", fmt.Sprintf("deletion of %q by %s (host %q, %s) matches no cookie this client holds or presented (held: %v)", vfTrunc(l.Name, 60), step, eff, cl.cfg.describe(), cl.names()),
				c18Witness{Config: cl.cfg.describe(), Flags: cl.cfg.Flags, Step: step, Request: c18TrimReq(req), Status: resp.Code, EffHost: eff, SetCookie: vfTrunc(raw, 400), Kind: kind, Held: strings.Join(cl.names(), ",")})
		}
	}
	for fam := range deletedFam {
		if fam == "csrf" {
			continue // per-request CSRF cookies of other logins legitimately stay
		}
		if left := cl.familyLeft(fam); len(left) > 0 && fam == "session" && !cl.respSets(resp, fam) {
			cl.run.Violation("c18:deletion-leaves-cookie", fmt.Sprintf("%s (host %q, %s) deletes %s cookies but the client still holds %v afterwards", step, eff, cl.cfg.describe(), fam, c18TruncAll(left)),
				c18Witness{Config: cl.cfg.describe(), Flags: cl.cfg.Flags, Step: step, Request: c18TrimReq(req), Status: resp.Code, EffHost: eff, Held: strings.Join(c18TruncAll(left), ",")})
		}
	}
	return resp
}

func (cl *c18Client) respSets(resp *vfResp, fam string) bool {
	for _, raw := range resp.SetCookies() {
		l := c18Parse(raw)
		if !l.isDeletion() && c18Family(c18Kind(cl.cfg, l.Name)) == fam {
			return true
		}
	}
	return false
}

func c18TruncAll(ss []string) []string {
	out := make([]string, len(ss))
	for i, s := range ss {
		out[i] = vfTrunc(s, 40)
	}
	return out
}

func (cl *c18Client) names() []string {
	var out []string
	for n := range cl.held {
		out = append(out, vfTrunc(n, 40))
	}
	sort.Strings(out)
	return out
}

func (cl *c18Client) has(kindFam string) bool { return len(cl.familyLeft(kindFam)) > 0 }

// ---------------------------------------------------------------------------------------------------------
// scenario library

var c18Seq int64

type c18Flow struct {
	run  *vfRun
	w    *vfWorld
	cfg  *c18Cfg
	h    c18Host
	a    *c18Client // standard identity
	b    *c18Client // large identity (split session in the cookie store)
	c    *c18Client // htpasswd form login
	large bool // also run the large-identity (split session) client
	ok    bool
	note  string
}

func (f *c18Flow) target(path string) string {
	// application paths live under the cookie path, as they must for a browser to return the cookies
	if !strings.HasPrefix(f.cfg.Path, "/") {
		return path // a cookie path spelt without its leading slash cannot prefix a request target
	}
	return strings.TrimSuffix(f.cfg.Path, "/") + path
}

func (f *c18Flow) login(cl *c18Client, id vfIdentity, step string) bool {
	p := f.cfg.P
	r := cl.do(p, step+"/start", vfGET(f.cfg.Prefix+"/start?rd="+vfQueryEscape(f.target("/landing"))))
	if r.Code != 302 {
		f.note = fmt.Sprintf("%s: start status %d", step, r.Code)
		return false
	}
	code, ar, err := f.w.IdP.Authorize(r.Location(), id)
	if err != nil {
		f.note = step + ": " + err.Error()
		return false
	}
	r = cl.do(p, step+"/callback", vfGET(f.cfg.Prefix+"/callback?code="+vfQueryEscape(code)+"&state="+vfQueryEscape(ar.Params.Get("state"))))
	if r.Code != 302 {
		f.note = fmt.Sprintf("%s: callback status %d %s", step, r.Code, vfTrunc(vfErrText(r.Body), 160))
		return false
	}
	return true
}

func (f *c18Flow) identity(large bool) vfIdentity {
	id := vfStdIdentity
	id.Sub = fmt.Sprintf("u18-%d", atomic.AddInt64(&c18Seq, 1))
	if large {
		id.Extra = map[string]interface{}{"blob": vfRandHex(2600)}
	}
	return id
}

// c18StaleCSRFVariants: ways in which the CSRF cookie a browser returns can have stopped validating.
var c18StaleCSRFVariants = []struct {
	name string
	mut  func(v string) string
}{
	{"tampered-payload", func(v string) string {
		b := []byte(v)
		if len(b) > 8 {
			if b[5] == 'A' {
				b[5] = 'B'
			} else {
				b[5] = 'A'
			}
		}
		return string(b)
	}},
	{"tampered-signature", func(v string) string {
		b := []byte(v)
		if k := len(b) - 6; k > 0 {
			if b[k] == 'A' {
				b[k] = 'B'
			} else {
				b[k] = 'A'
			}
		}
		return string(b)
	}},
	{"expired-stamp", func(v string) string { // signed value = payload|unix seconds|signature: an old stamp (the signature then fails too)
		parts := strings.Split(v, "|")
		if len(parts) == 3 {
			parts[1] = "1000000000"
			return strings.Join(parts, "|")
		}
		return v + "x"
	}},
	{"truncated", func(v string) string {
		if len(v) > 12 {
			return v[:12]
		}
		return "x"
	}},
	{"garbage", func(v string) string { return "AAAA|1|BBBB" }},
	{"emptied", func(v string) string { return "" }},
}

// phase1: everything up to established sessions.
func (f *c18Flow) phase1() {
	cfg, p := f.cfg, f.cfg.P
	f.a = c18NewClient(f.run, cfg, f.h)
	// unauthenticated visit (sign-in page, or straight into the login flow with --skip-provider-button), sign-in page itself
	anon := c18NewClient(f.run, cfg, f.h)
	anon.do(p, "unauthenticated", vfGET(f.target("/x")))
	anon.do(p, "sign-in-page", vfGET(cfg.Prefix+"/sign_in"))
	anon.do(p, "auth-only-unauthenticated", vfGET(cfg.Prefix+"/auth"))
	// failed callbacks: provider error, bogus code, valid code under a foreign state (CSRF mismatch -> CSRF deletion)
	bad := c18NewClient(f.run, cfg, f.h)
	r := bad.do(p, "bad/start", vfGET(cfg.Prefix+"/start?rd="+vfQueryEscape(f.target("/l"))))
	if r.Code == 302 {
		bad.do(p, "callback-provider-error", vfGET(cfg.Prefix+"/callback?error=access_denied&state=x"))
		if code, ar, err := f.w.IdP.Authorize(r.Location(), f.identity(false)); err == nil {
			st := ar.Params.Get("state")
			bad.do(p, "callback-bogus-code", vfGET(cfg.Prefix+"/callback?code=nope&state="+vfQueryEscape(st)))
			forged := st
			if k := strings.IndexByte(st, ':'); k >= 0 {
				forged = "AAAAAAAAAAAAAAAAAAAAAAAAAAAAAAAAAAAAAAAAAAA" + st[k:]
			}
			// callbacks that fail on the CSRF cookie itself: the state decodes and names the cookie the browser holds, but the
			// cookie no longer validates (tampered payload / signature, truncated, garbage, emptied, stamped as expired); the
			// cookie is missing altogether; the state does not decode. The code is never redeemed on these paths, so it is reused.
			cb := cfg.Prefix + "/callback?code=" + vfQueryEscape(code) + "&state="
			for _, v := range c18StaleCSRFVariants {
				sc := bad.clone()
				n := 0
				for _, h := range sc.held {
					if h.Kind == "csrf" {
						h.Value = v.mut(h.Value)
						n++
					}
				}
				if n == 0 {
					break
				}
				r := sc.do(p, "callback-stale-csrf-cookie/"+v.name, vfGET(cb+vfQueryEscape(st)))
				if r.Code != 302 {
					f.run.Count("scenario_failing_callback_stale_csrf", 1)
				}
				// the browser tries again: whatever the error response did to its cookies must not be mis-addressed
				sc.do(p, "callback-stale-csrf-cookie/"+v.name+"/retry", vfGET(cb+vfQueryEscape(st)))
			}
			c18NewClient(f.run, cfg, f.h).do(p, "callback-without-csrf-cookie", vfGET(cb+vfQueryEscape(st)))
			f.run.Count("scenario_failing_callback_missing_csrf", 1)
			for i, badState := range []string{"", "no-colon-here", "%zz", strings.Repeat("A", 43)} {
				bad.clone().do(p, fmt.Sprintf("callback-bad-state-%d", i), vfGET(cb+badState))
				f.run.Count("scenario_failing_callback_bad_state", 1)
			}
			bad.clone().do(p, "callback-without-code", vfGET(cfg.Prefix+"/callback?state="+vfQueryEscape(st)))
			bad.clone().do(p, "callback-post", vfNewReq("POST", cb+vfQueryEscape(st)))
			// last (it redeems the code and, with a fixed CSRF cookie name, deletes the CSRF cookie): valid code under a foreign state
			bad.do(p, "callback-foreign-state", vfGET(cfg.Prefix+"/callback?code="+vfQueryEscape(code)+"&state="+vfQueryEscape(forged)))
		}
	}
	// successful logins
	if !f.login(f.a, f.identity(false), "login") {
		return
	}
	if r := f.a.do(p, "authenticated", vfGET(f.target("/x"))); r.Code != 200 {
		f.note = fmt.Sprintf("authenticated request: status %d", r.Code)
		return
	}
	if f.large {
		f.b = c18NewClient(f.run, cfg, f.h)
		if !f.login(f.b, f.identity(true), "login-large") {
			f.b = nil
		}
	}
	if cfg.HTPasswd {
		f.c = c18NewClient(f.run, cfg, f.h)
		form := url.Values{"username": {"bob"}, "password": {"pw"}, "rd": {f.target("/l")}}
		r := f.c.do(p, "htpasswd-form-login", vfNewReq("POST", cfg.Prefix+"/sign_in").WithBody("application/x-www-form-urlencoded", []byte(form.Encode())))
		if r.Code != 302 || !f.c.has("session") {
			f.note = fmt.Sprintf("htpasswd form login: status %d", r.Code)
			f.c = nil
		} else {
			f.run.Count("scenario_htpasswd_login", 1)
		}
	}
	// per-request CSRF / concurrent logins in one browser: two starts, one callback
	d := c18NewClient(f.run, cfg, f.h)
	r1 := d.do(p, "concurrent/start-1", vfGET(cfg.Prefix+"/start?rd="+vfQueryEscape(f.target("/one"))))
	r2 := d.do(p, "concurrent/start-2", vfGET(cfg.Prefix+"/start?rd="+vfQueryEscape(f.target("/two"))))
	if r1.Code == 302 && r2.Code == 302 {
		if code, ar, err := f.w.IdP.Authorize(r2.Location(), f.identity(false)); err == nil {
			d.do(p, "concurrent/callback-2", vfGET(cfg.Prefix+"/callback?code="+vfQueryEscape(code)+"&state="+vfQueryEscape(ar.Params.Get("state"))))
			if cfg.CSRFPerRequest {
				if code, ar, err := f.w.IdP.Authorize(r1.Location(), f.identity(false)); err == nil {
					d.do(p, "concurrent/callback-1", vfGET(cfg.Prefix+"/callback?code="+vfQueryEscape(code)+"&state="+vfQueryEscape(ar.Params.Get("state"))))
				}
			}
			d.do(p, "concurrent/sign-out", vfGET(cfg.Prefix+"/sign_out"))
		}
	}
	f.ok = true
}

// phase2 runs once the sessions are older than the refresh period (1 s): refresh re-issue, clearing paths, sign-out.
func (f *c18Flow) phase2() {
	if !f.ok {
		return
	}
	cfg, p := f.cfg, f.cfg.P
	refreshVia, okCode := f.target("/x"), 200
	if (cfg.ID+len(f.h.Host))%2 == 1 {
		refreshVia, okCode = cfg.Prefix+"/auth", 202 // the auth-only endpoint refreshes stale sessions too
	}
	r := f.a.do(p, "refresh-reissue", vfGET(refreshVia))
	if r.Code == okCode && len(r.SetCookies()) > 0 {
		f.run.Count("scenario_refresh_reissue", 1)
	}
	if f.b != nil {
		r := f.b.do(p, "refresh-reissue-large", vfGET(f.target("/x")))
		if r.Code == 200 && len(r.SetCookies()) > 0 {
			f.run.Count("scenario_refresh_reissue_large", 1)
		}
	}
	// tampered credential -> load error -> clearing
	t := f.a.clone()
	for _, h := range t.held {
		if c18Family(h.Kind) == "session" && len(h.Value) > 20 {
			b := []byte(h.Value)
			k := len(b) / 3
			if b[k] == 'A' {
				b[k] = 'B'
			} else {
				b[k] = 'A'
			}
			h.Value = string(b)
		}
	}
	t.do(p, "tampered-cookie-clearing", vfGET(f.target("/x")))
	if t.has("session") {
		f.run.Count("tampered_cookie_not_cleared", 1)
	} else {
		f.run.Count("scenario_load_error_clearing", 1)
	}
	if f.b != nil {
		tb := f.b.clone()
		for _, h := range tb.held {
			if h.Kind == "split" && strings.HasSuffix(h.Name, "_1") {
				h.Value = "x" + h.Value
			}
		}
		tb.do(p, "tampered-split-clearing", vfGET(f.target("/x")))
	}
	// authorisation failure on an instance sharing secret and store
	if cfg.P2 != nil {
		z := f.a.clone()
		r := z.do(cfg.P2, "authorisation-failure-clearing", vfGET(f.target("/x")))
		if r.Code == 403 && !z.has("session") {
			f.run.Count("scenario_authorisation_failure_clearing", 1)
		}
		if f.b != nil {
			zb := f.b.clone()
			zb.do(cfg.P2, "authorisation-failure-clearing-large", vfGET(f.target("/x")))
		}
	}
	// a second login in a browser that still holds a split session: the new (unsplit) save expires the stale parts
	if f.b != nil {
		b2 := f.b.clone()
		hadSplit := false
		for _, h := range b2.held {
			hadSplit = hadSplit || h.Kind == "split"
		}
		if f.login(b2, f.identity(false), "relogin-over-split") && hadSplit {
			left := 0
			for _, h := range b2.held {
				if h.Kind == "split" {
					left++
				}
			}
			if left == 0 {
				f.run.Count("scenario_relogin_expires_stale_parts", 1)
			} else {
				f.run.Count("relogin_left_stale_parts", 1) // C10's concern; recorded
			}
		}
	}
	// a signed-in browser running into failing callbacks (stale CSRF cookie from an abandoned login, provider error)
	{
		z := f.a.clone()
		if r := z.do(p, "signed-in/start", vfGET(cfg.Prefix+"/start?rd="+vfQueryEscape(f.target("/again")))); r.Code == 302 {
			if code, ar, err := f.w.IdP.Authorize(r.Location(), f.identity(false)); err == nil {
				for _, h := range z.held {
					if h.Kind == "csrf" {
						h.Value = c18StaleCSRFVariants[(cfg.ID+len(f.h.Host))%len(c18StaleCSRFVariants)].mut(h.Value)
					}
				}
				z.do(p, "signed-in/callback-stale-csrf-cookie", vfGET(cfg.Prefix+"/callback?code="+vfQueryEscape(code)+"&state="+vfQueryEscape(ar.Params.Get("state"))))
				z.do(p, "signed-in/callback-provider-error", vfGET(cfg.Prefix+"/callback?error=server_error&state="+vfQueryEscape(ar.Params.Get("state"))))
			}
		}
	}
	// sign-out
	r = f.a.do(p, "sign-out", vfGET(cfg.Prefix+"/sign_out?rd="+vfQueryEscape(f.target("/bye"))))
	if r.Code == 302 && !f.a.has("session") {
		f.run.Count("scenario_sign_out", 1)
	}
	if f.b != nil {
		f.b.do(p, "sign-out-large", vfGET(cfg.Prefix+"/sign_out"))
		if !f.b.has("session") {
			f.run.Count("scenario_sign_out_large", 1)
		}
	}
	if f.c != nil {
		f.c.do(p, "sign-out-htpasswd", vfGET(cfg.Prefix+"/sign_out"))
	}
	// a signed-out browser visiting again
	f.a.do(p, "after-sign-out", vfGET(f.target("/x")))
}

// ---------------------------------------------------------------------------------------------------------

// ---------------------------------------------------------------------------------------------------------
// spelling sweep: unusual but plausible spellings of the cookie options. Each either fails at start-up (counted: the
// operator is told) or the instance starts and every Set-Cookie carries what the operator asked for.

type c18Spelling struct {
	Label string
	Flag  string   // option whose value is spelt unusually
	Value string   // as spelt on the command line
	Doms  []string // for cookie-domain: the values as spelt
	Apply func(c *c18Cfg)
}

func c18Spellings() []c18Spelling {
	ss := func(spelt, means string) c18Spelling {
		return c18Spelling{Label: fmt.Sprintf("cookie-samesite=%q", spelt), Flag: "cookie-samesite", Value: spelt, Apply: func(c *c18Cfg) { c.SameSite = means }}
	}
	sec := func(spelt string, means bool) c18Spelling {
		return c18Spelling{Label: "cookie-secure=" + spelt, Flag: "cookie-secure", Value: spelt, Apply: func(c *c18Cfg) { c.Secure = means }}
	}
	ho := func(spelt string, means bool) c18Spelling {
		return c18Spelling{Label: "cookie-httponly=" + spelt, Flag: "cookie-httponly", Value: spelt, Apply: func(c *c18Cfg) { c.HTTPOnly = means }}
	}
	path := func(spelt string) c18Spelling {
		return c18Spelling{Label: "cookie-path=" + spelt, Flag: "cookie-path", Value: spelt, Apply: func(c *c18Cfg) {
			c.Path = spelt // the attribute is the operator's text, verbatim
			c.Prefix = "/oauth2"
			if strings.HasPrefix(spelt, "/") && spelt != "/" {
				c.Prefix = strings.TrimSuffix(spelt, "/") + "/oauth2"
			}
		}}
	}
	dom := func(spelt ...string) c18Spelling {
		return c18Spelling{Label: fmt.Sprintf("cookie-domain=%v", spelt), Flag: "cookie-domain", Doms: spelt, Apply: func(c *c18Cfg) { c.Domains = spelt }}
	}
	return []c18Spelling{
		ss("Strict", "strict"), ss("Lax", "lax"), ss("None", "none"), ss("STRICT", "strict"), ss("LaX", "lax"), ss(" strict", "strict"), ss("none ", "none"),
		sec("True", true), sec("1", true), sec("TRUE", true), sec("t", true), sec("0", false), sec("False", false),
		ho("True", true), ho("1", true), ho("0", false), ho("F", false), ho("FALSE", false),
		path("app/"), path("/app"), path("/App/"), path("/app/v1/"),
		dom(".example.com", ".a.example.com"), dom("Example.COM"), dom("EXAMPLE.COM", "A.Example.Com"), dom(".Example.com"),
	}
}

func c18SpellingCfgs(run *vfRun, w *vfWorld, t *testing.T) []*c18Cfg {
	var out []*c18Cfg
	accepted, rejected := []string{}, []string{}
	for i, sp := range c18Spellings() {
		cfg := &c18Cfg{ID: 200000 + i, Secure: true, HTTPOnly: true, SameSite: "lax", Path: "/", DomainSet: "spelling", Domains: []string{"example.com", "a.example.com"},
			Name: "_oauth2_proxy", NameClass: "short", Store: c18Stores[i%2], CSRFPerRequest: i%4 >= 2, CSRFExpire: 15 * time.Minute, Expire: 168 * time.Hour, Prefix: "/oauth2",
			Spelling: " [spelt " + sp.Label + "]"}
		sp.Apply(cfg)
		if sp.Doms != nil {
			cfg.RawDomains = sp.Doms
		} else {
			cfg.Raw = map[string]string{sp.Flag: sp.Value}
		}
		run.Count("spelling_variants", 1)
		if err := cfg.build(w, "", false); err != nil {
			// refused at start-up: the operator is told, no cookie is ever emitted under this spelling
			run.Count("spelling_refused_at_startup", 1)
			rejected = append(rejected, sp.Label)
			continue
		}
		run.Count("spelling_accepted", 1)
		cfg.Hosts = []c18Host{{Host: "a.example.com:8443", Shape: "sub+port/spelling"}, {Host: "b.a.example.com", Shape: "deep/spelling"}, {Host: "other.test", Shape: "unrelated/spelling"}}
		accepted = append(accepted, sp.Label)
		out = append(out, cfg)
	}
	run.Extra("spellings_refused_at_startup", rejected)
	run.Extra("spellings_accepted", accepted)
	return out
}

// ---------------------------------------------------------------------------------------------------------
// domain-list sweep: lists of UNRELATED (non-nested) domains whose label counts and lengths disagree, in both orders,
// x request hosts matching one of them or none. Reference unchanged: longest matching, else the SHORTEST configured one
// (docs: "The longest domain matching the request's host will be used (or the shortest cookie domain if there is no match)").

func c18DomainListCfgs(run *vfRun, w *vfWorld, t *testing.T) []*c18Cfg {
	lists := [][]string{
		{"example.co.uk", "corp-intranet.com"}, // 13 bytes / 3 labels vs 17 bytes / 2 labels
		{"corp-intranet.com", "example.co.uk"},
		{"a.b.c.example.org", "verylongcompanyname.com"}, // 17 bytes / 5 labels vs 23 bytes / 2 labels
		{"verylongcompanyname.com", "a.b.c.example.org"},
		{"corp-intranet.com", "x.io", "example.co.uk"},
		{"intranet.corp.example.co.uk", "extraordinarily-long-company-name.com", "example.co.uk"}, // nested pair + a longer flat one
	}
	var out []*c18Cfg
	for i, l := range lists {
		cfg := &c18Cfg{ID: 300000 + i, Secure: true, HTTPOnly: true, SameSite: []string{"lax", "strict", ""}[i%3], Path: "/", DomainSet: "unrelated-domains", Domains: l,
			Name: "_oauth2_proxy", NameClass: "short", Store: c18Stores[i%2], CSRFPerRequest: i%4 >= 2, ReverseProxy: i%3 == 0, CSRFExpire: 15 * time.Minute, Expire: 168 * time.Hour, Prefix: "/oauth2"}
		if err := cfg.build(w, "", false); err != nil {
			t.Fatalf("C18 rig: domain list %v: %v", l, err)
		}
		for hi, h := range []string{"10.1.2.3:8443", "other.test", "localhost", "app." + l[0], "www." + l[1] + ":8443", l[len(l)-1]} {
			host := c18Host{Host: h, Shape: fmt.Sprintf("unrelated-domain-list/host-%d", hi)}
			if cfg.ReverseProxy && hi%2 == 0 {
				host = c18Host{Host: "internal.lan:4180", XFH: h, Shape: host.Shape + "/xfh"}
			}
			cfg.Hosts = append(cfg.Hosts, host)
		}
		run.Count("domain_list_configurations", 1)
		out = append(out, cfg)
	}
	return out
}

// ---------------------------------------------------------------------------------------------------------
// split-threshold boundary sweep: session sizes in the window just below and above the point where the cookie store
// starts splitting, under configurations whose attributes serialise long. Every emitted line goes through the monitor
// (<= 4096 bytes on the RAW line, attributes, Domain ...). Driven through the proxy's own SaveSession.

type c18BoundaryCfg struct {
	Label    string
	Domain   string
	Path     string
	SameSite string
	Secure   bool
	HTTPOnly bool
	Name     string
}

func c18BoundaryCfgs(thorough bool) []c18BoundaryCfg {
	longDom := "internal-tools.platform-engineering.emea.corp.example-group.com" // 63 bytes
	midDom := "internal-tools.corp.example.com"
	longPath := "/apps/internal-tools/session-gateway/v2/" // 40 bytes
	midPath := "/apps/internal-tools/"
	out := []c18BoundaryCfg{
		{"long-attrs/short-name", longDom, longPath, "strict", true, true, "_oauth2_proxy"},
		{"long-attrs/name-100", longDom, longPath, "strict", true, true, c18Name("100", 0)},
		{"long-attrs/name-250", longDom, longPath, "strict", true, true, c18Name("250", 0)},
		{"mid-attrs/short-name", midDom, midPath, "strict", true, true, "_oauth2_proxy"}, // attributes just over 96 bytes: a narrow window
		{"long-domain-only", longDom, "/", "lax", true, true, "sid"},
		{"default-attrs", "", "/", "", true, true, "_oauth2_proxy"}, // attributes well under 96 bytes (control)
	}
	if thorough {
		out = append(out,
			c18BoundaryCfg{"long-path-only", "", longPath + "deeper/and/deeper/still/", "strict", true, true, "_oauth2_proxy"},
			c18BoundaryCfg{"long-attrs/no-flags", longDom, longPath, "none", false, false, "my+cookie"},
			c18BoundaryCfg{"mid-attrs/name-100", midDom, midPath, "strict", true, true, c18Name("100", 0)},
			c18BoundaryCfg{"mid-attrs/name-250", midDom, midPath, "lax", true, true, c18Name("250", 0)},
		)
	}
	return out
}

func c18Boundary(run *vfRun, w *vfWorld, t *testing.T) {
	// one incompressible text; the token of length L is its prefix, so the serialised size is monotone in L
	const alphabet = "ABCDEFGHIJKLMNOPQRSTUVWXYZabcdefghijklmnopqrstuvwxyz0123456789-_"
	rng := rand.New(rand.NewSource(run.Env.Seed*131 + 18))
	stream := make([]byte, 9000)
	for i := range stream {
		stream[i] = alphabet[rng.Intn(len(alphabet))]
	}
	maxUnsplit := int64(0)
	for bi, bc := range c18BoundaryCfgs(run.Env.Thorough()) {
		cfg := &c18Cfg{ID: 100000 + bi, Secure: bc.Secure, HTTPOnly: bc.HTTPOnly, SameSite: bc.SameSite, Path: bc.Path, DomainSet: "boundary:" + bc.Label, Name: bc.Name,
			NameClass: strconv.Itoa(len(bc.Name)), Store: "cookie", CSRFExpire: 15 * time.Minute, Expire: 168 * time.Hour, Prefix: strings.TrimSuffix(bc.Path, "/") + "/oauth2"}
		if bc.Domain != "" {
			cfg.Domains = []string{bc.Domain}
		}
		if err := cfg.build(w, "", false); err != nil {
			t.Fatalf("C18 rig: boundary configuration %s: %v", bc.Label, err)
		}
		hosts := []c18Host{{Host: "gateway." + strings.TrimPrefix(bc.Domain, "."), Shape: "sub/split-boundary"}, {Host: "10.1.2.3:8443", Shape: "ip+port/split-boundary"}}
		if bc.Domain == "" {
			hosts[0].Host = "gateway.example.com"
		}
		type saved struct {
			lines []string
			parts int
			err   error
		}
		save := func(h c18Host, L int, judge bool) saved {
			req := httptest.NewRequest("GET", cfg.Path, nil)
			req.Host = h.Host
			rw := httptest.NewRecorder()
			ss := &c18sess.SessionState{User: "u18-boundary", Email: "boundary@example.com", AccessToken: string(stream[:L])}
			if err := cfg.P.P.SaveSession(rw, req, ss); err != nil {
				return saved{err: err}
			}
			out := saved{lines: rw.Header().Values("Set-Cookie")}
			vr := vfNewReq("GET", cfg.Path).WithHost(h.Host)
			for _, raw := range out.lines {
				l := c18Parse(raw)
				if !l.isDeletion() {
					out.parts++
				}
				if judge {
					_, kind, _ := c18CheckLine(run, cfg, h.Host, h.Shape, fmt.Sprintf("SaveSession(access token of %d incompressible bytes)", L), vr, 0, raw)
					if kind == "session" {
						for {
							m := atomic.LoadInt64(&maxUnsplit)
							if int64(len(raw)) <= m || atomic.CompareAndSwapInt64(&maxUnsplit, m, int64(len(raw))) {
								break
							}
						}
					}
				}
			}
			return out
		}
		// bisection for the first token length that is split into parts
		lo, hi := 500, 6000
		if r := save(hosts[0], lo, false); r.err != nil || r.parts != 1 {
			t.Fatalf("C18 rig: boundary %s: a %d-byte token gives %d cookies (%v)", bc.Label, lo, r.parts, r.err)
		}
		if r := save(hosts[0], hi, false); r.err != nil || r.parts < 2 {
			t.Fatalf("C18 rig: boundary %s: a %d-byte token gives %d cookies (%v)", bc.Label, hi, r.parts, r.err)
		}
		for hi-lo > 1 {
			mid := (lo + hi) / 2
			if r := save(hosts[0], mid, false); r.err == nil && r.parts >= 2 {
				hi = mid
			} else {
				lo = mid
			}
		}
		thr := hi
		run.Count("boundary_configurations", 1)
		var jobs [][2]int
		for hiX := range hosts {
			for L := thr - 160; L <= thr+8; L++ {
				jobs = append(jobs, [2]int{hiX, L})
			}
		}
		var unsplit, split int64
		vfParallel(len(jobs), 16, func(i int) {
			r := save(hosts[jobs[i][0]], jobs[i][1], true)
			if r.err != nil {
				run.Inconclusive("boundary save failed")
				return
			}
			run.Count("boundary_saves", 1)
			if r.parts >= 2 {
				atomic.AddInt64(&split, 1)
			} else {
				atomic.AddInt64(&unsplit, 1)
			}
		})
		if unsplit == 0 || split == 0 {
			run.Inconclusive("boundary sweep did not straddle the split threshold")
		}
		run.Sample(map[string]interface{}{"boundary": bc.Label, "flags": cfg.Flags, "first_split_token_length": thr, "swept": []int{thr - 160, thr + 8}, "unsplit_saves": unsplit, "split_saves": split})
	}
	run.Extra("boundary_longest_unsplit_session_line", maxUnsplit)
}

func c18RefSelfTest(t *testing.T) {
	type tc struct {
		domains []string
		host    string
		want    string
		rule    string
	}
	for _, c := range []tc{
		{nil, "a.example.com", "", "none"},
		{[]string{"example.com"}, "a.example.com:8443", "example.com", "longest"},
		{[]string{"example.com", "a.example.com"}, "a.example.com:8443", "a.example.com", "longest"},
		{[]string{"example.com", "a.example.com"}, "b.a.example.com", "a.example.com", "longest"},
		{[]string{"example.com", "a.example.com"}, "example.com", "example.com", "longest"},
		{[]string{"a.example.com", "example.com", "b.a.example.com"}, "other.test", "example.com", "fallback"},
		{[]string{".example.com"}, "example.com", "example.com", "fallback"},
		{[]string{".example.com"}, "a.example.com", "example.com", "longest"},
		{[]string{"example.com", ".b.a.example.com", ".a.example.com"}, "a.example.com", "example.com", "longest"},
		{[]string{"example.com", ".b.a.example.com", ".a.example.com"}, "c.b.a.example.com:8443", "b.a.example.com", "longest"},
		{[]string{"example.com"}, "[2001:db8::1]:8443", "example.com", "fallback"},
		{[]string{"example.com", "example.com"}, "127.0.0.1", "example.com", "fallback"},
		{[]string{"a.example.com", "example.com", "example.com"}, "other.test:8443", "example.com", "fallback"},
		{[]string{"example.com", "a.example.com", "a.example.com"}, "localhost", "example.com", "fallback"},
		{[]string{"example.com", "a.example.com", "a.example.com"}, "b.a.example.com", "a.example.com", "longest"},
	} {
		got, rule := c18WantDomain(c.domains, c.host)
		if len(got) != 1 || got[0] != c.want || rule != c.rule {
			t.Fatalf("C18 reference self-test: domains %v host %q: got %v/%s, want %q/%s", c.domains, c.host, got, rule, c.want, c.rule)
		}
	}
	if got, rule := c18WantDomain([]string{"Example.COM"}, "a.example.com"); rule != "fallback" || len(got) != 1 || got[0] != "example.com" {
		t.Fatalf("C18 reference self-test: upper-case single domain: %v %s", got, rule) // matching or not, the one configured domain is the answer
	}
	if got, rule := c18WantDomain([]string{"example.com", "A.Example.com"}, "b.a.example.com"); rule != "ambiguous" || len(got) != 2 {
		t.Fatalf("C18 reference self-test: upper-case nested domain: %v %s", got, rule)
	}
	if got, rule := c18WantDomain([]string{"example.com", "a.example.com"}, "xa.example.com"); rule != "ambiguous" || len(got) != 2 {
		t.Fatalf("C18 reference self-test: lookalike host: %v %s", got, rule)
	}
	l := c18Parse("n=v; path=/app/; DOMAIN=.Example.com; Max-Age=0; HTTPONLY; secure; SameSite=Lax")
	if l.Name != "n" || l.Value != "v" || l.Attr["path"] != "/app/" || l.domain() != "example.com" || !l.Has["httponly"] || !l.Has["secure"] || !l.isDeletion() || strings.ToLower(l.Attr["samesite"]) != "lax" {
		t.Fatalf("C18 parser self-test: %+v", l)
	}
}

func TestVerif_C18(t *testing.T) {
	run := vfNewRun(t, "C18", "exploration")
	run.SetRule("every raw Set-Cookie line of every response of the scenario library (unauthenticated visit, sign-in page, start, failing callbacks {provider error, bogus code, foreign state, CSRF cookie tampered / re-stamped / truncated / garbage / emptied / missing, undecodable state, no code, POST} for anonymous and signed-in browsers, callback success, split session, htpasswd form login, " +
		"concurrent logins / per-request CSRF, refresh re-issue, tampered-cookie clearing, authorisation-failure clearing on a second instance, sign-out) under cookie-option configurations " +
		"(covering array in quick: all triples of {secure, httponly, samesite, path, domain set, name length, store} and all pairs with {csrf-per-request, reverse-proxy, csrf-expire, expire, skip-provider-button, a cookie domain listed more than once}; full product of {secure, httponly, samesite, path, domain set, name length, store} in thorough) x request hosts {exact, sub, deep, deeper, unrelated, look-alike, IP} x {no port, port} x {Host, X-Forwarded-Host in reverse-proxy mode, X-Forwarded-Host with reverse-proxy off}. " +
		"x X-Forwarded-Proto {absent, https, http, HTTP, list, garbage} in reverse-proxy mode and off, plus lists of unrelated domains with disagreeing label counts / lengths in both orders, --redirect-url {derived, explicit same / sibling / unrelated host, relative} as a pairwise factor, a spelling sweep (capitalised / padded samesite, True/1/0 booleans, cookie-path without leading slash, cookie-domain with leading dot / upper case: refused at start-up or honoured) " +
		"and a split-threshold boundary sweep (SaveSession with every token length in [first split length-160, +8] under configurations with long Domain/Path attributes and long names). " +
		"cell = (cookie kind, deletion?, attribute vector, domain-rule case, host shape). Domain reading in force: port ignored (fix 09579bc / F8)")
	run.Assume("the client returns every cookie it was given regardless of Secure/Domain/Path matching (the proxy never sees those attributes on a request); application and proxy paths are placed under --cookie-path",
		"hosts for which plain-suffix and label-boundary matching disagree (xa.example.com vs a.example.com) accept either reading's Domain",
		"a deletion of the plain session-cookie name while the client holds no session cookie (server-side store clearing unconditionally) deletes nothing and is counted, not judged")
	c18RefSelfTest(t)
	w := vfNewWorld(t)
	defer w.Close()
	sum := sha1.Sum([]byte("pw"))
	ht := w.File("htpasswd", "bob:{SHA}"+base64.StdEncoding.EncodeToString(sum[:])+"\n")

	// the stand-alone response monitor (the hook other checks can attach) on a rig-default instance driven by the rig's browser
	{
		p0 := w.MustProxy("--cookie-domain=example.com", "--cookie-domain=a.example.com", "--cookie-samesite=lax")
		b := vfNewBrowser("b.a.example.com:8443")
		steps := []*vfReq{vfGET("/x"), vfGET("/oauth2/sign_in")}
		for _, rq := range steps {
			rq.Host = b.Host
			c18MonitorResponse(run, p0, rq, b.Send(p0, rq))
		}
		if l, err := b.StartLogin(p0, vfStdIdentity, "/"); err == nil {
			rq := vfGET("/oauth2/start?rd=%2F").WithHost(b.Host)
			c18MonitorResponse(run, p0, rq, l.StartResp)
			for _, rq := range []*vfReq{vfGET(l.CallbackTarget(p0)), vfGET("/x"), vfGET("/oauth2/sign_out")} {
				rq.Host = b.Host
				c18MonitorResponse(run, p0, rq, b.Send(p0, rq))
			}
			run.Count("standalone_monitor_flows", 1)
		}
	}

	c18Boundary(run, w, t)

	// configurations
	var vectors [][]int
	if run.Env.Thorough() {
		// full product of the seven main factors; the remaining ones drawn at random
		var rec func(k int, v []int)
		rec = func(k int, v []int) {
			if k == 7 {
				vv := append([]int{}, v...)
				for i := 7; i < len(c18Levels); i++ {
					vv = append(vv, run.Rng.Intn(c18Levels[i]))
				}
				vectors = append(vectors, vv)
				return
			}
			for a := 0; a < c18Levels[k]; a++ {
				rec(k+1, append(v, a))
			}
		}
		rec(0, nil)
	} else {
		vectors = c18Covering(run.Rng, c18Levels, 7)
	}
	// seeded shuffle: the allocation of the optional extras below (htpasswd file, second instance) and the batches must not
	// correlate with the enumeration order of the factors
	run.Rng.Shuffle(len(vectors), func(i, j int) { vectors[i], vectors[j] = vectors[j], vectors[i] })
	run.Extra("configurations", len(vectors))
	htLeft := 30 // inotify budget (htpasswd watchers)
	htStep := len(vectors)/30 + 1
	batch := run.Env.Pick(256, 64)
	flows := 0
	for lo := 0; lo < len(vectors); lo += batch {
		hi := lo + batch
		if hi > len(vectors) {
			hi = len(vectors)
		}
		var cfgs []*c18Cfg
		for k := lo; k < hi; k++ {
			cfg := c18FromVector(k, vectors[k])
			if htLeft > 0 && k%htStep == 0 {
				cfg.HTPasswd = true
				htLeft--
			}
			withP2 := k%run.Env.Pick(3, 4) == 0
			if err := cfg.build(w, ht, withP2); err != nil {
				t.Fatalf("C18 rig: configuration %s: %v", cfg.describe(), err)
			}
			cfgs = append(cfgs, cfg)
		}
		var fl []*c18Flow
		if lo == 0 {
			// the spelling and domain-list sweeps ride along with the first batch (they need the same wait for the refresh scenarios)
			extras := append(c18SpellingCfgs(run, w, t), c18DomainListCfgs(run, w, t)...)
			for _, cfg := range extras {
				for hi, h := range cfg.Hosts {
					fl = append(fl, &c18Flow{run: run, w: w, cfg: cfg, h: h, large: hi == 0})
				}
			}
		}
		for _, cfg := range cfgs {
			for hi, h := range c18Hosts(cfg, run.Env.Thorough()) {
				// the (expensive) split-session client runs for every second host of a configuration, alternating over configurations
				fl = append(fl, &c18Flow{run: run, w: w, cfg: cfg, h: h, large: (hi+cfg.ID)%2 == 0})
			}
		}
		for i, f := range fl {
			// request dimension X-Forwarded-Proto, in reverse-proxy mode and off: rotates over hosts and configurations
			f.h.XFP = c18XFPs[(i+f.cfg.ID)%len(c18XFPs)]
			if f.h.XFP != "" {
				mode := "rp-off"
				if f.cfg.ReverseProxy {
					mode = "rp-on"
				}
				run.Count("flows_xfp_"+mode+"_"+map[string]string{"https": "https", "http": "http", "HTTP": "http-uppercase", "http, https": "list", "gopher-ish garbage": "garbage"}[f.h.XFP], 1)
			}
		}
		flows += len(fl)
		vfParallel(len(fl), 16, func(i int) { fl[i].phase1() })
		time.Sleep(2200 * time.Millisecond) // let every session become older than --cookie-refresh=1s (workload only; no verdict depends on it)
		vfParallel(len(fl), 16, func(i int) { fl[i].phase2() })
		for _, f := range fl {
			if !f.ok {
				run.Inconclusive("flow could not be established")
				run.Sample(map[string]interface{}{"config": f.cfg.describe(), "host": f.h, "problem": f.note})
			}
		}
		w.Up.Reset()
	}
	run.Extra("flows", flows)
	run.Extra("domain_reading", "port ignored (longest configured domain that is a suffix of the request host without its port)")
	// the monitor must have seen every kind of cookie it guards
	need := []string{"domain_list_configurations", "requests_with_x_forwarded_proto", "flows_xfp_rp-on_http", "flows_xfp_rp-on_http-uppercase", "flows_xfp_rp-off_http", "spelling_variants", "spelling_accepted", "boundary_saves", "scenario_failing_callback_stale_csrf", "scenario_failing_callback_missing_csrf", "scenario_failing_callback_bad_state", "responses_status_403", "responses_status_500", "lines_csrf", "lines_csrf_deletion", "lines_session", "lines_session_deletion", "lines_split", "lines_split_deletion", "lines_ticket", "lines_ticket_deletion",
		"scenario_refresh_reissue", "scenario_refresh_reissue_large", "scenario_load_error_clearing", "scenario_authorisation_failure_clearing", "scenario_sign_out", "scenario_sign_out_large",
		"scenario_htpasswd_login", "scenario_relogin_expires_stale_parts", "domain_rule_longest", "domain_rule_fallback", "domain_rule_none", "deletions_matching_held_cookie"}
	for _, k := range need {
		if run.Counter(k) == 0 {
			fmt.Printf("INCONCLUSIVE property=C18 reason=the monitor saw no event of kind %s\n", k)
			t.Fail()
		}
	}
	run.RaceCheck("")
	run.Finish(int64(run.Env.Pick(9500, 180000)), run.Env.Pick(1300, 7500))
}
