//go:build verif

package main

// C20 — Credential and allow-list files reload atomically and race-free (part 2: through the full proxy).
//
// The htpasswd file and the authenticated-e-mails file are replaced atomically (write temp + rename) while 2-16
// goroutines validate — through real proxy requests (Basic credentials -> session loader -> Validate; session e-mail
// -> Validator) and through the instance's own validator functions. The reload is triggered by the repository's
// fsnotify watcher, so its completion is not observable: writes stay open to the end of the history.
// Oracles: (1) the race log (reports with a frame in htpasswd.go / validator.go / watcher.go are violations; this also
// covers the package-basic half, whose process writes into the same log directory); (2) every answer must be
// explained by a version that was live during the call: version installed <= newest replaced before the return,
// and >= the newest version already OBSERVED (by any validator) before the call — that is register linearizability with
// open writes plus real-time monotonicity; (3) invariant probes (present with the same password in all versions /
// absent from all); (4) a version that fails to parse changes no answer; (5) bounded progress: every well-formed
// version becomes visible within a generous bound, violated only if >= 3 consecutive replacements stay invisible.
// Part 1 (direct, overlapping reload calls, porcupine) runs inside pkg/authentication/basic (harness_basic/).

import (
	"encoding/base64"
	"encoding/json"
	"fmt"
	"os"
	"path/filepath"
	"strconv"
	"strings"
	"sync"
	"sync/atomic"
	"testing"
	"time"
)

const c20N = 24

func c20Bad(k int) bool { return k%3 == 0 }
func c20Eff(k int) int {
	for k > 0 && c20Bad(k) {
		k--
	}
	return k
}

func c20Htpasswd(k int) string {
	if c20Bad(k) {
		switch (k / 3) % 3 {
		case 0:
			return "always:" + vfHtpasswdSHA("always-pw") + "\nbroken:record:with:fields\n"
		case 1:
			return "always:" + vfHtpasswdSHA("always-pw") + "\n\"unterminated:" + vfHtpasswdSHA("x") + "\n"
		default:
			return ""
		}
	}
	s := "always:" + vfHtpasswdSHA("always-pw") + "\n"
	for j := 1; j <= k; j++ {
		if !c20Bad(j) {
			s += fmt.Sprintf("grow-%d:%s\n", j, vfHtpasswdSHA("g"))
		}
	}
	for j := k + 1; j <= c20N; j++ {
		s += fmt.Sprintf("shrink-%d:%s\n", j, vfHtpasswdSHA("s"))
	}
	return s + fmt.Sprintf("vuser:%s\n", vfHtpasswdSHA("pw-"+strconv.Itoa(k)))
}

// e-mail file: only a csv parse error is a failed parse; written with case / space variants
func c20Emails(k int) string {
	if c20Bad(k) {
		return "always@example.com\n\"unterminated@example.com\n"
	}
	s := "Always@Example.com\n"
	for j := 1; j <= k; j++ {
		if !c20Bad(j) {
			s += fmt.Sprintf("  grow-%d@example.com\n", j)
		}
	}
	for j := k + 1; j <= c20N; j++ {
		s += fmt.Sprintf("shrink-%d@example.com\n", j)
	}
	return s + fmt.Sprintf("vuser-%d@example.com\n", k)
}

// c20Probe: a question whose answer, as a function of the installed version v (effective), is monotone or version-specific.
type c20Probe struct {
	Kind string // always | never | grow | shrink | vuser
	K    int
}

func (p c20Probe) truth(v int) bool {
	v = c20Eff(v)
	switch p.Kind {
	case "always":
		return true
	case "never":
		return false
	case "grow":
		return !c20Bad(p.K) && p.K <= v
	case "shrink":
		return p.K > v
	case "vuser":
		return p.K == v
	}
	return false
}

// versions (effective) consistent with an answer, within [lo,hi]
func (p c20Probe) consistent(ans bool, lo, hi int) (int, int, bool) {
	first, last := -1, -1
	for v := lo; v <= hi; v++ {
		if c20Bad(v) {
			continue
		}
		if p.truth(v) == ans {
			if first < 0 {
				first = v
			}
			last = v
		}
	}
	return first, last, first >= 0
}

type c20Obs struct {
	Call, Ret int64
	Probe     c20Probe
	Ans       bool
	Via       string
	WrittenAtRet int // newest version replaced on disk before the return
	SeenAtCall   int // newest version some validator had provably observed before the call
}

type c20Target struct {
	name     string
	path     string
	content  func(k int) string
	ask      func(p c20Probe, viaHTTP bool) (bool, bool) // answer, ok
}

func c20WriteFile(path, content string, n int) error {
	tmp := fmt.Sprintf("%s.tmp%d", path, n)
	if err := os.WriteFile(tmp, []byte(content), 0o600); err != nil {
		return err
	}
	return os.Rename(tmp, path)
}

func TestVerif_C20(t *testing.T) {
	run := vfNewRun(t, "C20", "exploration")
	run.SetRule("file versions v1..vN (entries added, removed, password changed; every third version malformed in 3 ways) replaced atomically by a writer while 2-16 validators ask version-discriminating probes through real proxy requests and the instance's validator; " +
		"plus (package basic) direct overlapping reload calls checked with porcupine. cell = (file kind, #validators, probe kind, answer, via) ; non-trivial = the validation overlapped or followed a replacement")
	run.Assume("fsnotify delivers events for atomic renames (completion of a reload is unobservable: writes are open-ended)", "porcupine v1.3.0 for the direct-call histories")
	w := vfNewWorld(t)
	defer w.Close()
	rounds := run.Env.Pick(3, 20)
	for r := 0; r < rounds; r++ {
		nVal := []int{2, 4, 8, 16}[(r+int(run.Env.Seed))%4]
		c20Round(run, w, r, nVal)
	}
	// merge the package-basic half
	if b, err := os.ReadFile(filepath.Join(run.Env.WorkDir, "c20_basic.json")); err == nil {
		var rep map[string]interface{}
		if json.Unmarshal(b, &rep) == nil {
			run.Extra("basic_half", rep)
			if n, ok := rep["operations"].(float64); ok {
				run.Count("basic_half_operations", int64(n))
			}
			if n, ok := rep["porcupine_unknown"].(float64); ok && n > 0 {
				run.Inconclusive("porcupine timed out on a history")
			}
			if n, ok := rep["histories"].(float64); ok {
				for i := 0; i < int(n); i++ {
					run.Eval(fmt.Sprintf("basic|porcupine-history-%d", i))
				}
			}
		}
	} else {
		fmt.Printf("INCONCLUSIVE property=C20 reason=the package-basic half did not leave its report (%v)\n", err)
		t.Fail()
	}
	run.RaceCheck("c20:data-race", "pkg/authentication/basic/htpasswd.go", "/repo/validator.go", "pkg/watcher/watcher.go")
	run.Finish(2000, 20)
}

func c20Round(run *vfRun, w *vfWorld, r, nVal int) {
	htp := filepath.Join(w.Dir, fmt.Sprintf("htpasswd-%d", r))
	emf := filepath.Join(w.Dir, fmt.Sprintf("emails-%d", r))
	_ = c20WriteFile(htp, c20Htpasswd(1), 0)
	_ = c20WriteFile(emf, c20Emails(1), 0)
	p, err := w.NewProxy("--htpasswd-file="+htp, "--authenticated-emails-file="+emf, "--email-domain=nomatch.invalid")
	if err != nil {
		run.T.Fatalf("round %d: %v", r, err)
	}
	// sessions with the probe e-mails (real store) for the HTTP channel
	t0 := time.Now()
	now := func() int64 { return time.Since(t0).Nanoseconds() }
	targets := []*c20Target{
		{name: "htpasswd", path: htp, content: c20Htpasswd, ask: func(pr c20Probe, viaHTTP bool) (bool, bool) {
			user, pw := "", ""
			switch pr.Kind {
			case "always":
				user, pw = "always", "always-pw"
			case "never":
				user, pw = "never", "x"
			case "grow":
				user, pw = fmt.Sprintf("grow-%d", pr.K), "g"
			case "shrink":
				user, pw = fmt.Sprintf("shrink-%d", pr.K), "s"
			case "vuser":
				user, pw = "vuser", "pw-"+strconv.Itoa(pr.K)
			}
			if !viaHTTP {
				return p.P.basicAuthValidator.Validate(user, pw), true
			}
			resp := p.Do(vfGET("/oauth2/auth").H("Authorization", "Basic "+base64.StdEncoding.EncodeToString([]byte(user+":"+pw))))
			if resp.Code != 202 && resp.Code != 401 {
				return false, false
			}
			return resp.Code == 202, true
		}},
		{name: "emails", path: emf, content: c20Emails, ask: func(pr c20Probe, viaHTTP bool) (bool, bool) {
			e := ""
			switch pr.Kind {
			case "always":
				e = "always@example.com"
			case "never":
				e = "never@example.com"
			case "grow":
				e = fmt.Sprintf("GROW-%d@example.com", pr.K)
			case "shrink":
				e = fmt.Sprintf("shrink-%d@example.com", pr.K)
			case "vuser":
				e = fmt.Sprintf("vuser-%d@example.com", pr.K)
			}
			return p.P.Validator(e), true
		}},
	}
	for _, tg := range targets {
		var mu sync.Mutex
		var obs []c20Obs
		var written int32 = 1  // newest version replaced on disk
		var seen int32 = 1     // newest effective version provably observed by some validator (monotone)
		var stop int32
		var wg sync.WaitGroup
		for vI := 0; vI < nVal; vI++ {
			wg.Add(1)
			go func(vI int) {
				defer wg.Done()
				n := 0
				for atomic.LoadInt32(&stop) == 0 {
					k := int(atomic.LoadInt32(&written))
					var pr c20Probe
					switch (n + vI) % 8 {
					case 0:
						pr = c20Probe{"always", 0}
					case 1:
						pr = c20Probe{"never", 0}
					case 2, 3:
						pr = c20Probe{"vuser", c20Eff(k)}
					case 4:
						pr = c20Probe{"vuser", c20Eff(c20Eff(k) - 1)}
					case 5:
						pr = c20Probe{"grow", c20Eff(k)}
					case 6:
						pr = c20Probe{"shrink", c20Eff(k)}
					case 7:
						pr = c20Probe{"grow", c20Eff(c20Eff(k) - 1)}
					}
					n++
					viaHTTP := tg.name == "htpasswd" && n%4 == 0
					seenAtCall := int(atomic.LoadInt32(&seen))
					call := now()
					ans, ok := tg.ask(pr, viaHTTP)
					ret := now()
					writtenAtRet := int(atomic.LoadInt32(&written))
					if !ok {
						run.Inconclusive("unexpected HTTP status on the probe channel")
						continue
					}
					// what does this answer prove about the installed version? (lower bound for later calls)
					if lo, _, ok := pr.consistent(ans, 1, c20N); ok && lo > 1 {
						for {
							old := atomic.LoadInt32(&seen)
							if int32(lo) <= old || atomic.CompareAndSwapInt32(&seen, old, int32(lo)) {
								break
							}
						}
					}
					via := "direct"
					if viaHTTP {
						via = "http"
					}
					mu.Lock()
					obs = append(obs, c20Obs{Call: call, Ret: ret, Probe: pr, Ans: ans, Via: via, WrittenAtRet: writtenAtRet, SeenAtCall: seenAtCall})
					mu.Unlock()
					if n%32 == 0 {
						time.Sleep(100 * time.Microsecond)
					}
				}
			}(vI)
		}
		// writer: replace, then wait (bounded) until the version is visible
		invisibleRun, maxInvisibleRun := 0, 0
		for k := 2; k <= c20N; k++ {
			atomic.StoreInt32(&written, int32(k)) // upper bound first: from now on version k may be on disk and installed
			if err := c20WriteFile(tg.path, tg.content(k), k); err != nil {
				run.T.Fatalf("write: %v", err)
			}
			run.Count(tg.name+"_replacements", 1)
			if c20Bad(k) {
				time.Sleep(30 * time.Millisecond) // give the watcher time to try (and fail) to parse it
				continue
			}
			visible := false
			for tries := 0; tries < 400; tries++ { // up to ~2 s
				if ans, ok := tg.ask(c20Probe{"vuser", k}, false); ok && ans {
					visible = true
					break
				}
				time.Sleep(5 * time.Millisecond)
			}
			if visible {
				invisibleRun = 0
				run.Count(tg.name+"_versions_became_visible", 1)
			} else {
				invisibleRun++
				if invisibleRun > maxInvisibleRun {
					maxInvisibleRun = invisibleRun
				}
				run.Count(tg.name+"_versions_not_visible_within_bound", 1)
			}
		}
		atomic.StoreInt32(&stop, 1)
		wg.Wait()
		if maxInvisibleRun >= 3 {
			run.Violation("c20:reload-never-visible", fmt.Sprintf("%s: %d consecutive well-formed replacements never became visible within the bound (reload lost)", tg.name, maxInvisibleRun), map[string]interface{}{"flags": p.Flags, "file": tg.name})
		} else if maxInvisibleRun > 0 {
			run.Inconclusive("a replaced version did not become visible within the bound")
		}
		// judge the history
		for i := range obs {
			o := &obs[i]
			lo := c20Eff(o.SeenAtCall)
			if lo < 1 {
				lo = 1
			}
			hi := o.WrittenAtRet
			_, _, ok := o.Probe.consistent(o.Ans, lo, hi)
			overl := "quiet"
			if o.SeenAtCall != c20Eff(o.WrittenAtRet) {
				overl = "during-replacement"
			}
			run.Eval(fmt.Sprintf("%s|validators=%d|%s|ans=%v|%s|%s", tg.name, nVal, o.Probe.Kind, o.Ans, o.Via, overl))
			if !ok {
				sig := "c20:answer-explained-by-no-live-version"
				if o.Probe.Kind == "always" || o.Probe.Kind == "never" {
					sig = "c20:invariant-probe"
				}
				run.Violation(sig, fmt.Sprintf("%s: probe %s(%d) answered %v via %s, but every well-formed version in [%d..%d] (observed-before-call .. replaced-before-return) says otherwise", tg.name, o.Probe.Kind, o.Probe.K, o.Ans, o.Via, lo, hi),
					map[string]interface{}{"flags": p.Flags, "observation": o, "file_versions": "see c20Htpasswd/c20Emails(k)"})
			}
		}
		run.Count(tg.name+"_validations", int64(len(obs)))
		if len(obs) > 0 {
			run.Sample(map[string]interface{}{"file": tg.name, "validators": nVal, "validations": len(obs), "example": obs[len(obs)/2]})
		}
		_ = strings.TrimSpace
	}
}
