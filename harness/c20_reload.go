//go:build verif

package main

// C20 — Credential and allow-list files reload atomically and race-free (part 2: through the full proxy).
//
// The htpasswd file and the authenticated-e-mails file are replaced atomically (write temp + rename) while 2-16
// goroutines validate — through real proxy requests (Basic credentials -> session loader -> Validate; session e-mail
// -> Validator) and through the instance's own validator functions. The reload is triggered by the repository's
// fsnotify watcher, so its completion is not observable: writes stay open to the end of the history.
// Oracles: (1) the race log (reports with a frame in htpasswd.go / validator.go / watcher.go are violations; this also
// covers the package-basic half, whose process writes into the same log directory); (2) every answer must be
// explained by a version that was live during the call: version installed <= newest replaced before the return,
// and >= the newest version already OBSERVED (by any validator) before the call — that is register linearizability with
// open writes plus real-time monotonicity; (3) invariant probes (present with the same password in all versions /
// absent from all); (4) a version that fails to parse changes no answer; (5) bounded progress: every well-formed
// version becomes visible within a generous bound, violated only if >= 3 consecutive replacements stay invisible.
// Part 1 (direct, overlapping reload calls, porcupine) runs inside pkg/authentication/basic (harness_basic/).

import (
	"crypto/sha1"
	"runtime"
	"encoding/base64"
	"encoding/json"
	"fmt"
	"os"
	"path/filepath"
	"strconv"

	"golang.org/x/crypto/bcrypt"
	"strings"
	"sync"
	"sync/atomic"
	"testing"
	"time"
)

const c20N = 42       // versions 2..24: one at a time (wait until visible); 25..42: bursts of three rapid replacements (big, small, small)
const c20Regular = 24

func c20Bad(k int) bool { return k%3 == 0 }
func c20Eff(k int) int {
	for k > 0 && c20Bad(k) {
		k--
	}
	return k
}

func c20Htpasswd(k int) string {
	if c20Bad(k) {
		switch (k / 3) % 4 {
		case 3:
			// a stray double quote at the START of a password field in the middle of the file (round 8): a csv parse error; a
			// lenient reader would swallow the rest of the file into that field and load a map that is neither old nor new
			return "always:" + vfHtpasswdSHA("always-pw") + "\nquoted:\"" + vfHtpasswdSHA("q") + "\nafter-a:" + vfHtpasswdSHA("a") + "\nafter-b:" + vfHtpasswdSHA("b") + "\n"
		case 0:
			return "always:" + vfHtpasswdSHA("always-pw") + "\nbroken:record:with:fields\n"
		case 1:
			return "always:" + vfHtpasswdSHA("always-pw") + "\n\"unterminated:" + vfHtpasswdSHA("x") + "\n"
		default:
			return ""
		}
	}
	s := "always:" + vfHtpasswdSHA("always-pw") + "\n"
	for j := 1; j <= k; j++ {
		if !c20Bad(j) {
			s += fmt.Sprintf("grow-%d:%s\n", j, vfHtpasswdSHA("g"))
		}
	}
	for j := k + 1; j <= c20N; j++ {
		s += fmt.Sprintf("shrink-%d:%s\n", j, vfHtpasswdSHA("s"))
	}
	s += c20Pad(k, "pad-%d:"+vfHtpasswdSHA("p")+"\n")
	// vuser's password changes with every version and is a BCRYPT entry (slow verification outside the lock: a validation
	// with the old password that is in flight during the swap must not make the old password valid afterwards)
	return s + fmt.Sprintf("vuser:%s\n", c20Bcrypt(k))
}

var (
	c20BcryptOnce sync.Once
	c20BcryptTab  []string
)

func c20Bcrypt(k int) string {
	c20BcryptOnce.Do(func() {
		c20BcryptTab = make([]string, c20N+1)
		for i := range c20BcryptTab {
			h, _ := bcrypt.GenerateFromPassword([]byte("pw-"+strconv.Itoa(i)), bcrypt.MinCost)
			c20BcryptTab[i] = string(h)
		}
	})
	return c20BcryptTab[k]
}

// c20Pad: the first version of every burst is BIG (slow to parse), so that a reload of it which is not serialised
// with the following ones finishes last and would publish a stale version.
func c20Pad(k int, format string) string {
	if k <= c20Regular || (k-c20Regular)%3 != 2 {
		return ""
	}
	var b strings.Builder
	for i := 0; i < 40000; i++ {
		fmt.Fprintf(&b, format, i)
	}
	return b.String()
}

// e-mail file: only a csv parse error is a failed parse; written with case / space variants
func c20Emails(k int) string {
	if c20Bad(k) {
		return "always@example.com\n\"unterminated@example.com\n"
	}
	s := "Always@Example.com\n"
	for j := 1; j <= k; j++ {
		if !c20Bad(j) {
			s += fmt.Sprintf("  grow-%d@example.com\n", j)
		}
	}
	for j := k + 1; j <= c20N; j++ {
		s += fmt.Sprintf("shrink-%d@example.com\n", j)
	}
	s += c20Pad(k, "pad-%d@example.com\n")
	return s + fmt.Sprintf("vuser-%d@example.com\n", k)
}

// c20Probe: a question whose answer, as a function of the installed version v (effective), is monotone or version-specific.
type c20Probe struct {
	Kind string // always | never | grow | shrink | vuser
	K    int
}

func (p c20Probe) truth(v int) bool {
	v = c20Eff(v)
	switch p.Kind {
	case "always":
		return true
	case "never":
		return false
	case "grow":
		return !c20Bad(p.K) && p.K <= v
	case "shrink":
		return p.K > v
	case "vuser":
		return p.K == v
	}
	return false
}

// versions (effective) consistent with an answer, within [lo,hi]
func (p c20Probe) consistent(ans bool, lo, hi int) (int, int, bool) {
	first, last := -1, -1
	for v := lo; v <= hi; v++ {
		if c20Bad(v) {
			continue
		}
		if p.truth(v) == ans {
			if first < 0 {
				first = v
			}
			last = v
		}
	}
	return first, last, first >= 0
}

type c20Obs struct {
	Call, Ret int64
	Probe     c20Probe
	Ans       bool
	Via       string
	WrittenAtRet int // newest version replaced on disk before the return
	SeenAtCall   int // newest version some validator had provably observed before the call
}

type c20Target struct {
	name     string
	path     string
	content  func(k int) string
	ask      func(p c20Probe, viaHTTP bool) (bool, bool) // answer, ok
}

func c20WriteFile(path, content string, n int) error {
	tmp := fmt.Sprintf("%s.tmp%d", path, n)
	if err := os.WriteFile(tmp, []byte(content), 0o600); err != nil {
		return err
	}
	// every other replacement arrives with a modification time OLDER than (n odd) or equal to (n%4 == 0) the file it
	// replaces, as `mv` of a prepared copy, `rsync -t`, `cp -p` or a restore from backup produce
	if st, err := os.Stat(path); err == nil {
		switch {
		case n%2 == 1:
			old := st.ModTime().Add(-time.Duration(n+1) * time.Hour)
			_ = os.Chtimes(tmp, old, old)
		case n%4 == 0:
			_ = os.Chtimes(tmp, st.ModTime(), st.ModTime())
		}
	}
	return os.Rename(tmp, path)
}

// progress monitor: every completed validation / reload-visible probe bumps c20Progress. If, while a round is active, the
// counter stands still for 2000 consecutive heartbeats of a goroutine of THIS process (each >= 10 ms: the process was
// being scheduled for >= 20 s) no validator and no reloader completed anything: validators and reloader block each other.
var c20Progress, c20Active int64

func c20Watch(run *vfRun) {
	go func() {
		last, still := int64(-1), 0
		for {
			time.Sleep(10 * time.Millisecond)
			if atomic.LoadInt64(&c20Active) == 0 {
				still = 0
				continue
			}
			if cur := atomic.LoadInt64(&c20Progress); cur != last {
				last, still = cur, 0
				continue
			}
			still++
			if still == 2000 {
				buf := make([]byte, 1<<20)
				buf = buf[:runtime.Stack(buf, true)]
				run.Violation("c20:validators-and-reload-block-each-other", fmt.Sprintf("no validation and no reload completed during 2000 heartbeats (>= 20 s of this process running) after %d completed operations: validations and the reload are deadlocked", last),
					map[string]interface{}{"goroutines": string(buf)})
				run.Finish(0, 0)
				os.Exit(1)
			}
		}
	}()
}

// c20EventStorm (own instance and files, runs next to the rounds): tens of thousands of content-preserving events (chmod
// toggles alternating with a one-byte overwrite of the first byte by itself) hit each watched file within ~100 ms — far
// more than the kernel's inotify queue holds (fs.inotify.max_queued_events = 16384), so once the backlog has drained the
// watcher is handed a queue-overflow error. The watch must survive that: for `span` afterwards a new version is written
// every 400 ms and each must come into force. These versions are written IN PLACE (same inode): while the queue is full
// the kernel drops new events, and a dropped rename event would leave any inotify-based watcher on the replaced inode —
// that loss is the kernel's, not the watcher's, and is deliberately not provoked here.
func c20EventStorm(run *vfRun, w *vfWorld, span time.Duration) {
	htp := filepath.Join(w.Dir, "htpasswd-storm")
	emf := filepath.Join(w.Dir, "emails-storm")
	_ = os.WriteFile(htp, []byte(c20Htpasswd(1)), 0o600)
	_ = os.WriteFile(emf, []byte(c20Emails(1)), 0o600)
	p, err := w.NewProxy("--htpasswd-file="+htp, "--authenticated-emails-file="+emf, "--email-domain=nomatch.invalid")
	if err != nil {
		run.Inconclusive("rig: event-storm instance: " + vfTrunc(err.Error(), 60))
		return
	}
	type target struct {
		name, path string
		content    func(int) string
		visible    func(v int) bool
	}
	targets := []target{
		{"htpasswd", htp, c20Htpasswd, func(v int) bool { return p.P.basicAuthValidator.Validate("vuser", "pw-"+strconv.Itoa(v)) }},
		{"emails", emf, c20Emails, func(v int) bool { return p.P.Validator(fmt.Sprintf("vuser-%d@example.com", v)) }},
	}
	var wg sync.WaitGroup
	for _, tg := range targets {
		wg.Add(1)
		go func(tg target) {
			defer wg.Done()
			events := 0
			if f, err := os.OpenFile(tg.path, os.O_WRONLY, 0); err == nil {
				first := []byte{tg.content(1)[0]}
				for i := 0; i < 30000; i++ {
					_ = os.Chmod(tg.path, []os.FileMode{0o600, 0o640}[i%2])
					_, _ = f.WriteAt(first, 0)
					events += 2
				}
				f.Close()
			}
			run.Count(tg.name+"_event_storm_events", int64(events))
			t0 := time.Now()
			written := 0
			var maxLat time.Duration
			for k := 0; time.Since(t0) < span; k++ {
				v := []int{5, 7}[k%2]
				if err := os.WriteFile(tg.path, []byte(tg.content(v)), 0o600); err != nil {
					return
				}
				written++
				vis := false
				tw := time.Now()
				for tries := 0; tries < 2000; tries++ { // up to ~10 s
					if tg.visible(v) {
						vis = true
						break
					}
					time.Sleep(5 * time.Millisecond)
				}
				if !vis {
					run.Violation("c20:watch-lost-after-event-storm", fmt.Sprintf("%s: %d content-preserving events arrived in one burst (inotify queue overflow); %v later in-place rewrite #%d (version %d) never came into force (10 s): the file is no longer watched", tg.name, events, time.Since(t0).Round(time.Second), written, v),
						map[string]interface{}{"flags": p.Flags, "file": tg.name, "events": events, "replacements_that_were_loaded": written - 1})
					return
				}
				if d := time.Since(tw); d > maxLat {
					maxLat = d
				}
				time.Sleep(400 * time.Millisecond)
			}
			fmt.Printf("NOTE C20 event storm: %s: %d events, %d in-place rewrites over %v afterwards all loaded, slowest after %v\n", tg.name, events, written, span, maxLat.Round(time.Millisecond))
			run.Eval(fmt.Sprintf("%s|event storm (%d events), %d replacements over %v afterwards|all loaded", tg.name, events, written, span))
			run.Count(tg.name+"_replacements_loaded_after_event_storm", int64(written))
		}(tg)
	}
	wg.Wait()
}

// c20ConfigMapAndLarge (own instance, next to the rounds): (a) both files are reached the way Kubernetes mounts a ConfigMap /
// Secret — <dir>/<file> -> ..data/<file>, ..data -> ..<version>/ — and updated by swapping the ..data link and removing
// the old version directory: every new version, and the one after it, must come into force; (b) a version larger than
// 1 MiB (30 000 entries) must be loaded completely: its LAST entry is valid, and so is the version after it.
func c20ConfigMapAndLarge(run *vfRun, w *vfWorld) {
	dir := filepath.Join(w.Dir, "cm")
	_ = os.MkdirAll(dir, 0o755)
	writeVersion := func(v int) error {
		vd := filepath.Join(dir, fmt.Sprintf("..v%d", v))
		if err := os.MkdirAll(vd, 0o755); err != nil {
			return err
		}
		if err := os.WriteFile(filepath.Join(vd, "htpasswd"), []byte(c20Htpasswd(v)), 0o600); err != nil {
			return err
		}
		return os.WriteFile(filepath.Join(vd, "emails"), []byte(c20Emails(v)), 0o600)
	}
	swap := func(v int) error {
		tmp := filepath.Join(dir, "..data_tmp")
		_ = os.Remove(tmp)
		if err := os.Symlink(fmt.Sprintf("..v%d", v), tmp); err != nil {
			return err
		}
		return os.Rename(tmp, filepath.Join(dir, "..data"))
	}
	if writeVersion(1) != nil || swap(1) != nil || os.Symlink("..data/htpasswd", filepath.Join(dir, "htpasswd")) != nil || os.Symlink("..data/emails", filepath.Join(dir, "emails")) != nil {
		run.Inconclusive("rig: ConfigMap layout could not be created")
		return
	}
	p, err := w.NewProxy("--htpasswd-file="+filepath.Join(dir, "htpasswd"), "--authenticated-emails-file="+filepath.Join(dir, "emails"), "--email-domain=nomatch.invalid")
	if err != nil {
		run.Inconclusive("rig: ConfigMap instance: " + vfTrunc(err.Error(), 60))
		return
	}
	visible := map[string]func(v int) bool{
		"htpasswd": func(v int) bool { return p.P.basicAuthValidator.Validate("vuser", "pw-"+strconv.Itoa(v)) },
		"emails":   func(v int) bool { return p.P.Validator(fmt.Sprintf("vuser-%d@example.com", v)) },
	}
	wait := func(f func() bool) bool {
		for tries := 0; tries < 1000; tries++ { // up to ~5 s
			if f() {
				return true
			}
			time.Sleep(5 * time.Millisecond)
		}
		return false
	}
	prev := 1
	for _, v := range []int{2, 4, 5} {
		if writeVersion(v) != nil || swap(v) != nil {
			run.Inconclusive("rig: ConfigMap swap failed")
			return
		}
		_ = os.RemoveAll(filepath.Join(dir, fmt.Sprintf("..v%d", prev)))
		prev = v
		for name, vis := range visible {
			run.Eval(fmt.Sprintf("%s|ConfigMap layout (symlink swap)|version %d", name, v))
			if !wait(func() bool { return vis(v) }) {
				run.Violation("c20:symlinked-file-never-reloaded", fmt.Sprintf("%s reached through a ConfigMap-style symlink: after the ..data link was swapped to version %d (old version directory removed) the new contents never came into force (5 s)", name, v),
					map[string]interface{}{"flags": p.Flags, "file": name, "version": v})
				return
			}
			run.Count(name+"_configmap_swaps_loaded", 1)
		}
	}
	// (b) large versions, plain files on a second instance
	htp := filepath.Join(w.Dir, "htpasswd-large")
	emf := filepath.Join(w.Dir, "emails-large")
	_ = os.WriteFile(htp, []byte(c20Htpasswd(1)), 0o600)
	_ = os.WriteFile(emf, []byte(c20Emails(1)), 0o600)
	p2, err := w.NewProxy("--htpasswd-file="+htp, "--authenticated-emails-file="+emf, "--email-domain=nomatch.invalid")
	if err != nil {
		run.Inconclusive("rig: large-file instance: " + vfTrunc(err.Error(), 60))
		return
	}
	var hb, eb strings.Builder
	hb.WriteString("always:" + c20SHAOf("always-pw") + "\n")
	eb.WriteString("always@example.com\n")
	for i := 0; i < 30000; i++ {
		fmt.Fprintf(&hb, "large-user-%05d:%s\n", i, c20SHAOf("x"))
		fmt.Fprintf(&eb, "large-user-%05d-with-a-long-local-part@example.com\n", i)
	}
	hb.WriteString("zz-last:" + c20SHAOf("last-pw") + "\n")
	eb.WriteString("zz-last@example.com\n")
	_ = c20WriteFile(htp, hb.String(), 9001)
	_ = c20WriteFile(emf, eb.String(), 9001)
	run.Count("large_version_bytes_htpasswd", int64(hb.Len()))
	run.Count("large_version_bytes_emails", int64(eb.Len()))
	for name, f := range map[string]func() bool{
		"htpasswd": func() bool { return p2.P.basicAuthValidator.Validate("zz-last", "last-pw") && p2.P.basicAuthValidator.Validate("large-user-29999", "x") },
		"emails":   func() bool { return p2.P.Validator("zz-last@example.com") && p2.P.Validator("large-user-29999-with-a-long-local-part@example.com") },
	} {
		run.Eval(fmt.Sprintf("%s|version larger than 1 MiB|complete", name))
		if !wait(f) {
			run.Violation("c20:large-version-not-loaded-completely", fmt.Sprintf("%s: a well-formed version of more than 1 MiB (30 002 entries) was installed; 5 s later its last entries are not valid (version truncated or refused)", name),
				map[string]interface{}{"flags": p2.Flags, "file": name})
		} else {
			run.Count(name+"_large_version_loaded", 1)
		}
	}
}

func c20SHAOf(pw string) string {
	h := sha1.Sum([]byte(pw))
	return "{SHA}" + base64.StdEncoding.EncodeToString(h[:])
}

func TestVerif_C20(t *testing.T) {
	run := vfNewRun(t, "C20", "exploration")
	c20Watch(run)
	run.SetRule("file versions v1..vN (entries added, removed, password changed; every third version malformed in 3 ways) replaced atomically by a writer while 2-16 validators ask version-discriminating probes through real proxy requests and the instance's validator; " +
		"plus (package basic) direct overlapping reload calls checked with porcupine. cell = (file kind, #validators, probe kind, answer, via) ; non-trivial = the validation overlapped or followed a replacement")
	run.Assume("fsnotify delivers events for atomic renames (completion of a reload is unobservable: writes are open-ended)", "porcupine v1.3.0 for the direct-call histories")
	w := vfNewWorld(t)
	defer w.Close()
	stormDone := make(chan struct{})
	go func() {
		defer close(stormDone)
		c20ConfigMapAndLarge(run, w)
		c20EventStorm(run, w, time.Duration(run.Env.Pick(25, 90))*time.Second)
	}()
	rounds := run.Env.Pick(3, 20)
	for r := 0; r < rounds; r++ {
		nVal := []int{2, 4, 8, 16}[(r+int(run.Env.Seed))%4]
		c20Round(run, w, r, nVal)
	}
	<-stormDone
	// merge the package-basic half
	if b, err := os.ReadFile(filepath.Join(run.Env.WorkDir, "c20_basic.json")); err == nil {
		var rep map[string]interface{}
		if json.Unmarshal(b, &rep) == nil {
			run.Extra("basic_half", rep)
			if n, ok := rep["operations"].(float64); ok {
				run.Count("basic_half_operations", int64(n))
			}
			if n, ok := rep["porcupine_unknown"].(float64); ok && n > 0 {
				run.Inconclusive("porcupine timed out on a history")
			}
			if n, ok := rep["histories"].(float64); ok {
				for i := 0; i < int(n); i++ {
					run.Eval(fmt.Sprintf("basic|porcupine-history-%d", i))
				}
			}
		}
	} else {
		fmt.Printf("INCONCLUSIVE property=C20 reason=the package-basic half did not leave its report (%v)\n", err)
		t.Fail()
	}
	run.RaceCheck("c20:data-race", "pkg/authentication/basic/htpasswd.go", "/repo/validator.go", "pkg/watcher/watcher.go")
	run.Finish(2000, 20)
}

func c20Round(run *vfRun, w *vfWorld, r, nVal int) {
	atomic.StoreInt64(&c20Active, 1)
	defer atomic.StoreInt64(&c20Active, 0)
	htp := filepath.Join(w.Dir, fmt.Sprintf("htpasswd-%d", r))
	emf := filepath.Join(w.Dir, fmt.Sprintf("emails-%d", r))
	_ = c20WriteFile(htp, c20Htpasswd(1), 0)
	_ = c20WriteFile(emf, c20Emails(1), 0)
	p, err := w.NewProxy("--htpasswd-file="+htp, "--authenticated-emails-file="+emf, "--email-domain=nomatch.invalid")
	if err != nil {
		run.T.Fatalf("round %d: %v", r, err)
	}
	// sessions with the probe e-mails (real store) for the HTTP channel
	t0 := time.Now()
	now := func() int64 { return time.Since(t0).Nanoseconds() }
	targets := []*c20Target{
		{name: "htpasswd", path: htp, content: c20Htpasswd, ask: func(pr c20Probe, viaHTTP bool) (bool, bool) {
			user, pw := "", ""
			switch pr.Kind {
			case "always":
				user, pw = "always", "always-pw"
			case "never":
				user, pw = "never", "x"
			case "grow":
				user, pw = fmt.Sprintf("grow-%d", pr.K), "g"
			case "shrink":
				user, pw = fmt.Sprintf("shrink-%d", pr.K), "s"
			case "vuser":
				user, pw = "vuser", "pw-"+strconv.Itoa(pr.K)
			}
			if !viaHTTP {
				return p.P.basicAuthValidator.Validate(user, pw), true
			}
			resp := p.Do(vfGET("/oauth2/auth").H("Authorization", "Basic "+base64.StdEncoding.EncodeToString([]byte(user+":"+pw))))
			if resp.Code != 202 && resp.Code != 401 {
				return false, false
			}
			return resp.Code == 202, true
		}},
		{name: "emails", path: emf, content: c20Emails, ask: func(pr c20Probe, viaHTTP bool) (bool, bool) {
			e := ""
			switch pr.Kind {
			case "always":
				e = "always@example.com"
			case "never":
				e = "never@example.com"
			case "grow":
				e = fmt.Sprintf("GROW-%d@example.com", pr.K)
			case "shrink":
				e = fmt.Sprintf("shrink-%d@example.com", pr.K)
			case "vuser":
				e = fmt.Sprintf("vuser-%d@example.com", pr.K)
			}
			return p.P.Validator(e), true
		}},
	}
	for _, tg := range targets {
		var mu sync.Mutex
		var obs []c20Obs
		var written int32 = 1  // newest version replaced on disk
		var seen int32 = 1     // newest effective version provably observed by some validator (monotone)
		var stop int32
		var wg sync.WaitGroup
		for vI := 0; vI < nVal; vI++ {
			wg.Add(1)
			go func(vI int) {
				defer wg.Done()
				n := 0
				for atomic.LoadInt32(&stop) == 0 {
					k := int(atomic.LoadInt32(&written))
					var pr c20Probe
					switch (n + vI) % 8 {
					case 0:
						pr = c20Probe{"always", 0}
					case 1:
						pr = c20Probe{"never", 0}
					case 2, 3:
						pr = c20Probe{"vuser", c20Eff(k)}
					case 4:
						pr = c20Probe{"vuser", c20Eff(c20Eff(k) - 1)}
					case 5:
						pr = c20Probe{"grow", c20Eff(k)}
					case 6:
						pr = c20Probe{"shrink", c20Eff(k)}
					case 7:
						pr = c20Probe{"grow", c20Eff(c20Eff(k) - 1)}
					}
					n++
					viaHTTP := tg.name == "htpasswd" && n%4 == 0
					seenAtCall := int(atomic.LoadInt32(&seen))
					call := now()
					ans, ok := tg.ask(pr, viaHTTP)
					atomic.AddInt64(&c20Progress, 1)
					ret := now()
					writtenAtRet := int(atomic.LoadInt32(&written))
					if !ok {
						run.Inconclusive("unexpected HTTP status on the probe channel")
						continue
					}
					// what does this answer prove about the installed version? (lower bound for later calls)
					if lo, _, ok := pr.consistent(ans, 1, c20N); ok && lo > 1 {
						for {
							old := atomic.LoadInt32(&seen)
							if int32(lo) <= old || atomic.CompareAndSwapInt32(&seen, old, int32(lo)) {
								break
							}
						}
					}
					via := "direct"
					if viaHTTP {
						via = "http"
					}
					mu.Lock()
					obs = append(obs, c20Obs{Call: call, Ret: ret, Probe: pr, Ans: ans, Via: via, WrittenAtRet: writtenAtRet, SeenAtCall: seenAtCall})
					mu.Unlock()
					time.Sleep(150 * time.Microsecond) // bounds the history size; the interesting windows are milliseconds wide
				}
			}(vI)
		}
		// writer: replace, then wait (bounded) until the version is visible
		invisibleRun, maxInvisibleRun := 0, 0
		for k := 2; k <= c20Regular; k++ {
			atomic.StoreInt32(&written, int32(k)) // upper bound first: from now on version k may be on disk and installed
			if err := c20WriteFile(tg.path, tg.content(k), k); err != nil {
				run.T.Fatalf("write: %v", err)
			}
			run.Count(tg.name+"_replacements", 1)
			if c20Bad(k) {
				time.Sleep(30 * time.Millisecond) // give the watcher time to try (and fail) to parse it
				continue
			}
			visible := false
			for tries := 0; tries < 400; tries++ { // up to ~2 s
				if ans, ok := tg.ask(c20Probe{"vuser", k}, false); ok && ans {
					visible = true
					break
				}
				time.Sleep(5 * time.Millisecond)
			}
			if visible {
				invisibleRun = 0
				run.Count(tg.name+"_versions_became_visible", 1)
			} else {
				invisibleRun++
				if invisibleRun > maxInvisibleRun {
					maxInvisibleRun = invisibleRun
				}
				run.Count(tg.name+"_versions_not_visible_within_bound", 1)
			}
		}
		// bursts: three replacements in rapid succession (big, small, small) without waiting in between; after the burst
		// the LAST version must come into force: a stale version that stays in force means an older reload finished
		// (published) after a newer one
		stuck := 0
		for k := c20Regular + 2; k+2 <= c20N; k += 3 { // (26,27,28), (29,30,31), ...: big, malformed, small — the last one is well-formed
			last := k + 2
			atomic.StoreInt32(&written, int32(k+2))
			for j := k; j <= k+2; j++ {
				if err := c20WriteFile(tg.path, tg.content(j), j); err != nil {
					run.T.Fatalf("write: %v", err)
				}
				run.Count(tg.name+"_burst_replacements", 1)
				time.Sleep(8 * time.Millisecond) // long enough for the watcher to START reloading this version, far shorter than parsing the big one
			}
			visible := false
			for tries := 0; tries < 600; tries++ { // up to ~3 s of quiescence
				if ans, ok := tg.ask(c20Probe{"vuser", last}, false); ok && ans {
					visible = true
					break
				}
				time.Sleep(5 * time.Millisecond)
			}
			if visible {
				// settle window: nothing is replaced now; the last version, once in force, must stay in force
				// (a reload of an OLDER version that completes late must not overwrite it)
				time.Sleep(400 * time.Millisecond)
				if ans, ok := tg.ask(c20Probe{"vuser", last}, false); ok && !ans {
					run.Violation("c20:newer-version-replaced-by-stale-one", fmt.Sprintf("%s: version %d was in force after the burst, and 400 ms later (no replacement in between) it no longer is: an older reload completed after the newer one", tg.name, last),
						map[string]interface{}{"flags": p.Flags, "file": tg.name, "burst": []int{k, k + 1, k + 2}})
				} else {
					run.Count(tg.name+"_bursts_settled_on_last_version", 1)
				}
				continue
			}
			inForce := -1
			for j := k + 2; j >= 1; j-- {
				if c20Bad(j) {
					continue
				}
				if ans, ok := tg.ask(c20Probe{"vuser", j}, false); ok && ans {
					inForce = j
					break
				}
			}
			stuck++
			run.Count(tg.name+"_bursts_stuck_on_stale_version", 1)
			if stuck >= 2 {
				run.Violation("c20:stale-version-in-force-after-burst", fmt.Sprintf("%s: after a burst of replacements ending with version %d, version %d is still in force after ~3 s of quiescence (an older reload completed after a newer one)", tg.name, last, inForce),
					map[string]interface{}{"flags": p.Flags, "file": tg.name, "burst": []int{k, k + 1, k + 2}, "in_force": inForce})
			}
		}
		if stuck == 1 {
			run.Inconclusive("one burst did not settle on its last version within the bound")
		}
		atomic.StoreInt32(&stop, 1)
		wg.Wait()
		// in-place rewrites (an operator editing the file, `echo ... > file`): the file can be read half-written, so
		// atomicity is not judged here — only the final state: once the last rewrite is complete and things are quiet,
		// its contents must be in force and stay in force (reloads must not complete out of order)
		lost := 0
		for k := c20Regular + 2; k+2 <= c20N && k < c20Regular+12; k += 3 {
			last := k + 2
			_ = os.WriteFile(tg.path, []byte(tg.content(k)), 0o600) // big
			time.Sleep(8 * time.Millisecond)
			_ = os.WriteFile(tg.path, []byte(tg.content(last)), 0o600) // small, final
			run.Count(tg.name+"_inplace_rewrite_pairs", 1)
			okFinal := false
			for tries := 0; tries < 600; tries++ {
				if ans, ok := tg.ask(c20Probe{"vuser", last}, false); ok && ans {
					okFinal = true
					break
				}
				time.Sleep(5 * time.Millisecond)
			}
			if okFinal {
				time.Sleep(400 * time.Millisecond)
				if ans, ok := tg.ask(c20Probe{"vuser", last}, false); ok && !ans {
					okFinal = false
				}
			}
			if okFinal {
				run.Count(tg.name+"_inplace_final_version_in_force", 1)
				run.Eval(fmt.Sprintf("%s|in-place rewrite|final state", tg.name))
				continue
			}
			lost++
			if lost >= 2 {
				run.Violation("c20:final-contents-not-in-force", fmt.Sprintf("%s: after two in-place rewrites (big version %d, then version %d) and quiescence, the final contents are not in force (reloads completed out of order or the last one was lost)", tg.name, k, last),
					map[string]interface{}{"flags": p.Flags, "file": tg.name, "versions": []int{k, last}})
			}
		}
		if lost == 1 {
			run.Inconclusive("one in-place rewrite pair did not end with the final contents in force")
		}
		// an UNREADABLE version (round 6): the path is replaced by something that opens but cannot be read (a directory: read
		// fails with EISDIR — the same class as EIO / ESTALE on a network file system). That reload has failed, there are no
		// "new contents": the previous contents stay in force, as for a version that fails to parse.
		{
			inForce := -1
			for j := c20N; j >= 1; j-- {
				if c20Bad(j) {
					continue
				}
				if ans, ok := tg.ask(c20Probe{"vuser", j}, false); ok && ans {
					inForce = j
					break
				}
			}
			if inForce > 0 {
				_ = os.Remove(tg.path)
				_ = os.Mkdir(tg.path, 0o700)
				time.Sleep(400 * time.Millisecond) // the watcher resumes on the directory and tries to load it
				a1, ok1 := tg.ask(c20Probe{"vuser", inForce}, false)
				a2, ok2 := tg.ask(c20Probe{"always", 0}, false)
				run.Eval(fmt.Sprintf("%s|unreadable version|previous contents stay in force", tg.name))
				run.Count(tg.name+"_unreadable_versions", 1)
				if ok1 && ok2 && (!a1 || !a2) {
					run.Violation("c20:unreadable-version-replaces-contents", fmt.Sprintf("%s: the file was replaced by a directory (opens, read fails with EISDIR); 400 ms later the entries of the previous version %d are no longer valid (vuser-%d: %v, always: %v) — a failed reload must leave the previous contents in force", tg.name, inForce, inForce, a1, a2),
						map[string]interface{}{"flags": p.Flags, "file": tg.name, "previous_version": inForce})
				}
				_ = os.Remove(tg.path)
				next := inForce - 1
				for next > 1 && c20Bad(next) {
					next--
				}
				if next >= 1 {
					_ = c20WriteFile(tg.path, tg.content(next), next)
					back := false
					for tries := 0; tries < 600; tries++ {
						if ans, ok := tg.ask(c20Probe{"vuser", next}, false); ok && ans {
							back = true
							break
						}
						time.Sleep(5 * time.Millisecond)
					}
					if back {
						run.Count(tg.name+"_readable_version_after_unreadable_became_visible", 1)
					} else {
						run.Count(tg.name+"_readable_version_after_unreadable_not_visible_within_bound", 1)
					}
				}
			}
		}
		// removal and late replacement (rm, then a deployment step that writes the new file some time later): the new
		// contents — and every version after them — must still come into force. Quick tier: first round only.
		if r == 0 || run.Env.Thorough() {
			gap := []time.Duration{1500, 200, 3000, 1100}[(r+int(run.Env.Seed))%4] * time.Millisecond
			if r == 0 {
				gap = 1500 * time.Millisecond
			}
			before := -1
			for j := c20N; j >= 1; j-- {
				if c20Bad(j) {
					continue
				}
				if ans, ok := tg.ask(c20Probe{"vuser", j}, false); ok && ans {
					before = j
					break
				}
			}
			_ = os.Remove(tg.path)
			time.Sleep(gap)
			if ans, ok := tg.ask(c20Probe{"vuser", before}, false); ok && ans {
				run.Count(tg.name+"_previous_contents_in_force_while_file_absent", 1)
			} else {
				run.Count(tg.name+"_previous_contents_NOT_in_force_while_file_absent", 1)
			}
			lostAfterRemoval := ""
			for step, v := range []int{2, 4} { // the replacement, then one more ordinary replacement (the watch must be live again)
				if err := c20WriteFile(tg.path, tg.content(v), 5000+v); err != nil {
					run.T.Fatalf("write: %v", err)
				}
				vis := false
				for tries := 0; tries < 1000; tries++ { // up to ~5 s
					if ans, ok := tg.ask(c20Probe{"vuser", v}, false); ok && ans {
						vis = true
						break
					}
					atomic.AddInt64(&c20Progress, 1)
					time.Sleep(5 * time.Millisecond)
				}
				if !vis {
					lostAfterRemoval = []string{"the replacement written after the removal", "the version written after that replacement"}[step]
					break
				}
			}
			run.Eval(fmt.Sprintf("%s|removed, replaced after %v|final state", tg.name, gap))
			if lostAfterRemoval != "" {
				run.Violation("c20:replacement-after-removal-never-loaded", fmt.Sprintf("%s: the file was removed and written again %v later: %s never came into force (5 s of quiescence) — removed entries stay valid", tg.name, gap, lostAfterRemoval),
					map[string]interface{}{"flags": p.Flags, "file": tg.name, "gap": gap.String(), "in_force_before": before})
			} else {
				run.Count(tg.name+"_removal_then_replacement_loaded", 1)
			}
		}
		// an EMPTY e-mails file is a version: it is how an administrator revokes everybody. Once it is in place nobody may be
		// admitted any more — not even the entry that is present in every other version — and the next version loads again.
		// (An htpasswd file without a single valid entry is, by the loader's own definition, a version that fails to load:
		// it belongs to the malformed versions, whose handling the regular phase judges.)
		if tg.name == "emails" && (r == 0 || run.Env.Thorough()) {
			for _, empty := range []string{"", "\n"} {
				if err := c20WriteFile(tg.path, empty, 8000); err != nil {
					run.T.Fatalf("write: %v", err)
				}
				revoked := false
				for tries := 0; tries < 1000; tries++ { // up to ~5 s
					if ans, ok := tg.ask(c20Probe{"always", 0}, false); ok && !ans {
						revoked = true
						break
					}
					atomic.AddInt64(&c20Progress, 1)
					time.Sleep(5 * time.Millisecond)
				}
				run.Eval(fmt.Sprintf("%s|empty version (%d bytes)|final state", tg.name, len(empty)))
				if !revoked {
					run.Violation("c20:empty-version-never-in-force", fmt.Sprintf("%s: the file was replaced by an empty version (%d bytes); 5 s later the entry of the previous contents is still admitted", tg.name, len(empty)),
						map[string]interface{}{"flags": p.Flags, "file": tg.name})
				} else {
					run.Count(tg.name+"_empty_version_in_force", 1)
				}
				if err := c20WriteFile(tg.path, tg.content(2), 8002); err != nil {
					run.T.Fatalf("write: %v", err)
				}
				for tries := 0; tries < 1000; tries++ {
					if ans, ok := tg.ask(c20Probe{"vuser", 2}, false); ok && ans {
						break
					}
					time.Sleep(5 * time.Millisecond)
				}
			}
		}
		if maxInvisibleRun >= 3 {
			run.Violation("c20:reload-never-visible", fmt.Sprintf("%s: %d consecutive well-formed replacements never became visible within the bound (reload lost)", tg.name, maxInvisibleRun), map[string]interface{}{"flags": p.Flags, "file": tg.name})
		} else if maxInvisibleRun > 0 {
			run.Inconclusive("a replaced version did not become visible within the bound")
		}
		// judge the history
		cellCount := map[string]int64{}
		for i := range obs {
			o := &obs[i]
			lo := c20Eff(o.SeenAtCall)
			if lo < 1 {
				lo = 1
			}
			hi := o.WrittenAtRet
			_, _, ok := o.Probe.consistent(o.Ans, lo, hi)
			overl := "quiet"
			if o.SeenAtCall != c20Eff(o.WrittenAtRet) {
				overl = "during-replacement"
			}
			cellCount[tg.name+"|validators="+strconv.Itoa(nVal)+"|"+o.Probe.Kind+"|ans="+strconv.FormatBool(o.Ans)+"|"+o.Via+"|"+overl]++
			if !ok {
				sig := "c20:answer-explained-by-no-live-version"
				if o.Probe.Kind == "always" || o.Probe.Kind == "never" {
					sig = "c20:invariant-probe"
				}
				run.Violation(sig, fmt.Sprintf("%s: probe %s(%d) answered %v via %s, but every well-formed version in [%d..%d] (observed-before-call .. replaced-before-return) says otherwise", tg.name, o.Probe.Kind, o.Probe.K, o.Ans, o.Via, lo, hi),
					map[string]interface{}{"flags": p.Flags, "observation": o, "file_versions": "see c20Htpasswd/c20Emails(k)"})
			}
		}
		for c, n := range cellCount {
			run.EvalN(c, n)
		}
		run.Count(tg.name+"_validations", int64(len(obs)))
		if len(obs) > 0 {
			run.Sample(map[string]interface{}{"file": tg.name, "validators": nVal, "validations": len(obs), "example": obs[len(obs)/2]})
		}
		_ = strings.TrimSpace
	}
}
