//go:build verif

package main

// C03 — A login completes only in the browser that started it (state <-> CSRF cookie).
//
// Oracle (reference predicate, written from the property statement; never calls the repository's decision functions):
//   a callback attempt is (receiving instance R, state string S, presented cookie list CL).
//   n(S)   = the nonce part of S (plain "nonce:redirect", or strict unpadded base64url of it)
//   L      = the login started on an instance of the same proxy (same cookie secret) whose state nonce is n(S), if any
//   may    = L exists  &&  CL contains L's CSRF cookie byte-for-byte under the name the proxy gave it when L was started
//   must   = may && S is L's state verbatim && R is the instance that started L && CL holds exactly one cookie of that name
//   session cookie set  => may          (safety;   signature c03:session-without-own-csrf-pair)
//   must                => session set  (converse; signature c03:own-pair-rejected)
//   no session          => error status (>= 400), no Set-Cookie that authenticates, no new Redis key
// Observation: "session set" = the callback response carries a non-deleting Set-Cookie named like the session cookie
// (confirmed by presenting it to /oauth2/userinfo).
//
// Part A — pairing matrix: 2 browsers x 3 logins interleaved (/oauth2/start?rd= and protected URL), then every
//          login X x cookie-set variant x state variant, requests built by hand (exact control over cookies).
// Entropy faults — sequential phase: crypto/rand.Reader fails selected reads around single login starts; a start is
//          refused cleanly or carries a fresh, non-zero state nonce (c03:login-started-with-constant-state).
// Part B — jar histories (with the unrelated requests a browser makes while logins are pending: sign-out, sign-in page,
//          protected path, garbage session cookie, userinfo, static assets — none may expire a pending login's CSRF
//          cookie: c03:pending-login-csrf-cookie-expired-by-unrelated-response): real RFC 6265 jars, all completion permutations + seeded random walks of
//          start/complete/replay events; cookies are whatever the jar sends.

import (
	"crypto/aes"
	"crypto/cipher"
	"crypto/hmac"
	"crypto/rand"
	"crypto/sha256"
	"encoding/base64"
	"errors"
	"fmt"
	"io"
	mrand "math/rand"
	"net/http"
	"net/url"
	"strconv"
	"strings"
	"sync"
	"sync/atomic"
	"testing"
	"time"

	"github.com/vmihailenco/msgpack/v5"
)

const (
	c03SecretA = vfSecret32
	c03SecretB = "fedcba9876543210fedcba9876543210"
)

// ---------------------------------------------------------------------------------------------------------
// the harness' own reading/writing of the documented CSRF cookie format (value|timestamp|signature, value =
// base64url(AES-CFB(msgpack{s,n,cv}))) — needed to forge "re-signed by a sibling" cookies.

type c03CSRF struct {
	S  []byte `msgpack:"s,omitempty"`
	N  []byte `msgpack:"n,omitempty"`
	CV string `msgpack:"cv,omitempty"`
}

func c03SecretBytes(secret string) []byte {
	if b, err := base64.RawURLEncoding.DecodeString(strings.TrimRight(secret, "=")); err == nil {
		if len(b) == 16 || len(b) == 24 || len(b) == 32 {
			return b
		}
	}
	return []byte(secret)
}

func c03Sign(secret, name, encField, ts string) string {
	m := hmac.New(sha256.New, []byte(secret))
	m.Write([]byte(name))
	m.Write([]byte(encField))
	m.Write([]byte(ts))
	return base64.URLEncoding.EncodeToString(m.Sum(nil))
}

func c03OpenCSRF(secret, value string) (*c03CSRF, error) {
	parts := strings.Split(value, "|")
	if len(parts) != 3 {
		return nil, errors.New("not a 3-part value")
	}
	enc, err := base64.URLEncoding.DecodeString(parts[0])
	if err != nil || len(enc) < aes.BlockSize {
		return nil, fmt.Errorf("first field: %v", err)
	}
	blk, err := aes.NewCipher(c03SecretBytes(secret))
	if err != nil {
		return nil, err
	}
	plain := make([]byte, len(enc)-aes.BlockSize)
	cipher.NewCFBDecrypter(blk, enc[:aes.BlockSize]).XORKeyStream(plain, enc[aes.BlockSize:])
	out := &c03CSRF{}
	if err := msgpack.Unmarshal(plain, out); err != nil {
		return nil, err
	}
	return out, nil
}

func c03SealCSRF(secret, name string, c *c03CSRF, ts int64) (string, error) {
	plain, err := msgpack.Marshal(c)
	if err != nil {
		return "", err
	}
	blk, err := aes.NewCipher(c03SecretBytes(secret))
	if err != nil {
		return "", err
	}
	ct := make([]byte, aes.BlockSize+len(plain))
	if _, err := rand.Read(ct[:aes.BlockSize]); err != nil {
		return "", err
	}
	cipher.NewCFBEncrypter(blk, ct[:aes.BlockSize]).XORKeyStream(ct[aes.BlockSize:], plain)
	encField := base64.URLEncoding.EncodeToString(ct)
	tss := strconv.FormatInt(ts, 10)
	return encField + "|" + tss + "|" + c03Sign(secret, name, encField, tss), nil
}

// ---------------------------------------------------------------------------------------------------------
// reference reading of the state parameter

func c03EncodeState(nonce, rd string, encoded bool) string {
	s := nonce + ":" + rd
	if encoded {
		return base64.RawURLEncoding.EncodeToString([]byte(s))
	}
	return s
}

func c03SplitState(state string, encoded bool) (nonce, rd string, ok bool) {
	s := state
	if encoded {
		b, err := base64.RawURLEncoding.Strict().DecodeString(state)
		if err != nil {
			return "", "", false
		}
		s = string(b)
	}
	k := strings.IndexByte(s, ':')
	if k < 0 {
		return "", "", false
	}
	return s[:k], s[k+1:], true
}

// ---------------------------------------------------------------------------------------------------------
// configuration cells and instances

type c03Cfg struct {
	PerReq, Encode bool
	PKCE           string // "" | S256
	SkipNonce      bool
	Store          string // cookie | redis
	// secondary dimensions, rotated over the configurations (not part of the cell): custom cookie name, custom proxy
	// prefix, sign-in page instead of --skip-provider-button
	CookieName string
	Prefix     string
	SignInPage bool
	CSRFExpire string // "" = default (15m) | "0s" (session cookie: no expiry, the documented meaning of 0) | "24h" (round 6)
}

func c03B(b bool) string { return strconv.FormatBool(b) }
func c03Bit(b bool) int {
	if b {
		return 1
	}
	return 0
}

func (c c03Cfg) Label() string {
	pk := c.PKCE
	if pk == "" {
		pk = "none"
	}
	return fmt.Sprintf("perreq=%v,enc=%v,pkce=%s,skipnonce=%v", c.PerReq, c.Encode, pk, c.SkipNonce)
}

func (c c03Cfg) flags(w *vfWorld, secret string, encode bool) []string {
	f := []string{"--cookie-csrf-per-request=" + c03B(c.PerReq), "--encode-state=" + c03B(encode), "--insecure-oidc-skip-nonce=" + c03B(c.SkipNonce),
		"--skip-provider-button=" + c03B(!c.SignInPage), "--cookie-secret=" + secret}
	if c.CookieName != "" {
		f = append(f, "--cookie-name="+c.CookieName)
	}
	if c.Prefix != "" {
		f = append(f, "--proxy-prefix="+c.Prefix)
	}
	if c.PKCE != "" {
		f = append(f, "--code-challenge-method="+c.PKCE)
	}
	if c.CSRFExpire != "" {
		f = append(f, "--cookie-csrf-expire="+c.CSRFExpire)
	}
	if c.Store == "redis" {
		f = append(f, "--session-store-type=redis", "--redis-connection-url="+w.RedisURL())
	}
	return f
}

type c03Inst struct {
	Role    string // main | other-secret | flipped-encoding
	P       *vfProxy
	Secret  string
	Encoded bool
}

type c03Login struct {
	ID          string
	Inst        *c03Inst
	Browser     int
	Kind        string // start | protected
	Target      string
	State       string
	Nonce       string
	Redirect    string
	CookieName  string
	CookieValue string
	LoginURL    string
	OIDCNonce   string // the nonce parameter of the authorization request ("" when not sent)
	Ident       vfIdentity
}

type c03LoginInfo struct {
	ID, Instance, Kind, Target, State, CookieName string
	Browser                                          int
}

func (l *c03Login) info() c03LoginInfo {
	return c03LoginInfo{ID: l.ID, Instance: l.Inst.Role, Kind: l.Kind, Target: l.Target, State: l.State, CookieName: l.CookieName, Browser: l.Browser}
}

var c03Seq int64

func c03Ident() vfIdentity {
	n := atomic.AddInt64(&c03Seq, 1)
	return vfIdentity{Sub: fmt.Sprintf("u-c03-%d", n), Email: fmt.Sprintf("c03-%d@example.com", n), PreferredUsername: fmt.Sprintf("c03-pu-%d", n), Groups: []string{"g"}}
}

// c03Start begins a login in browser b on inst, through /oauth2/start?rd=… or through a protected URL.
func c03Start(inst *c03Inst, b *vfBrowser, bi int, kind, id string) (*c03Login, error) {
	n := atomic.AddInt64(&c03Seq, 1)
	ident := c03Ident()
	var l *vfLogin
	var err error
	target := ""
	switch kind {
	case "protected":
		target = fmt.Sprintf("/app/p%d/page?item=%d", n, n)
		if n%2 == 1 {
			// the state is "nonce:redirect": a redirect that itself contains ':' must not confuse the split (round 6)
			target = fmt.Sprintf("/app/p%d/v1:beta/page?item=%d&at=10:30:00", n, n)
		}
		resp := b.Get(inst.P, target)
		if resp.Code == 200 {
			// the browser already holds a session (an earlier login of the history completed): the protected URL is simply
			// served, so this login is started explicitly instead
			return c03Start(inst, b, bi, "start", id)
		}
		if resp.Code == 403 && !inst.P.Opts.SkipProviderButton {
			// sign-in page: the user presses the button, which submits rd=<original URL> to <prefix>/start
			if !strings.Contains(string(resp.Body), inst.P.Opts.ProxyPrefix+"/start") {
				return nil, fmt.Errorf("403 for a protected URL is not the sign-in page")
			}
			l, err = b.StartLogin(inst.P, ident, target)
			break
		}
		if resp.Code != 302 {
			return nil, fmt.Errorf("protected URL did not start a login: status %d", resp.Code)
		}
		l, err = b.continueLogin(inst.P, ident, resp)
	default:
		rd := fmt.Sprintf("/app/s%d?x=%d", n, n)
		switch n % 4 {
		case 1:
			rd = fmt.Sprintf("/app/s%d?from=09:00&x=%d", n, n)
		case 2:
			rd = fmt.Sprintf("/app/s%d/rev:2:draft?x=%d", n, n)
		case 3:
			rd = fmt.Sprintf("/app/s%d?u=a%%3Ab&z=1:2&x=%d", n, n)
		}
		target = inst.P.Opts.ProxyPrefix + "/start?rd=" + vfQueryEscape(rd)
		l, err = b.StartLogin(inst.P, ident, rd)
	}
	if err != nil {
		return nil, err
	}
	out := &c03Login{ID: id, Inst: inst, Browser: bi, Kind: kind, Target: target, State: l.State, LoginURL: l.LoginURL, Ident: ident, OIDCNonce: l.AuthReq.Params.Get("nonce")}
	if out.OIDCNonce == "" {
		out.OIDCNonce = "no-oidc-nonce-sent"
	}
	for _, sc := range l.StartResp.SetCookies() {
		c, err := http.ParseSetCookie(sc)
		if err != nil || !strings.HasSuffix(c.Name, "_csrf") || c.MaxAge < 0 || c.Value == "" {
			continue
		}
		if out.CookieName != "" {
			return nil, fmt.Errorf("login start set more than one CSRF cookie: %v", l.StartResp.SetCookies())
		}
		out.CookieName, out.CookieValue = c.Name, c.Value
	}
	if out.CookieName == "" {
		return nil, fmt.Errorf("login start set no CSRF cookie: %v", l.StartResp.SetCookies())
	}
	var ok bool
	out.Nonce, out.Redirect, ok = c03SplitState(out.State, inst.Encoded)
	if !ok || out.Nonce == "" {
		return nil, fmt.Errorf("state %q of a fresh login is not nonce:redirect in the configured encoding (encode-state=%v)", out.State, inst.Encoded)
	}
	return out, nil
}

// ---------------------------------------------------------------------------------------------------------
// judging one callback

// c03Rig records a failure of the rig itself (never a verdict on the property); the run ends INCONCLUSIVE.
func c03Rig(run *vfRun, format string, a ...interface{}) {
	run.Count("rig_failures", 1)
	if run.Counter("rig_failures") <= 5 {
		fmt.Printf("NOTE rig failure: "+format+"\n", a...)
	}
}

type c03Case struct {
	Run    *vfRun
	W      *vfWorld
	Cfg    c03Cfg
	mu     sync.Mutex
	byKey  map[string]*c03Login // secret|nonce -> login
	Logins []*c03Login
	nSess  int64 // callbacks that set a session cookie without presenting one (for the Redis accounting: one new key each)
	nKeyDel int64 // unrelated requests that ended the browser's session (Redis store: the entry is deleted)
}

func (cs *c03Case) add(l *c03Login) {
	cs.mu.Lock()
	cs.byKey[l.Inst.Secret+"|"+l.Nonce] = l
	cs.Logins = append(cs.Logins, l)
	cs.mu.Unlock()
}

func (cs *c03Case) reference(R *c03Inst, state *string, cookies [][2]string) (L *c03Login, may, must bool) {
	if state == nil {
		return nil, false, false
	}
	// the login is identified by the nonce the state carries; a state that carries it in the other encoding than R is
	// configured for is still "that login's nonce" (accepting it would not break the binding), it merely is not verbatim
	for _, enc := range []bool{R.Encoded, !R.Encoded} {
		n, _, ok := c03SplitState(*state, enc)
		if !ok || n == "" {
			continue
		}
		cs.mu.Lock()
		L = cs.byKey[R.Secret+"|"+n]
		cs.mu.Unlock()
		if L != nil {
			break
		}
	}
	if L == nil {
		return nil, false, false
	}
	cnt, has := 0, false
	for _, c := range cookies {
		if c[0] == L.CookieName {
			cnt++
			if c[1] == L.CookieValue {
				has = true
			}
		}
	}
	may = has
	must = has && cnt == 1 && R == L.Inst && *state == L.State
	return L, may, must
}

func c03IsSessionName(name, base string) bool {
	if name == base {
		return true
	}
	if strings.HasPrefix(name, base+"_") {
		rest := name[len(base)+1:]
		if rest == "" {
			return false
		}
		for _, r := range rest {
			if r < '0' || r > '9' {
				return false
			}
		}
		return true
	}
	return false
}

// c03LiveCookies: the non-deleting Set-Cookie lines of a response, split into session-named ones and the rest.
func c03LiveCookies(resp *vfResp, sessionName string) (sess, other []*http.Cookie) {
	for _, line := range resp.SetCookies() {
		c, err := http.ParseSetCookie(line)
		if err != nil || c.MaxAge < 0 || c.Value == "" {
			continue
		}
		if !c.Expires.IsZero() && c.Expires.Before(time.Now()) {
			continue
		}
		if c03IsSessionName(c.Name, sessionName) {
			sess = append(sess, c)
		} else {
			other = append(other, c)
		}
	}
	return
}

type c03Witness struct {
	Config        string
	ReceiverFlags []string
	Receiver      string
	Part          string
	StateVariant  string
	CookieVariant string
	State         *string
	Cookies       [][2]string
	TakenFrom     string // the login X whose state / cookie the variants were derived from
	StateLogin    string // login whose nonce the state carries (reference reading), "" if none
	CodeOf        string
	Request       *vfReq
	Status        int
	SetCookie     []string
	ErrorText     string
	May, Must     bool
	Session       bool
	Usable        bool
	Logins        []c03LoginInfo
	History       []string `json:",omitempty"`
	reusesTicket  bool     // the request carried a live session cookie: the Redis store re-uses its ticket (no new key)
}

type c03Obs struct {
	Session, Usable bool
	Resp            *vfResp
}

// observe classifies a callback response; send presents cookies to /oauth2/userinfo on the same instance.
func (cs *c03Case) observe(R *c03Inst, resp *vfResp, wantEmail string) (o c03Obs, leakedAuth []string) {
	o.Resp = resp
	sess, other := c03LiveCookies(resp, R.P.Opts.Cookie.Name)
	o.Session = len(sess) > 0
	if o.Session {
		req := vfGET(R.P.Opts.ProxyPrefix + "/userinfo")
		for _, c := range sess {
			req.Cookie(c.Name, c.Value)
		}
		ui := R.P.Do(req)
		o.Usable = ui.Code == 200 && strings.Contains(string(ui.Body), wantEmail)
		if ui.Code == 200 && !o.Usable {
			cs.Run.Count("session_identity_differs_from_code", 1)
		}
	} else {
		// nothing else in a failure response may authenticate
		for _, c := range other {
			ui := R.P.Do(vfGET(R.P.Opts.ProxyPrefix+"/userinfo").Cookie(c.Name, c.Value))
			if ui.Code == 200 {
				leakedAuth = append(leakedAuth, c.Name)
			}
		}
	}
	return
}

func (cs *c03Case) infos() []c03LoginInfo {
	cs.mu.Lock()
	defer cs.mu.Unlock()
	out := make([]c03LoginInfo, 0, len(cs.Logins))
	for _, l := range cs.Logins {
		out = append(out, l.info())
	}
	return out
}

// verdict compares the observation with the reference and reports.
func (cs *c03Case) verdict(wit *c03Witness, o c03Obs, leakedAuth []string) {
	run := cs.Run
	resp := o.Resp
	wit.Status, wit.SetCookie, wit.Session, wit.Usable = resp.Code, resp.SetCookies(), o.Session, o.Usable
	wit.ErrorText = vfTrunc(vfErrText(resp.Body), 240)
	if resp.Panic != "" {
		run.Count("callback_panics", 1)
		wit.ErrorText = "panic: " + resp.Panic
	}
	if o.Session && !wit.reusesTicket {
		atomic.AddInt64(&cs.nSess, 1)
	}
	full := func() *c03Witness { wit.Logins = cs.infos(); return wit }
	switch {
	case o.Session && !wit.May:
		run.Violation("c03:session-without-own-csrf-pair",
			fmt.Sprintf("[%s] %s: callback with state variant %q and cookie set %q set a session cookie (status %d) although the presented cookies do not contain the CSRF cookie of the state's login", cs.Cfg.Label(), wit.Part, wit.StateVariant, wit.CookieVariant, resp.Code), full())
	case wit.Must && !(o.Session && o.Usable):
		run.Violation("c03:own-pair-rejected",
			fmt.Sprintf("[%s] %s: callback with the unmodified state and CSRF cookie of login %s (cookie set %q) did not establish a session: status %d %s", cs.Cfg.Label(), wit.Part, wit.StateLogin, wit.CookieVariant, resp.Code, wit.ErrorText), full())
	}
	if !o.Session && resp.Panic == "" {
		if resp.Code < 400 {
			run.Violation("c03:failed-callback-not-an-error-page",
				fmt.Sprintf("[%s] %s: callback without session answered %d (Location %q) instead of an error page", cs.Cfg.Label(), wit.Part, resp.Code, resp.Location()), full())
		}
		if len(leakedAuth) > 0 {
			run.Violation("c03:failed-callback-sets-authenticating-cookie",
				fmt.Sprintf("[%s] %s: failed callback (status %d) set cookie(s) %v that /oauth2/userinfo accepts", cs.Cfg.Label(), wit.Part, resp.Code, leakedAuth), full())
		}
	}
}

// ---------------------------------------------------------------------------------------------------------
// Part A: pairing matrix

type c03Named struct {
	Name  string
	Class string // abstract class for the cell
	State *string
	Cks   [][2]string
	// RefCks: what the reference is asked about instead of Cks — used for cookies that are NOT byte-identical to the one the
	// instance set but are what a replica of the same proxy (same secret) with a skewed clock would have set for this login
	RefCks [][2]string
}

func c03Str(s string) *string { return &s }

func c03SwapCase(s string) string {
	b := []byte(s)
	for i, c := range b {
		switch {
		case c >= 'a' && c <= 'z':
			b[i] = c - 32
		case c >= 'A' && c <= 'Z':
			b[i] = c + 32
		}
	}
	return string(b)
}

func c03OtherChar(c byte) byte {
	const alpha = "ABCDEFGHIJKLMNOPQRSTUVWXYZabcdefghijklmnopqrstuvwxyz0123456789-_"
	k := strings.IndexByte(alpha, c)
	if k < 0 {
		return 'A'
	}
	return alpha[(k+17)%len(alpha)]
}

// state variants for login X; Y = another login of the same browser, Z = a login of the other browser,
// F = a login started on the flipped-encoding sibling (same secret).
func c03StateVariants(X, Y, Z, F *c03Login) []c03Named {
	enc := X.Inst.Encoded
	mk := func(n, rd string) *string { return c03Str(c03EncodeState(n, rd, enc)) }
	n := X.Nonce
	last := n[:len(n)-1] + string(c03OtherChar(n[len(n)-1]))
	mid := n[:20] + string(c03OtherChar(n[20])) + n[21:]
	vs := []c03Named{
		{Name: "verbatim", Class: "verbatim", State: c03Str(X.State)},
		{Name: "redirect-changed", Class: "redirect-changed", State: mk(n, "/elsewhere/c03?changed=1")},
		{Name: "redirect-empty", Class: "redirect-changed", State: mk(n, "")},
		{Name: "nonce-of-same-browser-login", Class: "other-login-nonce", State: mk(Y.Nonce, X.Redirect)},
		{Name: "nonce-of-other-browser-login", Class: "other-login-nonce", State: mk(Z.Nonce, X.Redirect)},
		{Name: "state-of-same-browser-login", Class: "other-login-state", State: c03Str(Y.State)},
		{Name: "state-of-other-browser-login", Class: "other-login-state", State: c03Str(Z.State)},
		{Name: "truncated-8", Class: "truncated", State: c03Str(X.State[:8])},
		{Name: "truncated-5", Class: "truncated", State: c03Str(X.State[:5])},
		{Name: "empty", Class: "empty", State: c03Str("")},
		{Name: "no-state-parameter", Class: "empty", State: nil},
		{Name: "nonce-prefix-8", Class: "nonce-prefix", State: mk(n[:8], X.Redirect)},
		{Name: "nonce-prefix-9", Class: "nonce-prefix", State: mk(n[:9], X.Redirect)},
		{Name: "nonce-prefix-all-but-last", Class: "nonce-prefix", State: mk(n[:len(n)-1], X.Redirect)},
		{Name: "nonce-extended", Class: "nonce-extended", State: mk(n+"A", X.Redirect)},
		{Name: "nonce-last-char-changed", Class: "nonce-char-changed", State: mk(last, X.Redirect)},
		{Name: "nonce-middle-char-changed", Class: "nonce-char-changed", State: mk(mid, X.Redirect)},
		{Name: "nonce-case-swapped", Class: "nonce-char-changed", State: mk(c03SwapCase(n), X.Redirect)},
		{Name: "nonce-trailing-space", Class: "nonce-extended", State: mk(n+" ", X.Redirect)},
		{Name: "nonce-leading-space", Class: "nonce-extended", State: mk(" "+n, X.Redirect)},
		{Name: "nonce-percent-encoded-char", Class: "nonce-char-changed", State: mk(n[:10]+fmt.Sprintf("%%%02X", n[10])+n[11:], X.Redirect)},
		{Name: "oidc-nonce-as-state-nonce", Class: "other-login-nonce", State: mk(X.OIDCNonce, X.Redirect)},
		{Name: "nonce-empty", Class: "nonce-empty", State: mk("", X.Redirect)},
		{Name: "nonce-only-no-colon", Class: "no-colon", State: c03Str(func() string {
			if enc {
				return base64.RawURLEncoding.EncodeToString([]byte(n))
			}
			return n
		}())},
		// round 9: spellings a LENIENT base64 decoder would map to the same bytes as the genuine nonce hash — the last character
		// replaced by the ones that differ only in the two padding bits, and CR / LF inserted (ignored by Go's decoders)
		{Name: "nonce-last-char-sibling-1", Class: "nonce-char-changed", State: mk(n[:len(n)-1]+c03B64Sibling(n[len(n)-1], 1), X.Redirect)},
		{Name: "nonce-last-char-sibling-2", Class: "nonce-char-changed", State: mk(n[:len(n)-1]+c03B64Sibling(n[len(n)-1], 2), X.Redirect)},
		{Name: "nonce-last-char-sibling-3", Class: "nonce-char-changed", State: mk(n[:len(n)-1]+c03B64Sibling(n[len(n)-1], 3), X.Redirect)},
		{Name: "nonce-lf-inserted", Class: "nonce-extended", State: mk(n[:20]+"\n"+n[20:], X.Redirect)},
		{Name: "nonce-cr-inserted", Class: "nonce-extended", State: mk(n[:30]+"\r"+n[30:], X.Redirect)},
		{Name: "nonce-crlf-appended", Class: "nonce-extended", State: mk(n+"\r\n", X.Redirect)},
		// the same content in the other encoding than the receiving instance is configured for
		{Name: "other-encoding", Class: "encoding-mismatch", State: c03Str(c03EncodeState(n, X.Redirect, !enc))},
		// the verbatim state of a login started on the sibling with the opposite --encode-state (same secret)
		{Name: "state-of-flipped-encoding-sibling-login", Class: "encoding-mismatch", State: c03Str(F.State)},
	}
	return vs
}

// c03B64Sibling: the k-th other base64url character that shares the upper four bits of c's six-bit value.
func c03B64Sibling(c byte, k int) string {
	const alpha = "ABCDEFGHIJKLMNOPQRSTUVWXYZabcdefghijklmnopqrstuvwxyz0123456789-_"
	i := strings.IndexByte(alpha, c)
	if i < 0 {
		return "A"
	}
	return string(alpha[(i&^3)|((i+k)&3)])
}

func c03Tamper(value string, field int, rng *mrand.Rand) string {
	parts := strings.Split(value, "|")
	if len(parts) != 3 {
		return value + "x"
	}
	switch field {
	case 0: // one character of the encrypted value
		k := rng.Intn(len(parts[0]) - 4)
		b := []byte(parts[0])
		b[k] = c03OtherChar(b[k])
		parts[0] = string(b)
	case 1: // the timestamp, by one second
		ts, _ := strconv.ParseInt(parts[1], 10, 64)
		parts[1] = strconv.FormatInt(ts-1, 10)
	case 2: // one character of the signature (not one whose low bits are base64 padding)
		k := rng.Intn(40)
		b := []byte(parts[2])
		b[k] = c03OtherChar(b[k])
		parts[2] = string(b)
	}
	return strings.Join(parts, "|")
}

// c03TamperSig replaces the signature characters [from,to) (all carry decoded bits: the signature has 43 significant characters).
func c03TamperSig(value string, from, to int) string {
	k := strings.LastIndexByte(value, '|')
	if k < 0 || len(value)-k-1 < to {
		return value + "x"
	}
	b := []byte(value)
	for i := k + 1 + from; i < k+1+to; i++ {
		b[i] = c03OtherChar(b[i])
	}
	return string(b)
}

// c03TamperTail changes a character near the end of the encrypted field (the last bytes of the plaintext).
func c03TamperTail(value string) string {
	k := strings.IndexByte(value, '|')
	if k < 8 {
		return value + "x"
	}
	b := []byte(value)
	b[k-6] = c03OtherChar(b[k-6])
	return string(b)
}

// cookie-set variants for login X. Y/Y2 = other logins of the same browser, Zs = logins of the other browser,
// S = a login started on the sibling instance with another cookie secret.
func (cs *c03Case) cookieVariants(X, Y, Y2 *c03Login, Zs []*c03Login, S *c03Login, rng *mrand.Rand) []c03Named {
	own := [2]string{X.CookieName, X.CookieValue}
	ck := func(l *c03Login) [2]string { return [2]string{l.CookieName, l.CookieValue} }
	Z := Zs[rng.Intn(len(Zs))]
	vs := []c03Named{
		{Name: "own", Class: "own", Cks: [][2]string{own}},
		{Name: "absent", Class: "absent", Cks: nil},
		{Name: "other-login-same-browser", Class: "other-same-browser", Cks: [][2]string{ck(Y)}},
	}
	if Y2 != Y {
		vs = append(vs, c03Named{Name: "other-login-same-browser-2", Class: "other-same-browser", Cks: [][2]string{ck(Y2)}})
	}
	for k, z := range Zs {
		vs = append(vs, c03Named{Name: fmt.Sprintf("other-browser-%d", k), Class: "other-browser", Cks: [][2]string{ck(z)}})
	}
	vs = append(vs,
		c03Named{Name: "own-value-char-changed", Class: "tampered-value", Cks: [][2]string{{X.CookieName, c03Tamper(X.CookieValue, 0, rng)}}},
		c03Named{Name: "own-timestamp-changed", Class: "tampered-timestamp", Cks: [][2]string{{X.CookieName, c03Tamper(X.CookieValue, 1, rng)}}},
		c03Named{Name: "own-signature-char-changed", Class: "tampered-signature", Cks: [][2]string{{X.CookieName, c03Tamper(X.CookieValue, 2, rng)}}},
		c03Named{Name: "own-signature-head-changed", Class: "tampered-signature", Cks: [][2]string{{X.CookieName, c03TamperSig(X.CookieValue, 0, 10)}}},
		c03Named{Name: "own-signature-tail-changed", Class: "tampered-signature", Cks: [][2]string{{X.CookieName, c03TamperSig(X.CookieValue, 30, 42)}}},
		c03Named{Name: "own-value-last-block-changed", Class: "tampered-value", Cks: [][2]string{{X.CookieName, c03TamperTail(X.CookieValue)}}},
		c03Named{Name: "own-signature-not-base64", Class: "tampered-signature", Cks: [][2]string{{X.CookieName, X.CookieValue[:strings.LastIndexByte(X.CookieValue, '|')+1] + "!!!!" + X.CookieValue[strings.LastIndexByte(X.CookieValue, '|')+5:]}}},
		c03Named{Name: "own-value-with-signature-of-other-login", Class: "tampered-signature", Cks: [][2]string{{X.CookieName, X.CookieValue[:strings.LastIndexByte(X.CookieValue, '|')+1] + Y.CookieValue[strings.LastIndexByte(Y.CookieValue, '|')+1:]}}},
		c03Named{Name: "own-signature-dropped", Class: "tampered-signature", Cks: [][2]string{{X.CookieName, X.CookieValue[:strings.LastIndexByte(X.CookieValue, '|')+1]}}},
		c03Named{Name: "own-first-field-only", Class: "tampered-signature", Cks: [][2]string{{X.CookieName, strings.SplitN(X.CookieValue, "|", 2)[0]}}},
		c03Named{Name: "own+other-same-browser", Class: "own+other", Cks: [][2]string{own, ck(Y)}},
		c03Named{Name: "other-same-browser+own", Class: "other+own", Cks: [][2]string{ck(Y), own}},
		c03Named{Name: "own+other-browser", Class: "own+other", Cks: [][2]string{own, ck(Z)}},
		c03Named{Name: "other-browser+own", Class: "other+own", Cks: [][2]string{ck(Z), own}},
		c03Named{Name: "all-logins-of-both-browsers", Class: "other+own", Cks: func() [][2]string {
			var all [][2]string
			for _, z := range Zs {
				all = append(all, ck(z))
			}
			return append(all, ck(Y2), ck(Y), own)
		}()},
		// values under foreign names
		c03Named{Name: "other-value-under-own-name", Class: "value-under-foreign-name", Cks: [][2]string{{X.CookieName, Y.CookieValue}}},
		c03Named{Name: "other-browser-value-under-own-name", Class: "value-under-foreign-name", Cks: [][2]string{{X.CookieName, Z.CookieValue}}},
		// artificial duplicates of one name (judged in the safety direction only)
		c03Named{Name: "dup:tampered-own,own", Class: "duplicate-name", Cks: [][2]string{{X.CookieName, c03Tamper(X.CookieValue, 2, rng)}, own}},
		c03Named{Name: "dup:other-value-under-own-name,own", Class: "duplicate-name", Cks: [][2]string{{X.CookieName, Y.CookieValue}, own}},
		c03Named{Name: "dup:own,other-value-under-own-name", Class: "duplicate-name", Cks: [][2]string{own, {X.CookieName, Z.CookieValue}}},
		// cookie of a login that another proxy (other cookie secret) started, under its own and under X's name
		c03Named{Name: "sibling-secret-login-cookie", Class: "foreign-secret", Cks: [][2]string{ck(S)}},
		c03Named{Name: "sibling-secret-login-value-under-own-name", Class: "foreign-secret", Cks: [][2]string{{X.CookieName, S.CookieValue}}},
	)
	// characters APPENDED to a field of the own cookie (the fields stay otherwise intact): still not the cookie the proxy set
	if f := strings.Split(X.CookieValue, "|"); len(f) == 3 {
		app := func(name string, v0, v1, v2 string) {
			vs = append(vs, c03Named{Name: name, Class: "appended-characters", Cks: [][2]string{{X.CookieName, v0 + "|" + v1 + "|" + v2}}})
		}
		app("own-signature+alphabet-char", f[0], f[1], f[2]+"A")
		app("own-signature+padding-char", f[0], f[1], f[2]+"=")
		app("own-signature+non-alphabet-char", f[0], f[1], f[2]+"!")
		app("own-signature+AAAA", f[0], f[1], f[2]+"AAAA")
		app("own-signature+x=", f[0], f[1], f[2]+"x=")
		app("own-signature+dot-dot", f[0], f[1], f[2]+"..")
		app("own-timestamp+digit", f[0], f[1]+"0", f[2])
		app("own-timestamp+leading-zero", f[0], "0"+f[1], f[2])
		app("own-timestamp+leading-plus", f[0], "+"+f[1], f[2])
		app("own-value-field+alphabet-char", f[0]+"A", f[1], f[2])
		app("own-value-field+padding-char", f[0]+"=", f[1], f[2])
		app("own-value-field+AAAA", f[0]+"AAAA", f[1], f[2])
		vs = append(vs,
			c03Named{Name: "own+trailing-pipe", Class: "appended-characters", Cks: [][2]string{{X.CookieName, X.CookieValue + "|"}}},
			c03Named{Name: "own+leading-pipe", Class: "appended-characters", Cks: [][2]string{{X.CookieName, "|" + X.CookieValue}}},
			c03Named{Name: "own+trailing-pipe-and-field", Class: "appended-characters", Cks: [][2]string{{X.CookieName, X.CookieValue + "|x"}}},
		)
	}
	otherName := Y.CookieName
	if otherName == X.CookieName { // single shared name: use a per-request style name and the bare prefix instead
		otherName = X.Inst.P.Opts.Cookie.Name + "_" + X.Nonce[:8] + "_csrf"
	}
	vs = append(vs,
		c03Named{Name: "own-value-under-other-name", Class: "value-under-foreign-name", Cks: [][2]string{{otherName, X.CookieValue}}},
		c03Named{Name: "own-value-under-session-cookie-name", Class: "value-under-foreign-name", Cks: [][2]string{{X.Inst.P.Opts.Cookie.Name, X.CookieValue}}},
	)
	// forged with the harness' own implementation of the cookie format
	parts := strings.Split(X.CookieValue, "|")
	if len(parts) == 3 && c03Sign(X.Inst.Secret, X.CookieName, parts[0], parts[1]) == parts[2] {
		// the same CSRF content as a replica sharing the cookie secret would have issued it with its clock ahead of / behind
		// this instance's (the documented allowance for time stamps ahead is 5 minutes; beyond that nothing is demanded)
		for _, sk := range []struct {
			name string
			d    int64
		}{{"3s-ahead", 3}, {"30s-ahead", 30}, {"2min-ahead", 120}, {"4min59s-ahead", 299}, {"30s-behind", -30}, {"10min-behind", -600}} {
			ts := strconv.FormatInt(time.Now().Unix()+sk.d, 10)
			vs = append(vs, c03Named{Name: "own-issued-with-clock-" + sk.name, Class: "own-issued-under-skewed-clock",
				Cks: [][2]string{{X.CookieName, parts[0] + "|" + ts + "|" + c03Sign(X.Inst.Secret, X.CookieName, parts[0], ts)}}, RefCks: [][2]string{own}})
		}
		now := strconv.FormatInt(time.Now().Unix(), 10)
		vs = append(vs,
			c03Named{Name: "own-ciphertext-resigned-with-sibling-secret", Class: "resigned", Cks: [][2]string{{X.CookieName, parts[0] + "|" + parts[1] + "|" + c03Sign(c03SecretB, X.CookieName, parts[0], parts[1])}}},
			c03Named{Name: "own-ciphertext-resigned-with-sibling-secret-new-timestamp", Class: "resigned", Cks: [][2]string{{X.CookieName, parts[0] + "|" + now + "|" + c03Sign(c03SecretB, X.CookieName, parts[0], now)}}},
			c03Named{Name: "own-ciphertext-signed-with-empty-key", Class: "resigned", Cks: [][2]string{{X.CookieName, parts[0] + "|" + parts[1] + "|" + c03Sign("", X.CookieName, parts[0], parts[1])}}},
			c03Named{Name: "own-signature-for-other-name", Class: "resigned", Cks: [][2]string{{X.CookieName, parts[0] + "|" + parts[1] + "|" + c03Sign(X.Inst.Secret, "x"+X.CookieName, parts[0], parts[1])}}},
		)
		if inner, err := c03OpenCSRF(X.Inst.Secret, X.CookieValue); err == nil && len(inner.S) > 0 {
			if v, err := c03SealCSRF(c03SecretB, X.CookieName, inner, time.Now().Unix()); err == nil {
				vs = append(vs, c03Named{Name: "own-content-reencrypted-and-resigned-by-sibling-secret", Class: "resigned", Cks: [][2]string{{X.CookieName, v}}})
			}
			// the raw content sent without encryption but correctly signed is not what the proxy set either
			cs.Run.Count("csrf_cookies_opened_by_harness", 1)
		} else {
			cs.Run.Inconclusive("harness could not open its own CSRF cookie with the configured secret")
		}
	} else {
		cs.Run.Inconclusive("harness signer does not reproduce the proxy's CSRF cookie signature")
	}
	return vs
}

func (cs *c03Case) attempt(R *c03Inst, X *c03Login, sv, cv c03Named, part string) {
	run := cs.Run
	refCks := cv.Cks
	if cv.RefCks != nil {
		refCks = cv.RefCks
	}
	L, may, must := cs.reference(R, sv.State, refCks)
	K := X
	if L != nil {
		K = L
	}
	code, _, err := cs.W.IdP.Authorize(K.LoginURL, K.Ident)
	if err != nil {
		c03Rig(run, "authorize: %v", err)
		return
	}
	target := R.P.Opts.ProxyPrefix + "/callback?code=" + vfQueryEscape(code)
	if sv.State != nil {
		target += "&state=" + vfQueryEscape(*sv.State)
	}
	req := vfGET(target)
	for _, c := range cv.Cks {
		req.Cookie(c[0], c[1])
	}
	resp := R.P.Do(req)
	o, leaked := cs.observe(R, resp, K.Ident.Email)
	wit := &c03Witness{Config: cs.Cfg.Label() + ",store=" + cs.Cfg.Store, ReceiverFlags: R.P.Flags, Receiver: R.Role, Part: part, StateVariant: sv.Name, CookieVariant: cv.Name,
		State: sv.State, Cookies: cv.Cks, CodeOf: K.ID, Request: req, May: may, Must: must, TakenFrom: X.ID}
	if L != nil {
		wit.StateLogin = L.ID
	}
	want := "no"
	if must {
		want = "must"
	} else if may {
		want = "may"
	}
	run.Eval(fmt.Sprintf("%s|%s|cookie=%s|state=%s|want=%s", cs.Cfg.Label(), R.Role, cv.Class, sv.Class, want))
	run.Count("callbacks_"+part, 1)
	if o.Session {
		run.Count("callbacks_with_session", 1)
	}
	if must {
		run.Count("must_succeed_cases", 1)
	}
	cs.verdict(wit, o, leaked)
	run.SampleEvery(3001, func() interface{} {
		return map[string]interface{}{"config": cs.Cfg.Label(), "state_variant": sv.Name, "cookie_variant": cv.Name, "may": may, "must": must, "status": resp.Code, "session": o.Session}
	})
}

func c03Configs(thorough bool, seed int64) []c03Cfg {
	var out []c03Cfg
	k := 0
	for _, pr := range []bool{false, true} {
		for _, en := range []bool{false, true} {
			for _, bind := range []struct {
				pk   string
				skip bool
			}{{"", true}, {"", false}, {"S256", false}, {"S256", true}} {
				if !thorough && bind.pk == "S256" && bind.skip {
					continue
				}
				if !thorough && bind.pk == "" && !bind.skip && (c03Bit(pr)*2+c03Bit(en)) != int(seed&3) {
					continue // quick tier: PKCE-less with nonce checking for one (seed-chosen) of the four (per-request, encode-state) combinations
				}
				stores := []string{"cookie", "redis"}
				if !thorough {
					stores = []string{stores[k%2]}
				}
				k++
				for _, st := range stores {
					c := c03Cfg{PerReq: pr, Encode: en, PKCE: bind.pk, SkipNonce: bind.skip, Store: st}
					switch len(out) % 4 {
					case 1:
						c.CookieName = "c03_sess"
					case 2:
						c.Prefix = "/auth2"
					case 3:
						c.SignInPage = true
					}
					switch len(out) % 3 {
					case 0:
						c.CSRFExpire = "0s"
					case 2:
						c.CSRFExpire = "24h"
					}
					out = append(out, c)
				}
			}
		}
	}
	return out
}

func TestVerif_C03(t *testing.T) {
	run := vfNewRun(t, "C03", "exploration")
	run.SetRule("Part A: per configuration 2 browsers x 3 interleaved logins (start?rd= / protected URL) on the main instance plus logins on a sibling with another cookie secret and on a sibling with the opposite --encode-state; " +
		"every login X x ~55 presented-cookie sets (own, other login, other browser, issued by a replica with a skewed clock (3 s … 4 min 59 s ahead, behind), tampered value/timestamp/signature, characters appended to each field / trailing '|', re-signed/re-encrypted with the sibling secret, absent, own+other in both orders, values under foreign names, duplicate names) x 26 state variants " +
		"(verbatim, redirect changed, nonce of another login, truncated, empty, nonce prefix/extension/changed char, encoding mismatch), received by the main and both sibling instances. " +
		"Part B: real cookie jars, 1-3 logins per browser, all completion permutations and seeded random start/complete/replay walks. " +
		"cell = (csrf-per-request, encode-state, PKCE, skip-nonce, receiver, cookie class, state class, expected) ; non-trivial = every callback (each needs a started login)")
	run.Assume("the fake IdP issues a fresh single-use code per callback, bound to the authorization request of the login whose nonce the state carries (so nonce/PKCE binding — C05 — cannot mask a CSRF acceptance)",
		"a state whose redirect part differs but whose nonce part is the login's is not required to fail (only the nonce is bound); its success is not required either",
		"duplicate cookies of one name are judged in the safety direction only")
	w := vfNewWorld(t)
	defer w.Close()
	var mains []*c03Inst
	for ci, cfg := range c03Configs(run.Env.Thorough(), run.Env.Seed) {
		mains = append(mains, c03RunConfig(run, w, cfg, ci))
	}
	c03EntropyFaults(run, w, mains)
	if run.Counter("entropy_faults_fired") == 0 || run.Counter("entropy_fault_starts_refused") == 0 {
		fmt.Printf("INCONCLUSIVE property=C03 reason=entropy-fault phase injected no fault / saw no refused start\n")
		t.Fail()
	}
	run.RaceCheck("") // races are not this property's business: reports are kept as NOTE lines for diagnosis
	if n := run.Counter("rig_failures"); n > 0 {
		fmt.Printf("INCONCLUSIVE property=C03 reason=%d rig failures (see NOTE lines)\n", n)
		t.Fail()
	}
	run.Finish(int64(run.Env.Pick(10000, 100000)), run.Env.Pick(1200, 2500))
}

func c03RunConfig(run *vfRun, w *vfWorld, cfg c03Cfg, ci int) *c03Inst {
	rng := mrand.New(mrand.NewSource(run.Env.Seed*1000003 + int64(ci)))
	mkInst := func(role, secret string, encode bool) *c03Inst {
		p, err := w.NewProxy(cfg.flags(w, secret, encode)...)
		if err != nil {
			run.T.Fatalf("config %s (%s): %v", cfg.Label(), role, err)
		}
		return &c03Inst{Role: role, P: p, Secret: secret, Encoded: encode}
	}
	A := mkInst("main", c03SecretA, cfg.Encode)
	B := mkInst("other-secret", c03SecretB, cfg.Encode)
	C := mkInst("flipped-encoding", c03SecretA, !cfg.Encode)
	cs := &c03Case{Run: run, W: w, Cfg: cfg, byKey: map[string]*c03Login{}}
	keysBefore := 0
	if cfg.Store == "redis" {
		keysBefore = len(w.Redis().Keys())
	}

	// --- starts: two browsers, three logins each, interleaved -------------------------------------------------
	br := []*vfBrowser{vfNewBrowser(""), vfNewBrowser("")}
	order := []int{0, 0, 0, 1, 1, 1}
	rng.Shuffle(len(order), func(i, j int) { order[i], order[j] = order[j], order[i] })
	per := [2][]*c03Login{}
	for _, bi := range order {
		kind := "start"
		if rng.Intn(2) == 0 {
			kind = "protected"
		}
		l, err := c03Start(A, br[bi], bi, kind, fmt.Sprintf("A-b%d-%d", bi, len(per[bi])))
		if err != nil {
			run.T.Fatalf("config %s: %v", cfg.Label(), err)
		}
		per[bi] = append(per[bi], l)
		cs.add(l)
	}
	sb := vfNewBrowser("")
	S, err := c03Start(B, sb, 2, "start", "B-0")
	if err != nil {
		run.T.Fatalf("config %s sibling: %v", cfg.Label(), err)
	}
	cs.add(S)
	S2, err := c03Start(B, sb, 2, "protected", "B-1")
	if err != nil {
		run.T.Fatalf("config %s sibling: %v", cfg.Label(), err)
	}
	cs.add(S2)
	F, err := c03Start(C, vfNewBrowser(""), 3, "start", "C-0")
	if err != nil {
		run.T.Fatalf("config %s sibling: %v", cfg.Label(), err)
	}
	cs.add(F)
	run.Count("logins_started", 9)

	// --- attempts -----------------------------------------------------------------------------------------------
	type job struct {
		R      *c03Inst
		X      *c03Login
		sv, cv c03Named
	}
	var jobs []job
	for bi := 0; bi < 2; bi++ {
		full := -1 // quick tier: one login per browser gets the whole matrix, the others the core pairings only
		if !run.Env.Thorough() {
			full = rng.Intn(3)
		}
		for k, X := range per[bi] {
			Y, Y2 := per[bi][(k+1)%3], per[bi][(k+2)%3]
			Zs := per[1-bi]
			svs := c03StateVariants(X, Y, Zs[rng.Intn(3)], F)
			cvs := cs.cookieVariants(X, Y, Y2, Zs, S, rng)
			for _, sv := range svs {
				for _, cv := range cvs {
					// quick tier: pairings in which both the state and the cookie set are foreign/broken and the reference
					// sees no matching pair are thinned to a seeded third; everything else is always run
					goodState := sv.Class == "verbatim" || sv.Class == "redirect-changed"
					goodCookie := cv.Class == "own" || cv.Class == "own+other" || cv.Class == "other+own" || cv.Class == "duplicate-name"
					if !run.Env.Thorough() && !goodState && (!goodCookie || (k != full && cv.Name != "own")) {
						if _, may, _ := cs.reference(A, sv.State, cv.Cks); !may && (k != full || rng.Intn(3) != 0) {
							continue
						}
					}
					jobs = append(jobs, job{A, X, sv, cv})
				}
			}
			if !run.Env.Thorough() && k != full {
				continue // quick tier: one login per browser is also presented to the siblings
			}
			// the same login presented to the siblings: the other-secret proxy must refuse everything, the flipped-encoding
			// replica (same secret) reads the state in its own encoding
			for _, sv := range svs {
				switch sv.Class {
				case "redirect-changed", "other-login-nonce":
					if !run.Env.Thorough() {
						continue
					}
					fallthrough
				case "verbatim", "encoding-mismatch":
					for _, cv := range cvs {
						switch cv.Class {
						case "own", "own+other", "other+own", "absent", "foreign-secret":
							jobs = append(jobs, job{B, X, sv, cv}, job{C, X, sv, cv})
						case "resigned":
							// forgeries made with the sibling's secret are genuine cookies for the sibling itself: only the
							// replica sharing the main secret is asked
							jobs = append(jobs, job{C, X, sv, cv})
						}
					}
				}
			}
		}
	}
	// logins of the siblings presented (complete, unmodified pairs and mixes) to the main instance and to themselves
	for _, X := range []*c03Login{S, S2, F} {
		Y, Z := per[0][0], per[1][0]
		if X == F {
			// F's own siblings are the main instance's logins (same secret)
		}
		svs := c03StateVariants(X, Y, Z, F)
		own := c03Named{Name: "own", Class: "own", Cks: [][2]string{{X.CookieName, X.CookieValue}}}
		both := c03Named{Name: "own+main-login", Class: "own+other", Cks: [][2]string{{X.CookieName, X.CookieValue}, {Y.CookieName, Y.CookieValue}}}
		for _, sv := range svs {
			for _, cv := range []c03Named{own, both} {
				jobs = append(jobs, job{A, X, sv, cv}, job{X.Inst, X, sv, cv})
			}
		}
	}
	vfParallel(len(jobs), 16, func(i int) {
		j := jobs[i]
		cs.attempt(j.R, j.X, j.sv, j.cv, "matrix")
	})

	// --- Part B ---------------------------------------------------------------------------------------------------
	c03Histories(cs, A, rng)

	if cfg.Store == "redis" {
		added := len(w.Redis().Keys()) - keysBefore
		run.Count("redis_keys_added", int64(added))
		run.Eval(cfg.Label() + "|redis-accounting")
		run.Count("redis_keys_deleted_by_sign_out", atomic.LoadInt64(&cs.nKeyDel))
		if int64(added) != atomic.LoadInt64(&cs.nSess)-atomic.LoadInt64(&cs.nKeyDel) {
			run.Violation("c03:redis-entries-differ-from-sessions-established",
				fmt.Sprintf("[%s] %d callbacks set a session cookie and %d other requests ended a session, but the Redis store gained %d keys: a failed callback left a session entry behind (or a successful one stored none)", cfg.Label(), cs.nSess, cs.nKeyDel, added),
				map[string]interface{}{"flags": A.P.Flags, "callbacks_with_session_cookie": cs.nSess, "redis_keys_added": added})
		}
	}
	return A
}

// ---------------------------------------------------------------------------------------------------------
// entropy faults: a login must fail closed when the random source fails, never start with a constant / zero state nonce
// (a predictable state is no CSRF binding at all)

type c03FaultyRand struct {
	real  io.Reader
	size  int // fail every read of exactly this many bytes (0 = off)
	kth   int // fail the k-th read (0 = off)
	short bool
	n     int
	fired int
	sizes []int
}

func (f *c03FaultyRand) Read(p []byte) (int, error) {
	f.n++
	f.sizes = append(f.sizes, len(p))
	if (f.size != 0 && len(p) == f.size) || (f.kth != 0 && f.n == f.kth) {
		f.fired++
		if f.short && len(p) > 1 {
			k, _ := io.ReadFull(f.real, p[:len(p)/2])
			return k, errors.New("c03: injected entropy failure (short read)")
		}
		return 0, errors.New("c03: injected entropy failure")
	}
	return f.real.Read(p)
}

func c03ZeroRun(b []byte, min int) bool {
	n := 0
	for _, c := range b {
		if c == 0 {
			if n++; n >= min {
				return true
			}
		} else {
			n = 0
		}
	}
	return false
}

// c03EntropyFaults runs strictly sequentially with no request in flight: crypto/rand.Reader (a package variable) is replaced
// around single login starts by a reader that fails selected reads, and restored right after each.
func c03EntropyFaults(run *vfRun, w *vfWorld, insts []*c03Inst) {
	_ = w.IdP.EventCount("authorize") // orders the provider's earlier use of the random source before the swap
	real := rand.Reader
	defer func() { rand.Reader = real }()
	type plan struct {
		size, kth int
		short     bool
	}
	var plans []plan
	for _, short := range []bool{false, true} {
		plans = append(plans, plan{size: 32, short: short})
		for k := 1; k <= 5; k++ {
			plans = append(plans, plan{kth: k, short: short})
		}
	}
	if !run.Env.Thorough() && len(insts) > 4 {
		insts = insts[:4]
	}
	seen := map[string]string{} // state nonce (as sent) -> start that used it
	seq := 0
	for _, inst := range insts {
		for _, pl := range plans {
			for rep := 0; rep < 2; rep++ {
				seq++
				f := &c03FaultyRand{real: real, size: pl.size, kth: pl.kth, short: pl.short}
				req := vfGET(inst.P.Opts.ProxyPrefix + "/start?rd=" + vfQueryEscape(fmt.Sprintf("/app/c03/entropy/%d", seq)))
				rand.Reader = f
				resp := inst.P.Do(req)
				rand.Reader = real
				what := "fail every 32-byte read"
				if pl.kth != 0 {
					what = fmt.Sprintf("fail read #%d", pl.kth)
				}
				if pl.short {
					what += " after half of the bytes"
				}
				run.Count("entropy_fault_starts", 1)
				run.Count("entropy_faults_fired", int64(f.fired))
				det := map[string]interface{}{"flags": inst.P.Flags, "request": req, "fault": what, "reads_of_the_random_source_during_the_request": f.sizes, "faults_fired": f.fired,
					"status": resp.Code, "location": resp.Location(), "set_cookie": resp.SetCookies()}
				name, value := "", ""
				for _, sc := range resp.SetCookies() {
					if ck, err := http.ParseSetCookie(sc); err == nil && strings.HasSuffix(ck.Name, "_csrf") && ck.MaxAge >= 0 && ck.Value != "" {
						name, value = ck.Name, ck.Value
					}
				}
				fired := "fault-fired"
				if f.fired == 0 {
					fired = "fault-not-reached"
				}
				if resp.Code != 302 {
					run.Eval(fmt.Sprintf("entropy|%s|%s|refused", what, fired))
					run.Count("entropy_fault_starts_refused", 1)
					if resp.Code < 400 || name != "" || resp.Location() != "" {
						run.Violation("c03:refused-login-start-not-clean", fmt.Sprintf("%s: the start answered %d with CSRF cookie %q and Location %q", what, resp.Code, name, resp.Location()), det)
					}
					if f.fired == 0 {
						run.Violation("c03:own-pair-rejected", fmt.Sprintf("login start refused (%d) although no entropy fault was injected during it", resp.Code), det)
					}
					continue
				}
				run.Eval(fmt.Sprintf("entropy|%s|%s|started", what, fired))
				run.Count("entropy_fault_starts_proceeded", 1)
				u, err := url.Parse(resp.Location())
				if err != nil {
					c03Rig(run, "entropy phase: Location %q: %v", resp.Location(), err)
					continue
				}
				state := u.Query().Get("state")
				nonce, _, ok := c03SplitState(state, inst.Encoded)
				id := fmt.Sprintf("entropy-%d (%s)", seq, what)
				switch {
				case !ok || nonce == "":
					run.Violation("c03:login-started-with-constant-state", fmt.Sprintf("%s: the login was started with the state %q that carries no nonce", what, state), det)
				case seen[nonce] != "":
					run.Violation("c03:login-started-with-constant-state", fmt.Sprintf("%s: the login was started with the state nonce %q, the same as start %s: the state is predictable", what, nonce, seen[nonce]), det)
				default:
					seen[nonce] = id
				}
				if inner, err := c03OpenCSRF(inst.Secret, value); err != nil {
					run.Violation("c03:login-started-with-unusable-csrf-cookie", fmt.Sprintf("%s: the login was started (302) but its CSRF cookie %q is missing or cannot be opened with the cookie secret: %v", what, name, err), det)
				} else if len(inner.S) < 16 || c03ZeroRun(inner.S, 16) {
					run.Violation("c03:login-started-with-constant-state", fmt.Sprintf("%s: the login was started with the raw state nonce %x (not random: the failed read left zero bytes)", what, inner.S), det)
				}
			}
		}
	}
}

// ---------------------------------------------------------------------------------------------------------
// Part B: histories through real cookie jars

type c03Op struct {
	Op   string // start | complete | replay | noise
	B    int
	Kind string // start: start | protected ; noise: which unrelated request the browser makes
	Idx  int // complete/replay: index into the browser's list of started logins
}

func (o c03Op) String() string {
	if o.Op == "start" || o.Op == "noise" {
		return fmt.Sprintf("b%d:%s(%s)", o.B, o.Op, o.Kind)
	}
	return fmt.Sprintf("b%d:%s(#%d)", o.B, o.Op, o.Idx)
}

func c03Perms(n int) [][]int {
	if n == 0 {
		return [][]int{{}}
	}
	var out [][]int
	var rec func(cur []int, used int)
	rec = func(cur []int, used int) {
		if len(cur) == n {
			out = append(out, append([]int{}, cur...))
			return
		}
		for k := 0; k < n; k++ {
			if used&(1<<uint(k)) == 0 {
				rec(append(cur, k), used|1<<uint(k))
			}
		}
	}
	rec(nil, 0)
	return out
}

func c03Kind(rng *mrand.Rand) string {
	if rng.Intn(2) == 0 {
		return "protected"
	}
	return "start"
}

// c03Merge interleaves two op sequences keeping each one's internal order.
func c03Merge(a, b []c03Op, rng *mrand.Rand) []c03Op {
	out := make([]c03Op, 0, len(a)+len(b))
	for len(a) > 0 || len(b) > 0 {
		if len(b) == 0 || (len(a) > 0 && rng.Intn(len(a)+len(b)) < len(a)) {
			out, a = append(out, a[0]), a[1:]
		} else {
			out, b = append(out, b[0]), b[1:]
		}
	}
	return out
}

// the other requests a browser makes while logins are pending; none of them is a callback or (in the configurations
// they are used in) a login start, so none may touch a pending login's CSRF cookie
var c03NoiseKinds = []string{"sign-out", "sign-in-page", "protected-unauthenticated", "auth-with-garbage-session-cookie", "userinfo", "static-asset", "robots", "ping"}

func c03Noise(rng *mrand.Rand, b int) c03Op {
	return c03Op{Op: "noise", B: b, Kind: c03NoiseKinds[rng.Intn(len(c03NoiseKinds))]}
}

// c03InsertNoise puts n noise requests of browser b at seeded positions after the first op.
func c03InsertNoise(ops []c03Op, n int, rng *mrand.Rand) []c03Op {
	for k := 0; k < n && len(ops) > 1; k++ {
		pos := 1 + rng.Intn(len(ops)-1)
		op := c03Noise(rng, ops[rng.Intn(len(ops))].B)
		ops = append(ops[:pos], append([]c03Op{op}, ops[pos:]...)...)
	}
	return ops
}

type c03History struct {
	Family string
	Shape  string
	Ops    []c03Op
}

func c03GenHistories(rng *mrand.Rand, thorough bool) []c03History {
	var hs []c03History
	maxOther := 2
	if thorough {
		maxOther = 3
	}
	// family 1: all starts first (interleaved over both browsers), then every completion permutation of browser 0
	for n0 := 1; n0 <= 3; n0++ {
		for n1 := 0; n1 <= maxOther; n1++ {
			for pi, perm := range c03Perms(n0) {
				var s0, s1, c0, c1 []c03Op
				for k := 0; k < n0; k++ {
					s0 = append(s0, c03Op{Op: "start", B: 0, Kind: c03Kind(rng)})
				}
				for k := 0; k < n1; k++ {
					s1 = append(s1, c03Op{Op: "start", B: 1, Kind: c03Kind(rng)})
				}
				for _, k := range perm {
					c0 = append(c0, c03Op{Op: "complete", B: 0, Idx: k})
				}
				for _, k := range rng.Perm(n1) {
					c1 = append(c1, c03Op{Op: "complete", B: 1, Idx: k})
				}
				starts := c03Merge(s0, s1, rng)
				// one unrelated request right between the starts and the completions, two more anywhere
				ops := append(append(starts, c03Noise(rng, starts[rng.Intn(len(starts))].B)), c03Merge(c0, c1, rng)...)
				ops = c03InsertNoise(ops, 2, rng)
				hs = append(hs, c03History{Family: "starts-then-permutation", Shape: fmt.Sprintf("n=%d+%d,perm=%d", n0, n1, pi), Ops: ops})
			}
		}
	}
	// family 2: random walks mixing starts, completions and replays of finished logins
	nw := 24
	if thorough {
		nw = 240
	}
	for k := 0; k < nw; k++ {
		var ops []c03Op
		started := [2]int{}
		var pending [2][]int
		var done [2][]int
		for step := 0; step < 40; step++ {
			b := rng.Intn(2)
			r := rng.Intn(10)
			switch {
			case r < 4 && started[b] < 3:
				ops = append(ops, c03Op{Op: "start", B: b, Kind: c03Kind(rng)})
				pending[b] = append(pending[b], started[b])
				started[b]++
			case r < 8 && len(pending[b]) > 0:
				j := rng.Intn(len(pending[b]))
				ops = append(ops, c03Op{Op: "complete", B: b, Idx: pending[b][j]})
				done[b] = append(done[b], pending[b][j])
				pending[b] = append(pending[b][:j], pending[b][j+1:]...)
			case r == 8 && len(pending[b]) > 0:
				ops = append(ops, c03Noise(rng, b))
			case len(done[b]) > 0:
				ops = append(ops, c03Op{Op: "replay", B: b, Idx: done[b][rng.Intn(len(done[b]))]})
			}
			if started[0] == 3 && started[1] == 3 && len(pending[0]) == 0 && len(pending[1]) == 0 {
				break
			}
		}
		for b := 0; b < 2; b++ {
			for _, j := range pending[b] {
				ops = append(ops, c03Op{Op: "complete", B: b, Idx: j})
			}
		}
		hs = append(hs, c03History{Family: "random-walk", Shape: "walk", Ops: ops})
	}
	return hs
}

// noise sends one unrelated request through the browser's jar and checks that the CSRF cookie of every login still
// pending in that browser survives the response: only the callback that consumes it (and, with the single shared name,
// a later login start) may remove a pending login's cookie.
func (cs *c03Case) noise(A *c03Inst, b *vfBrowser, op c03Op, started []*c03Login, attempted map[*c03Login]int, trail []string) {
	run := cs.Run
	pre := A.P.Opts.ProxyPrefix
	sessName := A.P.Opts.Cookie.Name
	hasSession := false
	for _, c := range b.Jar.All() {
		if c03IsSessionName(c.Name, sessName) {
			hasSession = true
		}
	}
	n := atomic.AddInt64(&c03Seq, 1)
	var req *vfReq
	kind := op.Kind
	switch kind {
	case "sign-in-page", "protected-unauthenticated":
		if A.P.Opts.SkipProviderButton {
			kind = "userinfo" // with --skip-provider-button these two would START a login: not an unrelated request
		}
	case "auth-with-garbage-session-cookie":
		if hasSession {
			kind = "static-asset" // a second cookie of the session name would be an artificial duplicate
		}
	}
	switch kind {
	case "sign-out":
		req = vfGET(pre + "/sign_out")
	case "sign-in-page":
		req = vfGET(pre + "/sign_in")
	case "protected-unauthenticated":
		req = vfGET(fmt.Sprintf("/app/noise/%d?x=1", n))
	case "auth-with-garbage-session-cookie":
		garbage := []string{"garbage", "AAAA|1|BBBB", "djE6|1790000000|c2ln", strings.Repeat("x", 300)}
		req = vfGET(pre+"/auth").Cookie(sessName, garbage[int(n)%len(garbage)])
	case "userinfo":
		req = vfGET(pre + "/userinfo")
	case "static-asset":
		req = vfGET(pre + "/static/css/bulma.min.css")
	case "robots":
		req = vfGET("/robots.txt")
	default:
		req = vfGET("/ping")
	}
	held := map[*c03Login]bool{}
	for _, c := range b.Jar.All() {
		for _, l := range started {
			if c.Name == l.CookieName && c.Value == l.CookieValue {
				held[l] = true
			}
		}
	}
	resp := b.Send(A.P, req)
	if hasSession && cs.Cfg.Store == "redis" {
		// a response that ends the browser's session (sign-out; the sign-in page also clears the session it is shown over)
		// deletes the Redis entry of that session
		gone := true
		for _, c := range b.Jar.All() {
			if c03IsSessionName(c.Name, sessName) {
				gone = false
			}
		}
		if gone {
			atomic.AddInt64(&cs.nKeyDel, 1)
		}
	}
	if resp.Code == 302 && strings.HasPrefix(resp.Location(), cs.W.IdP.Issuer) {
		c03Rig(run, "[%s] noise request %s unexpectedly started a login", cs.Cfg.Label(), kind)
		return
	}
	still := map[*c03Login]bool{}
	for _, c := range b.Jar.All() {
		for _, l := range started {
			if c.Name == l.CookieName && c.Value == l.CookieValue {
				still[l] = true
			}
		}
	}
	pending := 0
	for _, l := range started {
		if !held[l] {
			continue
		}
		if attempted[l] == 0 {
			pending++
		}
		if !still[l] {
			run.Violation("c03:pending-login-csrf-cookie-expired-by-unrelated-response",
				fmt.Sprintf("[%s,store=%s] after %v: the response to the unrelated request %s %s (status %d) removed the CSRF cookie %s of login %s from the browser (Set-Cookie: %v)", cs.Cfg.Label(), cs.Cfg.Store, trail, req.Method, req.Target, resp.Code, l.CookieName, l.ID, resp.SetCookies()),
				map[string]interface{}{"flags": A.P.Flags, "history": append([]string{}, trail...), "request": req, "status": resp.Code, "set_cookie": resp.SetCookies(), "login": l.info(), "login_already_brought_to_callback": attempted[l] > 0})
		}
	}
	p := "0"
	if pending == 1 {
		p = "1"
	} else if pending > 1 {
		p = "2+"
	}
	run.Eval(fmt.Sprintf("%s|jar|noise=%s|pending=%s|session=%v", cs.Cfg.Label(), kind, p, hasSession))
	run.Count("noise_requests", 1)
	if pending > 0 {
		run.Count("noise_requests_with_pending_login", 1)
	}
}

func c03Histories(cs *c03Case, A *c03Inst, rng *mrand.Rand) {
	run := cs.Run
	hs := c03GenHistories(rng, run.Env.Thorough())
	var hseq int64
	vfParallel(len(hs), 16, func(hi int) {
		h := hs[hi]
		hn := atomic.AddInt64(&hseq, 1)
		br := [2]*vfBrowser{vfNewBrowser(""), vfNewBrowser("")}
		var started [2][]*c03Login
		attempted := map[*c03Login]int{}
		lastCallbackSeq := [2]int{-1, -1} // op index of the last callback attempted in the browser
		startSeq := map[*c03Login]int{}
		var trail []string
		for oi, op := range h.Ops {
			trail = append(trail, op.String())
			b := br[op.B]
			if op.Op == "start" {
				l, err := c03Start(A, b, op.B, op.Kind, fmt.Sprintf("h%d-b%d-%d", hn, op.B, len(started[op.B])))
				if err != nil {
					c03Rig(run, "[%s] history %v: %v", cs.Cfg.Label(), trail, err)
					return
				}
				started[op.B] = append(started[op.B], l)
				startSeq[l] = oi
				cs.add(l)
				run.Count("logins_started", 1)
				continue
			}
			if op.Op == "noise" {
				cs.noise(A, b, op, started[op.B], attempted, trail)
				continue
			}
			X := started[op.B][op.Idx]
			code, _, err := cs.W.IdP.Authorize(X.LoginURL, X.Ident)
			if err != nil {
				c03Rig(run, "authorize: %v", err)
				return
			}
			target := A.P.Opts.ProxyPrefix + "/callback?code=" + vfQueryEscape(code) + "&state=" + vfQueryEscape(X.State)
			var cks [][2]string
			inJar := false
			hasSession := false
			for _, c := range b.Jar.For(b.Host, target, false) {
				cks = append(cks, [2]string{c.Name, c.Value})
				if c03IsSessionName(c.Name, A.P.Opts.Cookie.Name) {
					hasSession = true
				}
				if c.Name == X.CookieName && c.Value == X.CookieValue {
					inJar = true
				}
			}
			L, may, must := cs.reference(A, &X.State, cks)
			// what a browser must still hold, independent of what the jar says: with per-request cookies every login that was
			// never brought to the callback; with the shared name the latest login of the browser if no callback came since
			latest := started[op.B][len(started[op.B])-1] == X
			expectHeld := attempted[X] == 0 && (cs.Cfg.PerReq || (latest && lastCallbackSeq[op.B] < startSeq[X]))
			wit := &c03Witness{Config: cs.Cfg.Label() + ",store=" + cs.Cfg.Store, ReceiverFlags: A.P.Flags, Receiver: A.Role, Part: "jar-history/" + h.Family, StateVariant: "verbatim",
				CookieVariant: fmt.Sprintf("jar(%d cookies, own present=%v)", len(cks), inJar), State: &X.State, Cookies: cks, CodeOf: X.ID, TakenFrom: X.ID, May: may, Must: must, History: append([]string{}, trail...), reusesTicket: hasSession}
			if L != nil {
				wit.StateLogin = L.ID
			}
			if expectHeld && !inJar {
				wit.Logins = cs.infos()
				run.Violation("c03:own-csrf-cookie-not-in-browser",
					fmt.Sprintf("[%s] after %v the browser no longer holds the CSRF cookie of its outstanding login %s", cs.Cfg.Label(), trail, X.ID), wit)
			}
			req := vfGET(target)
			wit.Request = req
			resp := b.Send(A.P, req)
			attempted[X]++
			lastCallbackSeq[op.B] = oi
			o, leaked := cs.observe(A, resp, X.Ident.Email)
			order := "other"
			switch {
			case len(started[op.B]) == 1:
				order = "single"
			case latest:
				order = "latest-started"
			case op.Idx == 0:
				order = "first-started"
			}
			want := "no"
			if must {
				want = "must"
			} else if may {
				want = "may"
			}
			run.Eval(fmt.Sprintf("%s|jar|%s|%s|outstanding=%d|order=%s|want=%s", cs.Cfg.Label(), h.Family, op.Op, len(cks), order, want))
			run.Count("callbacks_jar", 1)
			if must {
				run.Count("must_succeed_cases", 1)
				run.Count("must_succeed_jar_with_"+strconv.Itoa(len(cks))+"_cookies", 1)
			}
			if o.Session {
				run.Count("callbacks_with_session", 1)
			}
			cs.verdict(wit, o, leaked)
		}
		run.Count("histories", 1)
	})
}
