//go:build verif

package main

// C09 — Sessions are never honoured past the configured lifetime.
//
// Oracle (written from the property statement; nothing of the code's own validation is called):
//   a credential stamped S (issue time or last refresh, whole seconds) under cookie-expire E
//     must be REJECTED at any instant t with  t-S >= E   or   S-t > 5 min
//     must be SERVED   at any instant t with  t-S <  E   and  S-t < 5 min
//   Three clocks exist (time.Now in the signature check, pkg/clock for CreatedAt, miniredis' manual TTL clock), so no
//   verdict uses an assumed "now": S is IMPOSED (the pkg/clock mock is set around the issuing / refreshing request
//   only, at a quiescent point) and every probe is BRACKETED by two readings t0 <= t1 of the real clock taken around
//   it. "must reject" is asserted only if it holds on the whole of [t0,t1], "must serve" likewise; a probe whose
//   bracket contains a threshold is re-issued and re-run (bounded), then counted inconclusive — never reported.
//   Equalities: Max-Age of every session Set-Cookie == E seconds; miniredis TTL of the session key == E right after
//   every save (issue and refresh); after the store's clock has passed the TTL the entry is gone and the session with it.
//   Refresh: the re-issued credential has its own window from the refresh time R; the old cookie keeps the window of
//   ITS stamp (cookie store: both directions; Redis: the ticket cookie names a session that was "last refreshed" at R,
//   so rejection is demanded from R+E on, service inside the old cookie's own window).
//
// Served = 200 + upstream hit on a protected path / 202 on /oauth2/auth / 200 on /oauth2/userinfo;
// rejected = 403 sign-in page / 401.

import (
	"crypto/sha1"
	"encoding/base64"
	"fmt"
	"net/http"
	"net/url"
	"strconv"
	"strings"
	"sync/atomic"
	"testing"
	"time"

	"github.com/oauth2-proxy/oauth2-proxy/v7/pkg/clock"
	"github.com/oauth2-proxy/oauth2-proxy/v7/pkg/requests"
)

const c09Future = 5 * time.Minute

type c09Inst struct {
	Store   string
	Expire  time.Duration
	Refresh time.Duration
	Large   bool // very large lifetime (cannot be waited for): reduced grid, equality checks on Max-Age / Expires / TTL, mocked-clock acceptance
	P       *vfProxy
	W       *vfWorld
}

func (in *c09Inst) String() string {
	return fmt.Sprintf("%s/E=%s/R=%s", in.Store, in.Expire, in.Refresh)
}

// c09Sess is one session (one login); several credentials (cookies) may name it over time.
type c09Sess struct {
	In           *c09Inst
	Origin       string // oidc | oidc-nort | htpasswd
	RedisKey     string
	LastRestamp  time.Time // upper bound of the latest refresh of this session (zero: never refreshed)
	TokenExpLow  time.Time // lower bound of the ID token's expiry (service inside the window is only demanded before it)
	HasRT        bool
}

type c09Cred struct {
	Sess   *c09Sess
	Cookie string    // name=value
	S      time.Time // stamp, whole seconds
	Kind   string    // issued | mock-refresh | real-refresh
	Old    bool      // a newer credential of the same session exists
	Note   string
}

type c09Ctx struct {
	cellSum map[string]int // (threshold kind | side | distance) aggregated over stores and lifetimes, for the evidence
	run  *vfRun
	w    *vfWorld
	seq  int64
	name string // session cookie name
	// failed-refresh phase: the IdP is scripted to fail the refresh conversation of the next probe
	fault  string        // name of the scripted failure ("" = none): no grant is possible, service of the faulted request itself is not judged
	giveUp time.Duration // the client of the proxy walks away after this long (request context cancelled)
}

type c09SetCookie struct {
	Name, Value string
	MaxAge      string // raw attribute value, "" if absent
	HasMaxAge   bool
	Expires     string
	HasExpires  bool
	Raw         string
}

// c09ParseLine is an independent, attribute-by-attribute reading of a raw Set-Cookie line.
func c09ParseLine(line string) c09SetCookie {
	parts := strings.Split(line, ";")
	sc := c09SetCookie{Raw: line}
	if k := strings.IndexByte(parts[0], '='); k >= 0 {
		sc.Name, sc.Value = strings.TrimSpace(parts[0][:k]), strings.TrimSpace(parts[0][k+1:])
	}
	for _, a := range parts[1:] {
		a = strings.TrimSpace(a)
		k, v := a, ""
		if i := strings.IndexByte(a, '='); i >= 0 {
			k, v = a[:i], a[i+1:]
		}
		if strings.EqualFold(k, "max-age") {
			sc.MaxAge, sc.HasMaxAge = v, true
		}
		if strings.EqualFold(k, "expires") {
			sc.Expires, sc.HasExpires = v, true
		}
	}
	return sc
}

func (c *c09Ctx) isSessionName(n string) bool {
	if n == c.name {
		return true
	}
	if strings.HasPrefix(n, c.name+"_") {
		_, err := strconv.Atoi(n[len(c.name)+1:])
		return err == nil
	}
	return false
}

// sessionSets returns the session cookies a response sets (non-empty value), checking Max-Age == expire on each.
// stamp: the imposed pkg/clock time of the request, if any (an Expires attribute may be computed from either clock).
func (c *c09Ctx) sessionSets(in *c09Inst, resp *vfResp, where string, req *vfReq, stamp *time.Time) []c09SetCookie {
	var out []c09SetCookie
	for _, line := range resp.SetCookies() {
		sc := c09ParseLine(line)
		if !c.isSessionName(sc.Name) || sc.Value == "" {
			continue
		}
		out = append(out, sc)
		c.run.Eval("")
		c.run.Count("maxage_checks", 1)
		want := strconv.Itoa(int(in.Expire / time.Second))
		if !sc.HasMaxAge || sc.MaxAge != want {
			c.run.Violation("c09:max-age-differs", fmt.Sprintf("%s: session cookie set at %s has Max-Age=%q, configured lifetime is %s seconds", in, where, sc.MaxAge, want),
				map[string]interface{}{"flags": in.P.Flags, "request": req, "set_cookie": vfTrunc(line, 300), "expected_max_age": want})
		}
		if sc.HasExpires {
			// an Expires attribute, when given, must name the same end of life as Max-Age: (real or imposed) now + lifetime
			c.run.Count("expires_checks", 1)
			ok := false
			if et, err := http.ParseTime(sc.Expires); err == nil {
				near := func(ref time.Time) bool { d := et.Sub(ref.Add(in.Expire)); return d > -5*time.Second && d < 5*time.Second }
				ok = near(time.Now()) || (stamp != nil && near(*stamp))
			}
			if !ok {
				c.run.Violation("c09:expires-differs", fmt.Sprintf("%s: session cookie set at %s has Expires=%q, which is not now + the configured lifetime %s", in, where, sc.Expires, in.Expire),
					map[string]interface{}{"flags": in.P.Flags, "request": req, "set_cookie": vfTrunc(line, 300)})
			}
		}
	}
	return out
}

func c09CookieHeader(scs []c09SetCookie) string {
	var parts []string
	for _, s := range scs {
		parts = append(parts, s.Name+"="+s.Value)
	}
	return strings.Join(parts, "; ")
}

// checkTTL: the server-side entry is stored with the configured lifetime (read from miniredis right after the save).
func (c *c09Ctx) checkTTL(s *c09Sess, where string, req *vfReq) {
	if s.In.Store != "redis" || s.RedisKey == "" {
		return
	}
	mr := s.In.W.Redis()
	c.run.Eval("")
	c.run.Count("redis_ttl_checks", 1)
	if !mr.Exists(s.RedisKey) {
		c.run.Violation("c09:redis-entry-missing", fmt.Sprintf("%s: no Redis entry after the save at %s", s.In, where), map[string]interface{}{"flags": s.In.P.Flags, "request": req, "key": s.RedisKey})
		return
	}
	if ttl := mr.TTL(s.RedisKey); ttl != s.In.Expire {
		c.run.Violation("c09:redis-ttl-differs", fmt.Sprintf("%s: Redis entry saved at %s has TTL %s, configured lifetime is %s", s.In, where, ttl, s.In.Expire),
			map[string]interface{}{"flags": s.In.P.Flags, "request": req, "key": s.RedisKey, "ttl": ttl.String(), "expected": s.In.Expire.String()})
	}
}

func c09Keys(in *c09Inst) map[string]bool {
	m := map[string]bool{}
	if in.Store == "redis" {
		for _, k := range in.W.Redis().Keys() {
			m[k] = true
		}
	}
	return m
}

// issue logs in (OIDC code flow, or the htpasswd form) with the pkg/clock mock set to T around the issuing request only.
func (c *c09Ctx) issue(in *c09Inst, origin string, T time.Time, idTTL time.Duration) (*c09Cred, error) {
	T = T.Truncate(time.Second)
	before := c09Keys(in)
	sess := &c09Sess{In: in, Origin: origin, HasRT: origin == "oidc" || origin == "oidc-large" || origin == "oidc-badrt"}
	var resp *vfResp
	var req *vfReq
	switch origin {
	case "htpasswd":
		form := url.Values{"username": {"bob"}, "password": {"pw"}, "rd": {"/"}}
		req = vfNewReq("POST", "/oauth2/sign_in").WithBody("application/x-www-form-urlencoded", []byte(form.Encode()))
		clock.Set(T)
		resp = in.P.Do(req)
		clock.Reset()
		sess.TokenExpLow = time.Now().Add(1000 * time.Hour)
	default:
		id := vfStdIdentity
		id.Sub = fmt.Sprintf("u-%d", atomic.AddInt64(&c.seq, 1))
		id.NoRefreshToken = origin == "oidc-nort"
		if origin == "oidc-badrt" {
			// the session gets a refresh token the IdP will refuse for ever (and tokens that outlive short cookie lifetimes by far):
			// nothing can really refresh it, so it must die cookie-expire after its login
			in.W.IdP.Set(func(cf *vfIdPCfg) {
				cf.TokenResponseMutate = func(grant string, resp map[string]interface{}) {
					if grant == "code" {
						resp["refresh_token"] = "rt-never-issued-" + id.Sub
					}
				}
			})
			defer in.W.IdP.Set(func(cf *vfIdPCfg) { cf.TokenResponseMutate = nil })
		}
		if origin == "oidc-large" { // cookie store: the session is split over several cookies
			id.Extra = map[string]interface{}{"blob": vfRandHex(2600)}
		}
		if idTTL > 0 {
			in.W.IdP.Set(func(cf *vfIdPCfg) { cf.IDTokenTTL = idTTL })
			defer in.W.IdP.Set(func(cf *vfIdPCfg) { cf.IDTokenTTL = time.Hour })
		} else {
			idTTL = time.Hour
		}
		b := vfNewBrowser("")
		l, err := b.StartLogin(in.P, id, "/")
		if err != nil {
			return nil, fmt.Errorf("start: %v", err)
		}
		req = vfGET(l.CallbackTarget(in.P))
		if cs := b.Jar.For(b.Host, "/oauth2/callback", false); len(cs) > 0 {
			req.H("Cookie", vfCookieHeader(cs))
		}
		sess.TokenExpLow = time.Now().Add(idTTL - 2*time.Second)
		clock.Set(T)
		resp = in.P.Do(req)
		clock.Reset()
	}
	if resp.Code != 302 {
		return nil, fmt.Errorf("issuing request (%s at %s): status %d %s", origin, T.Format(time.RFC3339), resp.Code, vfTrunc(vfErrText(resp.Body), 200))
	}
	sets := c.sessionSets(in, resp, "login("+origin+")", req, &T)
	if len(sets) == 0 {
		return nil, fmt.Errorf("issuing request set no session cookie")
	}
	if in.Store == "redis" {
		for k := range c09Keys(in) {
			if !before[k] {
				sess.RedisKey = k
			}
		}
		if sess.RedisKey == "" {
			c.run.Violation("c09:redis-entry-missing", fmt.Sprintf("%s: login created no Redis entry", in), map[string]interface{}{"flags": in.P.Flags, "request": req})
		}
		c.checkTTL(sess, "login("+origin+")", req)
	}
	c.run.Count("sessions_issued", 1)
	return &c09Cred{Sess: sess, Cookie: c09CookieHeader(sets), S: T, Kind: "issued"}, nil
}

type c09Probe struct {
	Inst      string   `json:"instance"`
	Flags     []string `json:"flags,omitempty"`
	Origin    string   `json:"origin"`
	Kind      string   `json:"credential"`
	Old       bool     `json:"superseded_by_refresh"`
	Stamp     string   `json:"stamp"`
	T0        string   `json:"t0"`
	T1        string   `json:"t1"`
	AgeAtT0   string   `json:"age_t0"`
	Expire    string   `json:"expire"`
	Channel   string   `json:"channel"`
	Request   *vfReq   `json:"request,omitempty"`
	Status    int      `json:"status"`
	Outcome   string   `json:"outcome"`
	Want      string   `json:"want"`
	MockNow   string   `json:"pkg_clock_mock_during_request,omitempty"`
	Refreshed bool     `json:"response_reissued_session"`
	Note      string   `json:"note,omitempty"`
}

var c09Channels = []string{"/x", "/oauth2/auth", "/oauth2/userinfo"}

// want: accept | reject | straddle | unjudged
func c09Want(cr *c09Cred, t0, t1 time.Time) (string, string) {
	E := cr.Sess.In.Expire
	S := cr.S
	rejS := S // stamp from which rejection is demanded
	if cr.Old && cr.Sess.In.Store == "redis" && cr.Sess.LastRestamp.After(S) {
		rejS = cr.Sess.LastRestamp // the ticket names a session that was last refreshed then
	}
	// threshold kind + distance for the cell
	dExp := t0.Sub(S.Add(E))
	if dExp < 0 {
		dExp = S.Add(E).Sub(t1)
	}
	dFut := S.Add(-c09Future).Sub(t1)
	if dFut < 0 {
		dFut = t0.Sub(S.Add(-c09Future))
	}
	kind, d := "expire", dExp
	if dFut < dExp {
		kind, d = "future", dFut
	}
	if cr.Kind != "issued" {
		kind = "restamp-" + kind
	}
	if cr.Old {
		kind = "old-" + kind
	}
	bucket := "far"
	switch {
	case d < time.Second:
		bucket = "<1s"
	case d < 2*time.Second:
		bucket = "1-2s"
	case d <= 3*time.Second:
		bucket = "2-3s"
	}
	mustReject := t0.Sub(rejS) >= E || S.Sub(t1) > c09Future
	mustAccept := t1.Sub(S) < E && S.Sub(t0) < c09Future
	cell := ""
	switch {
	case mustReject:
		if bucket != "far" {
			cell = fmt.Sprintf("%s|%s|outside|%s|E=%s", cr.Sess.In.Store, kind, bucket, E)
		}
		return "reject", cell
	case mustAccept:
		if !t1.Before(cr.Sess.TokenExpLow) {
			return "unjudged", "" // the ID token may have expired: the property does not demand service
		}
		if cr.Kind == "reissued-without-refresh-grant" {
			return "unjudged", "" // only the rejection side is demanded of a cookie that should not have been re-issued (its stamp may be an imposed future time)
		}
		if cr.Sess.Origin == "htpasswd" && cr.Sess.In.Refresh > 0 {
			return "unjudged", "" // a token-less form session is ended by the provider re-validation at the first refresh period (earlier than the rule demands)
		}
		if bucket != "far" {
			cell = fmt.Sprintf("%s|%s|inside|%s|E=%s", cr.Sess.In.Store, kind, bucket, E)
		}
		return "accept", cell
	case t0.Sub(S) >= E && rejS != S:
		return "unjudged", "" // Redis: old ticket past its own window, session refreshed since: neither verdict is demanded
	}
	return "straddle", ""
}

type c09Result struct {
	Want, Outcome string
	New           *c09Cred // credential re-issued by the response (refresh), if any
	Probe         c09Probe
}

// probe presents cr on the given channel. mock != nil sets the pkg/clock mock around the request (refresh at a chosen time).
func (c *c09Ctx) probe(cr *c09Cred, channel string, mock *time.Time) c09Result {
	in := cr.Sess.In
	id := fmt.Sprintf("c09-%d", atomic.AddInt64(&c.seq, 1))
	req := vfGET(channel, "Cookie", cr.Cookie, "X-Vf-Id", id)
	if c.giveUp > 0 {
		req.GiveUpAfter = c.giveUp
	}
	_, grants0 := c.w.IdP.RefreshGrants() // sequential driver: refresh grants between the two readings belong to this request
	if mock != nil {
		clock.Set(*mock)
	}
	t0 := time.Now().Round(0)
	resp := in.P.Do(req)
	t1 := time.Now().Round(0)
	if mock != nil {
		clock.Reset()
	}
	outcome := "other"
	switch channel {
	case "/oauth2/auth":
		if resp.Code == 202 {
			outcome = "accept"
		} else if resp.Code == 401 {
			outcome = "reject"
		}
	case "/oauth2/userinfo":
		if resp.Code == 200 {
			outcome = "accept"
		} else if resp.Code == 401 {
			outcome = "reject"
		}
	default:
		hit := len(c.w.Up.FindHit(id)) > 0
		if resp.Code == 200 && hit {
			outcome = "accept"
		} else if (resp.Code == 403 || resp.Code == 401) && !hit {
			outcome = "reject"
		} else if resp.Code == 500 && !hit && resp.Panic == "" {
			// Redis store + a ticket cookie that fails validation: the sign-in page's own Clear reports the undecodable
			// ticket as an error and the 403 page becomes a 500 error page. Not served, hence a rejection here.
			outcome = "reject"
			c.run.Count("rejections_answered_500", 1)
		}
	}
	want, cell := c09Want(cr, t0, t1)
	if c.fault != "" && want == "accept" {
		want, cell = "unjudged", "" // whether a session is served while its refresh fails is C12/C14's business
	}
	pr := c09Probe{Inst: in.String(), Origin: cr.Sess.Origin, Kind: cr.Kind, Old: cr.Old, Stamp: cr.S.UTC().Format(time.RFC3339), T0: t0.UTC().Format(time.RFC3339Nano), T1: t1.UTC().Format(time.RFC3339Nano),
		AgeAtT0: t0.Sub(cr.S).String(), Expire: in.Expire.String(), Channel: channel, Status: resp.Code, Outcome: outcome, Want: want, Note: cr.Note}
	if mock != nil {
		pr.MockNow = mock.UTC().Format(time.RFC3339)
	}
	res := c09Result{Want: want, Outcome: outcome}
	// a response that re-issues the session (refresh): equality checks + the new credential
	where := "refresh"
	sets := c.sessionSets(in, resp, where, req, mock)
	if len(sets) > 0 {
		pr.Refreshed = true
		c.run.Count("refresh_reissues", 1)
		c.checkTTL(cr.Sess, where, req)
		nc := &c09Cred{Sess: cr.Sess, Cookie: c09CookieHeader(sets)}
		if _, grants1 := c.w.IdP.RefreshGrants(); grants1 == grants0 || c.fault != "" {
			// the session was re-issued although the identity provider granted no refresh during this request: nothing was
			// refreshed, so the lifetime still counts from the last REAL (re)issue — the new cookie inherits the old stamp
			nc.S, nc.Kind = cr.S, "reissued-without-refresh-grant"
			c.run.Count("reissues_without_refresh_grant", 1)
			res.New = nc
		} else if mock != nil {
			nc.S, nc.Kind = mock.Truncate(time.Second), "mock-refresh"
			cr.Sess.LastRestamp = nc.S
			res.New = nc
		} else {
			nc.Kind = "real-refresh"
			cr.Sess.LastRestamp = t1
			if t0.Truncate(time.Second).Equal(t1.Truncate(time.Second)) {
				nc.S = t0.Truncate(time.Second)
				res.New = nc
			} else {
				c.run.Count("real_refresh_stamp_ambiguous", 1)
			}
		}
	}
	res.Probe = pr
	if outcome == "other" {
		pr.Flags, pr.Request = in.P.Flags, req
		res.Probe = pr
		return res
	}
	switch want {
	case "straddle":
		c.run.Count("bracket_straddles", 1)
		return res
	case "unjudged":
		c.run.Count("unjudged_probes", 1)
		return res
	}
	c.run.Eval(cell)
	if parts := strings.Split(cell, "|"); len(parts) == 5 && c.cellSum != nil {
		c.cellSum[strings.Join(parts[1:4], "|")]++
	}
	c.run.Count("probes_"+want, 1)
	if outcome != want {
		pr.Flags, pr.Request = in.P.Flags, req
		sig := "c09:served-outside-window"
		what := "SERVED"
		if want == "accept" {
			sig, what = "c09:refused-inside-window", "REFUSED"
		}
		if cr.Kind == "reissued-without-refresh-grant" {
			sig += "-after-reissue-without-refresh-grant"
		} else if cr.Kind != "issued" {
			sig += "-after-refresh"
		}
		c.run.Violation(sig, fmt.Sprintf("%s (%s, %s credential%s): stamp %s, probe bracket [%s .. +%s], age at t0 %s, lifetime %s: request %s (status %d on %s)",
			in, cr.Sess.Origin, cr.Kind, map[bool]string{true: ", superseded", false: ""}[cr.Old], pr.Stamp, pr.T0, t1.Sub(t0), pr.AgeAtT0, in.Expire, what, resp.Code, channel), pr)
	}
	c.run.SampleEvery(211, func() interface{} { return pr })
	return res
}

// probeRetry: grid probe with re-issue on a straddled bracket.
func (c *c09Ctx) gridCase(in *c09Inst, origin string, off time.Duration, rel string, channel string, idTTL time.Duration) *c09Result {
	for attempt := 0; attempt < 4; attempt++ {
		now := time.Now()
		cr, err := c.issue(in, origin, now.Truncate(time.Second).Add(off), idTTL)
		if err != nil {
			c.run.T.Fatalf("C09 rig: %s %s offset %s: %v", in, origin, off, err)
		}
		cr.Note = fmt.Sprintf("grid T=%s (offset from now %s)", rel, off)
		res := c.probe(cr, channel, nil)
		if res.Outcome == "other" {
			c.run.Inconclusive("unexpected status")
			c.run.Sample(res.Probe)
			return &res
		}
		if res.Want == "straddle" {
			continue
		}
		if res.New != nil && res.Want == "accept" {
			// refreshed on the way: the new credential is inside its window now, the old one keeps its own window
			cr.Old = true
			r2 := c.probe(res.New, channel, nil)
			_ = r2
			c.probe(cr, c09Channels[(int(c.seq))%len(c09Channels)], nil)
		}
		return &res
	}
	c.run.Inconclusive("bracket straddled 4 times")
	return nil
}

func c09Dur(d time.Duration) string {
	if d%time.Hour == 0 && d >= time.Hour {
		return fmt.Sprintf("%dh", int(d/time.Hour))
	}
	if d%time.Minute == 0 && d >= time.Minute {
		return fmt.Sprintf("%dm", int(d/time.Minute))
	}
	return fmt.Sprintf("%ds", int(d/time.Second))
}

func c09RefreshFor(e time.Duration) time.Duration {
	r := (e / 3).Truncate(time.Second)
	if r < time.Second {
		r = time.Second
	}
	return r
}

var c09RedisModes = []string{"standalone", "cluster", "sentinel"}

func TestVerif_C09(t *testing.T) {
	run := vfNewRun(t, "C09", "exploration")
	run.SetRule("sessions are issued at an imposed time T (pkg/clock mock around the issuing request only) on a one-second grid around every threshold " +
		"(T+expire, T-5min, age=refresh) for cookie-expire {seconds .. a week; plus 400 days +-1 s, 2 y, 10 y and the largest duration the flag accepts on a reduced grid} x cookie-refresh {0, expire/3} x {cookie, redis} x {OIDC with / without refresh token, htpasswd form}; probes run in real time and are bracketed [t0,t1]; " +
		"refresh histories restamp at an imposed time R (mock) or in real time and both the new and the superseded credential are probed along a real-time timeline; " +
		"Max-Age of every session Set-Cookie and the miniredis TTL after every save are compared with cookie-expire. " +
		"cell = (store, threshold kind {expire, future} x {issued, restamped, superseded}, side, distance bucket, expire); non-trivial = within 3 s of a threshold")
	run.Assume("the host's wall clock does not jump during the run", "cookie timestamps have one-second resolution: imposed times are whole seconds, sub-second boundary behaviour is not judged",
		"miniredis' TTL clock is manual: the age probes do not advance it, so they test the proxy's own check; the store's expiry is tested separately with FastForward",
		"service inside the window is demanded only while the ID token has not expired and (htpasswd sessions) while no refresh period applies")
	w := vfNewWorld(t)
	defer w.Close()
	defer clock.Reset()
	c := &c09Ctx{run: run, w: w, name: "_oauth2_proxy", cellSum: map[string]int{}}

	sum := sha1.Sum([]byte("pw"))
	ht := w.File("htpasswd", "bob:{SHA}"+base64.StdEncoding.EncodeToString(sum[:])+"\n")

	expires := []time.Duration{5 * time.Second, 90 * time.Second, time.Hour, 168 * time.Hour}
	if run.Env.Thorough() {
		expires = []time.Duration{5 * time.Second, 30 * time.Second, 90 * time.Second, 10 * time.Minute, time.Hour, 24 * time.Hour, 168 * time.Hour}
	}
	var insts []*c09Inst
	redisInst := 0
	for _, store := range []string{"cookie", "redis"} {
		for _, e := range expires {
			for _, r := range []time.Duration{0, c09RefreshFor(e)} {
				// skip-nonce=true (the upstream default): the fake IdP, like most providers, issues refreshed ID tokens without a
				// nonce claim, which the nonce check would refuse right after every refresh (not this property's concern)
				flags := []string{"--session-store-type=" + store, "--cookie-expire=" + c09Dur(e), "--cookie-refresh=" + c09Dur(r), "--insecure-oidc-skip-nonce=true"}
				if store == "redis" {
					// the server-side store is reached through the standalone, the Cluster and the Sentinel client in turn
					// (different client builders and, for the cluster, a different wrapper type in pkg/sessions/redis)
					mode := c09RedisModes[redisInst%len(c09RedisModes)]
					redisInst++
					flags = append(flags, w.RedisModeFlags(mode)...)
					run.Count("redis_instances_client_"+mode, 1)
				}
				flags = append(flags, "--htpasswd-file="+ht)
				p, err := w.NewProxy(flags...)
				if err != nil {
					t.Fatalf("C09 rig: %v: %v", flags, err)
				}
				insts = append(insts, &c09Inst{Store: store, Expire: e, Refresh: r, P: p, W: w})
			}
		}
	}

	// very large lifetimes: around the 400 days user agents cap cookies at, years, and the largest value the flag accepts.
	// They cannot be waited for; the equalities (Max-Age, Expires, Redis TTL == configured lifetime) and the mocked-clock
	// grid around now-lifetime apply unchanged.
	const day = 24 * time.Hour
	maxDur := time.Duration(1<<63 - 1).Truncate(time.Second) // 2562047h47m16s
	large := []time.Duration{400*day - time.Second, 400*day + time.Second, 2 * 365 * day, 10 * 365 * day, maxDur}
	if run.Env.Thorough() {
		large = append(large, 400*day, 401*day, 5*365*day, 100*365*day)
	}
	for si, store := range []string{"cookie", "redis"} {
		for li, e := range large {
			r := time.Duration(0)
			if (si+li)%2 == 1 {
				r = c09RefreshFor(e)
			}
			flags := []string{"--session-store-type=" + store, "--cookie-expire=" + c09Dur(e), "--cookie-refresh=" + c09Dur(r), "--insecure-oidc-skip-nonce=true"}
			if store == "redis" {
				mode := c09RedisModes[redisInst%len(c09RedisModes)]
				redisInst++
				flags = append(flags, w.RedisModeFlags(mode)...)
				run.Count("redis_instances_client_"+mode, 1)
			}
			flags = append(flags, "--htpasswd-file="+ht)
			p, err := w.NewProxy(flags...)
			if err != nil {
				t.Fatalf("C09 rig: %v: %v", flags, err)
			}
			if p.Opts.Cookie.Expire != e {
				t.Fatalf("C09 rig: --cookie-expire=%s parsed as %s", c09Dur(e), p.Opts.Cookie.Expire)
			}
			insts = append(insts, &c09Inst{Store: store, Expire: e, Refresh: r, Large: true, P: p, W: w})
			run.Count("large_lifetime_instances", 1)
		}
	}

	c09Grid(c, insts)
	pending := c09RefreshHistories(c, insts)
	pending = append(pending, c09FailedRefresh(c, insts)...)
	c09Timeline(c, pending)
	c09StoreExpiry(c, t)
	c09NegativeLifetime(c, t)

	run.Extra("instances", len(insts))
	run.Extra("probes_by_threshold_side_distance", c.cellSum)
	run.RaceCheck("")
	if run.Counter("refresh_reissues") < 8 || run.Counter("redis_ttl_checks") < 20 || run.Counter("maxage_checks") < 100 {
		fmt.Printf("INCONCLUSIVE property=C09 reason=too few refresh / TTL / Max-Age observations (%d, %d, %d)\n", run.Counter("refresh_reissues"), run.Counter("redis_ttl_checks"), run.Counter("maxage_checks"))
		t.Fail()
	}
	run.Finish(int64(run.Env.Pick(2200, 12000)), run.Env.Pick(95, 160))
}

// ---------------------------------------------------------------------------------------------------------
// phase A: the threshold grid

func c09Grid(c *c09Ctx, insts []*c09Inst) {
	span := c.run.Env.Pick(2, 10)
	rounds := c.run.Env.Pick(1, 2)
	chn := int(c.run.Env.Seed)
	for round := 0; round < rounds; round++ {
		for _, in := range insts {
			type off struct {
				d   time.Duration
				rel string
			}
			var offs []off
			if in.Large {
				if round > 0 {
					continue
				}
				for k := -2; k <= 2; k++ {
					offs = append(offs, off{-in.Expire + time.Duration(k)*time.Second, "now-expire"})
				}
				offs = append(offs, off{0, "now"}, off{299 * time.Second, "now"}, off{301 * time.Second, "now"})
				for _, origin := range []string{"oidc", "oidc-nort"} {
					for _, o := range offs {
						chn++
						c.gridCase(in, origin, o.d, o.rel, c09Channels[chn%len(c09Channels)], 0)
					}
				}
				if in.Refresh == 0 {
					chn++
					c.gridCase(in, "htpasswd", -in.Expire+time.Second, "now-expire", c09Channels[chn%len(c09Channels)], 0)
					c.gridCase(in, "htpasswd", -in.Expire, "now-expire", c09Channels[chn%len(c09Channels)], 0)
				}
				if in.Store == "cookie" {
					chn++
					c.gridCase(in, "oidc-large", -in.Expire+time.Second, "now-expire", c09Channels[chn%len(c09Channels)], 0)
					c.gridCase(in, "oidc-large", 0, "now", c09Channels[chn%len(c09Channels)], 0)
				}
				c.w.Up.Reset()
				continue
			}
			for k := -span; k <= span; k++ {
				offs = append(offs, off{-in.Expire + time.Duration(k)*time.Second, "now-expire"})
			}
			if in.Refresh > 0 {
				for k := -span; k <= span; k++ {
					offs = append(offs, off{-in.Refresh + time.Duration(k)*time.Second, "now-refresh"})
				}
			}
			offs = append(offs, off{0, "now"})
			for k := 298 - (span - 2); k <= 303+(span-2); k++ {
				offs = append(offs, off{time.Duration(k) * time.Second, "now"})
			}
			origins := []string{"oidc", "oidc-nort"}
			for _, origin := range origins {
				for _, o := range offs {
					chn++
					c.gridCase(in, origin, o.d, o.rel, c09Channels[chn%len(c09Channels)], 0)
				}
			}
			if in.Refresh == 0 {
				for _, k := range []int{-1, 0, 1} {
					chn++
					c.gridCase(in, "htpasswd", -in.Expire+time.Duration(k)*time.Second, "now-expire", c09Channels[chn%len(c09Channels)], 0)
				}
				for _, k := range []int{299, 301} {
					chn++
					c.gridCase(in, "htpasswd", time.Duration(k)*time.Second, "now", c09Channels[chn%len(c09Channels)], 0)
				}
			}
			if in.Store == "cookie" {
				for _, k := range []int{-1, 0, 1} {
					chn++
					c.gridCase(in, "oidc-large", -in.Expire+time.Duration(k)*time.Second, "now-expire", c09Channels[chn%len(c09Channels)], 0)
				}
				for _, k := range []int{299, 301} {
					chn++
					c.gridCase(in, "oidc-large", time.Duration(k)*time.Second, "now", c09Channels[chn%len(c09Channels)], 0)
				}
			}
			// token expiry dimension: a short-lived ID token neither extends nor (before it expires) shortens the window
			for _, k := range []int{-1, 0, 1} {
				chn++
				c.gridCase(in, "oidc-nort", -in.Expire+time.Duration(k)*time.Second, "now-expire(id-token 20s)", c09Channels[chn%len(c09Channels)], 20*time.Second)
			}
			c.w.Up.Reset()
		}
	}
}

// ---------------------------------------------------------------------------------------------------------
// phase B: refresh at an imposed time R; returns the credentials to follow along the timeline

func c09RefreshHistories(c *c09Ctx, insts []*c09Inst) []*c09Cred {
	var pending []*c09Cred
	chn := 0
	for _, in := range insts {
		if in.Refresh == 0 {
			// no refresh period: a stale session is never restamped; follow a nearly expired credential in real time
			if in.Expire <= 10*time.Second {
				for _, origin := range []string{"oidc", "oidc-nort", "htpasswd"} {
					for _, back := range []int{0, 2} {
						cr, err := c.issue(in, origin, time.Now().Add(-time.Duration(back)*time.Second), 0)
						if err != nil {
							c.run.T.Fatalf("C09 rig: %v", err)
						}
						cr.Note = "timeline, no refresh period"
						pending = append(pending, cr)
					}
				}
			}
			continue
		}
		type hist struct {
			name   string
			tOff   func(now time.Time) time.Time // issue time
			rOff   func(T, now time.Time) time.Time
			origin string
		}
		base := func(now time.Time) time.Time { return now.Truncate(time.Second) }
		hists := []hist{}
		for _, k := range []int{298, 299, 300, 301, 302} {
			k := k
			// future side: R = now+k, T = R - refresh - 2 (stale at R, valid now)
			hists = append(hists, hist{fmt.Sprintf("R=now+%ds", k),
				func(now time.Time) time.Time { return base(now).Add(time.Duration(k)*time.Second - in.Refresh - 2*time.Second) },
				func(T, now time.Time) time.Time { return base(now).Add(time.Duration(k) * time.Second) }, "oidc"})
		}
		// expiry side: T = now-expire+3 (expires in 3 s), R = T+refresh+1: the new credential outlives the old one
		hists = append(hists, hist{"T=now-expire+3s,R=T+refresh+1s",
			func(now time.Time) time.Time { return base(now).Add(-in.Expire + 3*time.Second) },
			func(T, now time.Time) time.Time { return T.Add(in.Refresh + time.Second) }, "oidc"})
		hists = append(hists, hist{"T=now-expire+4s,R=T+refresh+2s",
			func(now time.Time) time.Time { return base(now).Add(-in.Expire + 4*time.Second) },
			func(T, now time.Time) time.Time { return T.Add(in.Refresh + 2*time.Second) }, "oidc"})
		// real-time refresh: T = now-refresh-2 (stale now), refreshed by the first probe at R in [t0,t1]
		hists = append(hists, hist{"real-time refresh", func(now time.Time) time.Time { return base(now).Add(-in.Refresh - 2*time.Second) }, nil, "oidc"})
		// a refresh token the IdP refuses: nothing can be refreshed, the session ends cookie-expire after its login
		hists = append(hists, hist{"refresh refused by the IdP, T=now-expire+3s", func(now time.Time) time.Time { return base(now).Add(-in.Expire + 3*time.Second) }, nil, "oidc-badrt"})
		hists = append(hists, hist{"refresh refused by the IdP, T=now-expire+4s, mocked clock one refresh period on",
			func(now time.Time) time.Time { return base(now).Add(-in.Expire + 4*time.Second) },
			func(T, now time.Time) time.Time { return T.Add(in.Refresh + time.Second) }, "oidc-badrt"})
		// without a refresh token nothing is restamped: the stale credential keeps its window
		hists = append(hists, hist{"no refresh token, T=now-expire+3s", func(now time.Time) time.Time { return base(now).Add(-in.Expire + 3*time.Second) }, nil, "oidc-nort"})
		// htpasswd form session used once per refresh period (mocked clock) up to and beyond cookie-expire: whatever the loader
		// does with it at each period, nothing refreshes it at the IdP, so it is never honoured past login + cookie-expire
		{
			T := time.Now().Truncate(time.Second).Add(-in.Expire + 3*time.Second)
			cur, err := c.issue(in, "htpasswd", T, 0)
			if err != nil {
				c.run.T.Fatalf("C09 rig: %s htpasswd chain: %v", in, err)
			}
			cur.Note = "history htpasswd form session, one request per refresh period"
			pending = append(pending, cur)
			for i := 1; i <= 4; i++ {
				M := T.Add(time.Duration(i) * (in.Refresh + time.Second))
				if M.Sub(time.Now()) > c09Future-10*time.Second {
					break
				}
				chn++
				res := c.probe(cur, c09Channels[chn%len(c09Channels)], &M)
				c.run.Count("htpasswd_refresh_chain_steps", 1)
				if res.New != nil {
					cur.Old = true
					res.New.Note = cur.Note + fmt.Sprintf(" (re-issued at step %d)", i)
					cur = res.New
					pending = append(pending, cur)
				}
			}
		}
		for _, h := range hists {
			for attempt := 0; attempt < 4; attempt++ {
				now := time.Now()
				T := h.tOff(now)
				cr, err := c.issue(in, h.origin, T, 0)
				if err != nil {
					c.run.T.Fatalf("C09 rig: %s %s: %v", in, h.name, err)
				}
				cr.Note = "history " + h.name
				var mock *time.Time
				if h.rOff != nil {
					R := h.rOff(T, now)
					mock = &R
				}
				chn++
				res := c.probe(cr, c09Channels[chn%len(c09Channels)], mock)
				if res.Want == "straddle" || res.Outcome == "other" {
					if attempt == 3 {
						c.run.Inconclusive("refresh history could not be set up")
					}
					continue
				}
				if h.origin == "oidc" {
					if res.Outcome == "accept" && !res.Probe.Refreshed {
						// C12's business (stale session + refresh token => refreshed); here it only means the history is not the intended one
						c.run.Count("history_without_refresh", 1)
					}
				}
				if res.New != nil {
					cr.Old = true
					res.New.Note = "history " + h.name + " (re-issued)"
					// probe the restamped credential at once on every channel, and the superseded one
					for _, ch := range c09Channels {
						c.probe(res.New, ch, nil)
					}
					chn++
					c.probe(cr, c09Channels[chn%len(c09Channels)], nil)
					pending = append(pending, res.New)
				}
				pending = append(pending, cr)
				break
			}
		}
		c.w.Up.Reset()
	}
	return pending
}

// ---------------------------------------------------------------------------------------------------------
// phase B2: refresh attempts that FAIL at the identity provider restart nothing
//
// A stale session (older than cookie-refresh, tokens long-lived so that the local validation still passes) is used while
// the token endpoint fails in every way the fake IdP can script: 5xx, connection reset, invalid_grant, malformed / empty
// JSON, a stall the proxy's own HTTP client times out on (requests.DefaultHTTPClient.Timeout is set for that one request:
// a genuine net/http timeout error, Timeout() == true, errors.Is(DeadlineExceeded)), and a stall during which the
// proxy's client walks away (request context cancelled). Nothing was refreshed, so whatever the response re-issues keeps
// the window of the ORIGINAL stamp ("reissued-without-refresh-grant": rejection demanded from T+expire on) — the
// timeline then follows both the original and any re-issued credential across T+expire.

type c09Fault struct {
	Name    string
	Reply   func() *vfIdPReply
	Timeout time.Duration // client timeout of the proxy's IdP HTTP client during the request
	GiveUp  time.Duration
	Slow    bool
}

func c09Faults() []c09Fault {
	js := func(status int, body string) func() *vfIdPReply {
		return func() *vfIdPReply {
			return &vfIdPReply{Status: status, ContentType: "application/json", Body: []byte(body)}
		}
	}
	return []c09Fault{
		{Name: "idp-client-timeout", Slow: true, Timeout: 250 * time.Millisecond, Reply: func() *vfIdPReply { return &vfIdPReply{Stall: 3 * time.Second, Reset: true} }},
		{Name: "stall-client-gives-up", Slow: true, GiveUp: 250 * time.Millisecond, Reply: func() *vfIdPReply { return &vfIdPReply{Stall: 3 * time.Second, Reset: true} }},
		{Name: "500", Reply: js(500, `{"error":"server_error"}`)},
		{Name: "503-html", Reply: func() *vfIdPReply {
			return &vfIdPReply{Status: 503, ContentType: "text/html", Body: []byte("<html>busy</html>")}
		}},
		{Name: "reset", Reply: func() *vfIdPReply { return &vfIdPReply{Reset: true} }},
		{Name: "invalid_grant", Reply: js(400, `{"error":"invalid_grant"}`)},
		{Name: "malformed-json", Reply: js(200, `{"access_token":"a","token_type":"Bearer","id_token":`)},
		{Name: "empty-200", Reply: js(200, ``)},
		{Name: "429", Reply: js(429, `{"error":"temporarily_unavailable"}`)},
	}
}

func c09FailedRefresh(c *c09Ctx, insts []*c09Inst) []*c09Cred {
	var pending []*c09Cred
	faults := c09Faults()
	thorough := c.run.Env.Thorough()
	var order []*c09Inst
	for _, in := range insts { // the shortest lifetimes last: their credentials must still be alive when the timeline starts
		if in.Refresh > 0 && in.Expire > 10*time.Second {
			order = append(order, in)
		}
	}
	for _, in := range insts {
		if in.Refresh > 0 && in.Expire <= 10*time.Second {
			order = append(order, in)
		}
	}
	chn := int(c.run.Env.Seed)
	for ii, in := range order {
		for fi, f := range faults {
			if !thorough {
				if f.Slow && (in.Large || (f.GiveUp > 0 && (ii+int(c.run.Env.Seed))%3 != 0)) {
					continue
				}
				if !f.Slow && (fi+ii+int(c.run.Env.Seed))%3 != 0 {
					continue
				}
			}
			now := time.Now().Truncate(time.Second)
			var T time.Time
			var mock *time.Time
			if in.Expire <= 10*time.Second {
				T = now.Add(-in.Refresh - time.Second) // stale in real time
			} else {
				T = now.Add(-in.Expire + 4*time.Second)
				M := T.Add(in.Refresh + time.Second) // one refresh period on (mocked pkg/clock during the request)
				mock = &M
			}
			cr, err := c.issue(in, "oidc", T, 0)
			if err != nil {
				c.run.T.Fatalf("C09 rig: %s failed-refresh %s: %v", in, f.Name, err)
			}
			cr.Note = "failed refresh (" + f.Name + ")"
			steps := 1
			if f.Timeout > 0 || thorough {
				steps = 2 // again one refresh period later, with whatever the first response re-issued
			}
			cur := cr
			for step := 0; step < steps; step++ {
				fired := int64(0)
				rep := f.Reply
				c.w.IdP.Set(func(cf *vfIdPCfg) {
					cf.Hook = func(ev *vfIdPEvent) *vfIdPReply {
						if ev.Kind == "token.refresh" {
							atomic.AddInt64(&fired, 1)
							return rep()
						}
						return nil
					}
				})
				if f.Timeout > 0 {
					requests.DefaultHTTPClient.Timeout = f.Timeout
				}
				c.fault, c.giveUp = f.Name, f.GiveUp
				chn++
				res := c.probe(cur, c09Channels[chn%len(c09Channels)], mock)
				c.fault, c.giveUp = "", 0
				requests.DefaultHTTPClient.Timeout = 0
				c.w.IdP.Set(func(cf *vfIdPCfg) { cf.Hook = nil })
				c.run.Count("failed_refresh_steps", 1)
				if atomic.LoadInt64(&fired) > 0 {
					c.run.Count("failed_refresh_steps_fired", 1)
					c.run.Count("failed_refresh_"+f.Name, 1)
				}
				if res.Outcome == "accept" {
					c.run.Count("failed_refresh_session_kept", 1)
				}
				if res.New == nil {
					break
				}
				cur.Old = true
				res.New.Note = cr.Note + fmt.Sprintf(" (re-issued at step %d)", step+1)
				pending = append(pending, res.New)
				cur = res.New
				if mock != nil {
					M2 := mock.Add(in.Refresh + time.Second)
					mock = &M2
				} else if step+1 < steps {
					time.Sleep(in.Refresh + 100*time.Millisecond)
				}
			}
			pending = append(pending, cr)
		}
		c.w.Up.Reset()
	}
	return pending
}

// ---------------------------------------------------------------------------------------------------------
// phase C: follow the credentials in real time across their thresholds

func c09Timeline(c *c09Ctx, creds []*c09Cred) {
	fracs := []time.Duration{40 * time.Millisecond, 500 * time.Millisecond, 960 * time.Millisecond}
	if c.run.Env.Thorough() {
		fracs = []time.Duration{20 * time.Millisecond, 250 * time.Millisecond, 500 * time.Millisecond, 750 * time.Millisecond, 980 * time.Millisecond}
	}
	// a fixed NUMBER of ticks (7 resp. 9 seconds' worth), each waiting for the next of the sub-second marks: just before,
	// just after and between the whole-second thresholds. On a slow machine the ticks spread out; every verdict is bracketed.
	ticks := c.run.Env.Pick(7, 9) * len(fracs)
	chn := 0
	added := 0
	for tick := 0; tick < ticks; tick++ {
		now := time.Now()
		sec := now.Truncate(time.Second)
		var next time.Time
		for _, f := range fracs {
			if cand := sec.Add(f); cand.After(now) {
				next = cand
				break
			}
		}
		if next.IsZero() {
			next = sec.Add(time.Second + fracs[0])
		}
		time.Sleep(time.Until(next))
		c.run.Count("timeline_ticks", 1)
		n := len(creds)
		for i := 0; i < n; i++ {
			cr := creds[i]
			// credentials far from both of their thresholds are only probed on every fourth tick (keeps the ticks short, so
			// that the probes of the others happen close to the intended sub-second marks)
			if tick%4 != 0 {
				t := time.Now()
				dE, dF := t.Sub(cr.S.Add(cr.Sess.In.Expire)), t.Sub(cr.S.Add(-c09Future))
				if (dE < -12*time.Second || dE > 12*time.Second) && (dF < -12*time.Second || dF > 12*time.Second) {
					continue
				}
			}
			chn++
			res := c.probe(cr, c09Channels[chn%len(c09Channels)], nil)
			if res.Outcome == "other" {
				c.run.Inconclusive("unexpected status in timeline")
				c.run.Sample(res.Probe)
			}
			if res.New != nil && added < 200 && cr.Sess.In.Expire <= 10*time.Second {
				cr.Old = true
				res.New.Note = "timeline re-issue of (" + cr.Note + ")"
				creds = append(creds, res.New)
				added++
			} else if res.New != nil {
				cr.Old = true
			}
		}
		c.w.Up.Reset()
	}
	c.run.Extra("timeline_credentials", len(creds))
}

// ---------------------------------------------------------------------------------------------------------
// phase D: the store's own expiry (separate world: FastForward moves every key of a miniredis)

func c09StoreExpiry(c *c09Ctx, t *testing.T) {
	w2 := vfNewWorld(t)
	defer w2.Close()
	mr := w2.Redis()
	lifetimes := []time.Duration{5 * time.Second, 90 * time.Second, time.Hour, 168 * time.Hour, 400*24*time.Hour + time.Second, 10 * 365 * 24 * time.Hour}
	c2 := &c09Ctx{run: c.run, w: w2, name: c.name}
	for _, e := range lifetimes {
		for _, r := range []time.Duration{0, c09RefreshFor(e)} {
			p, err := w2.NewProxy("--session-store-type=redis", "--redis-connection-url="+w2.RedisURL(), "--cookie-expire="+c09Dur(e), "--cookie-refresh="+c09Dur(r), "--insecure-oidc-skip-nonce=true")
			if err != nil {
				t.Fatalf("C09 rig: %v", err)
			}
			in := &c09Inst{Store: "redis", Expire: e, Refresh: r, P: p, W: w2}
			for _, origin := range []string{"oidc", "oidc-nort"} {
				cr, err := c2.issue(in, origin, time.Now(), 0)
				if err != nil {
					t.Fatalf("C09 rig: %v", err)
				}
				key := cr.Sess.RedisKey
				if key == "" {
					continue
				}
				cr.Note = "store expiry history"
				// the store's clock advances to one second before the lifetime: entry still there, session served
				mr.FastForward(e - time.Second)
				c.run.Eval("")
				if !mr.Exists(key) || mr.TTL(key) != time.Second {
					c.run.Violation("c09:redis-ttl-differs", fmt.Sprintf("%s: after the store's clock advanced by expire-1s the entry has TTL %s (exists=%v), expected 1s", in, mr.TTL(key), mr.Exists(key)),
						map[string]interface{}{"flags": p.Flags, "key": key})
				}
				c2.probe(cr, "/oauth2/auth", nil)
				if r > 0 && r < 50*time.Minute && origin == "oidc" { // (beyond ~1 h the mocked R would lie past the ID token's expiry)
					// refresh at an imposed time R = now+refresh+2: the entry must be saved again with the FULL lifetime
					// (probe -> checkTTL compares the TTL, which stood at 1 s, with cookie-expire)
					R := time.Now().Truncate(time.Second).Add(r + 2*time.Second)
					res := c2.probe(cr, "/x", &R)
					if res.New != nil {
						c.run.Count("store_expiry_refreshes", 1)
						mr.FastForward(e - time.Second) // one second before the NEW end on the store's clock
						c.run.Eval("")
						if !mr.Exists(key) {
							c.run.Violation("c09:redis-entry-missing", fmt.Sprintf("%s: the refreshed entry expired before its lifetime (store clock advanced by expire-1s after the refresh)", in), map[string]interface{}{"flags": p.Flags, "key": key})
						}
					}
				}
				// past the lifetime on the store's clock: the entry is gone and so is the session, although the cookie itself is still inside its window
				mr.FastForward(2 * time.Second)
				c.run.Eval(fmt.Sprintf("redis|store-expiry|outside|1-2s|E=%s", e))
				c.run.Count("store_expiry_histories", 1)
				if mr.Exists(key) {
					c.run.Violation("c09:redis-entry-outlives-lifetime", fmt.Sprintf("%s: entry still present %s after its save on the store's clock", in, e+time.Second), map[string]interface{}{"flags": p.Flags, "key": key, "ttl": mr.TTL(key).String()})
				}
				id := fmt.Sprintf("c09x-%d", atomic.AddInt64(&c.seq, 1))
				req := vfGET("/x", "Cookie", cr.Cookie, "X-Vf-Id", id)
				resp := p.Do(req)
				if resp.Code == 200 || len(w2.Up.FindHit(id)) > 0 {
					c.run.Violation("c09:served-after-store-expiry", fmt.Sprintf("%s: session served (status %d) after the server-side entry's lifetime has passed on the store's clock", in, resp.Code),
						map[string]interface{}{"flags": p.Flags, "request": req, "status": resp.Code})
				}
			}
		}
	}
}

// c09NegativeLifetime (round 6): a negative --cookie-expire is non-zero, passes validation, and means the lifetime has elapsed the
// moment a session is issued: no credential the proxy hands out may ever be honoured, whatever the client does with the
// (already expired) cookie. Presented immediately, one second later and with the session issued in the past / future.
func c09NegativeLifetime(c *c09Ctx, t *testing.T) {
	w := c.w
	for _, store := range []string{"cookie", "redis"} {
		for _, e := range []string{"-1s", "-1h", "-168h"} {
			flags := []string{"--session-store-type=" + store, "--cookie-expire=" + e, "--cookie-refresh=0", "--insecure-oidc-skip-nonce=true"}
			if store == "redis" {
				flags = append(flags, w.RedisModeFlags("standalone")...)
			}
			p, err := w.NewProxy(flags...)
			if err != nil {
				c.run.Count("negative_lifetime_configurations_refused_by_validation", 1)
				continue
			}
			for _, shift := range []time.Duration{0, -30 * time.Minute, 2 * time.Minute} {
				b := vfNewBrowser("")
				if shift != 0 {
					clock.Set(time.Now().Add(shift))
				}
				l, err := b.StartLogin(p, vfIdentity{Sub: "u-c09-neg", Email: "neg@example.com"}, "/")
				var cb *vfResp
				if err == nil {
					cb = b.Get(p, l.CallbackTarget(p))
				}
				clock.Reset()
				if err != nil || cb == nil {
					c.run.Inconclusive("rig: negative-lifetime login could not be started")
					continue
				}
				// the client keeps every session cookie the callback carried, ignoring Max-Age / Expires
				var pairs []string
				for _, line := range cb.SetCookies() {
					ck, perr := http.ParseSetCookie(line)
					if perr == nil && ck.Value != "" && c.isSessionName(ck.Name) {
						pairs = append(pairs, ck.Name+"="+ck.Value)
					}
				}
				c.run.Count("negative_lifetime_logins", 1)
				if len(pairs) == 0 {
					c.run.Eval("negative-lifetime|" + store + "|no credential handed out")
					continue
				}
				for _, wait := range []time.Duration{0, 1100 * time.Millisecond} {
					if wait > 0 && shift != 0 {
						continue
					}
					time.Sleep(wait)
					uid := "c09neg-" + vfRandHex(4)
					r := p.Do(vfGET("/x", "X-Vf-Id", uid).H("Cookie", strings.Join(pairs, "; ")))
					ui := p.Do(vfGET("/oauth2/userinfo").H("Cookie", strings.Join(pairs, "; ")))
					c.run.Eval(fmt.Sprintf("negative-lifetime|%s|%s|issued%+v|wait=%v", store, e, shift, wait))
					if len(w.Up.FindHit(uid)) > 0 || r.Code == 200 || ui.Code == 200 {
						c.run.Violation("c09:negative-lifetime-credential-honoured", fmt.Sprintf("%s store, --cookie-expire=%s: a credential issued %v relative to now and presented %v later is honoured (GET /x %d, userinfo %d) although the configured lifetime elapsed at issue", store, e, shift, wait, r.Code, ui.Code),
							map[string]interface{}{"flags": p.Flags, "cookies": pairs, "status": r.Code, "userinfo_status": ui.Code})
					}
				}
			}
		}
	}
}
