//go:build verif

package main

// C14 over the provider types that parse provider answers by hand (github incl. gitea-style URLs and org / team / repo /
// user restrictions, keycloak, bitbucket, digitalocean, facebook, linkedin, nextcloud, google, login.gov, azure): the engine and
// the scripted backend live in rig_providers.go. Judged here, from the property statement only:
//
//   login, call k answered with the fault:
//     - any call of the login conversation answered with a non-200 status or not at all (reset / close)          => no session
//     - token call without a usable access token (not JSON, JSON of another shape, access_token missing / mistyped /
//       replaced by a token the backend never issued)                                                           => no session
//     - identity or membership call answered with something that is not JSON                                      => no session
//     - whenever a session exists afterwards, its e-mail is one the backend actually SENT during this login       (identity asserted)
//   stale session (issued ten minutes ago, --cookie-refresh=1m), refresh / re-validation answered with the fault:
//     - every call, or the validation call, answered with a non-200 status or not at all => the request is not served, and
//       the same browser's next request (the backend has revoked the tokens meanwhile) is not served either  (no extension)
//   always: no panic; the instance completes a clean login afterwards.
//
// "no session" = the faulted callback sets no session cookie AND the follow-up with whatever the browser holds is refused at
// /oauth2/userinfo and does not reach the upstream.

import (
	"fmt"
	"sort"
	"strings"
)

func c14pKeep(seed int64) func(t *vfPvType, c *vfPvCase, quick bool) bool {
	return func(t *vfPvType, c *vfPvCase, quick bool) bool {
		if !quick {
			return true
		}
		h := int(vfPvHash(fmt.Sprintf("%d|%s|%s|%d|%s", seed, t.Name, c.Flow, c.Pos, c.Kind.Name)) % 1000)
		typed := c.Kind.Class == "typed"
		failing := c.Kind.Failing()
		core := c.Kind.Name == "http-500" || c.Kind.Name == "http-401-with-the-ordinary-body" || c.Kind.Name == "connection-reset" // in every run; the rest is a seeded sample
		switch {
		case c.Flow == "login" && t.Primary:
			switch {
			case typed:
				return h < 50 || (c.Kind.Path == "access_token" && h < 300)
			case !c.First || c.Role == "optional":
				return h < 100
			case failing:
				return core || h < 300
			default: // not JSON / JSON of another shape / tolerable: decisive where the body is read
				return ((c.Role == "token" || c.Role == "identity") && h < 600) || h < 250
			}
		case c.Flow == "login":
			// secondary variants: the membership calls that make them different, a small sample elsewhere
			if c.Role == "authz" && c.First && !typed {
				return (failing && h < 500) || h < 120
			}
			return h < 35
		case c.Pos < 0:
			return (t.Primary && (core || (failing && h < 400) || h < 200)) || h < 80
		default:
			if typed {
				return h < 40
			}
			return (t.Primary && c.Role == "validate" && failing && h < 500) || h < 70
		}
	}
}

func c14ProviderTypes(run *vfRun, w *vfWorld) {
	viol := func(sig, what string, o *vfPvOutcome) {
		run.Violation(sig, fmt.Sprintf("provider type %s, %s flow, call #%d (%s) answered with %s: %s", o.Type, o.Flow, o.Pos, o.Call, o.KindName, what), o)
	}
	asserted := func(o *vfPvOutcome, v string) bool {
		if v == "" {
			return false
		}
		if o.Flow == "stale" && v == o.Ident.Email {
			return true
		}
		for _, s := range o.Sent {
			if strings.Contains(s, v) {
				return true
			}
		}
		return false
	}
	judge := func(o *vfPvOutcome) {
		if strings.HasPrefix(o.Clean, "rig:") {
			run.Eval("")
			run.Inconclusive("c14p: " + o.Clean)
			return
		}
		cell := ""
		if o.Fired > 0 {
			kind := o.KindName
			cell = fmt.Sprintf("ptype=%s/flow=%s/call=%d:%s/kind=%s", o.Type, o.Flow, o.Pos, o.Call, kind)
		} else {
			run.Count("c14p_fault_position_not_reached", 1)
		}
		run.Eval(cell)
		run.Count("c14p_cases_"+o.Flow, 1)
		run.SampleEvery(997, func() interface{} {
			return map[string]interface{}{"ptype": o.Type, "flow": o.Flow, "call": o.Call, "kind": o.KindName, "calls": vfPvNames(o.Calls), "session_after": o.Obs.Served()}
		})
		k := o.Kind
		if o.Panic != "" {
			run.Count(fmt.Sprintf("c14p_panic %s | %s | %s flow, call %s | %s", vfPvPanicSite(o.Stack), o.Type, o.Flow, o.Call, o.KindName), 1)
			viol("c14:panic", fmt.Sprintf("panic %q at %s", vfTrunc(o.Panic, 160), vfPvPanicSite(o.Stack)), o)
			return
		}
		if o.Fired > 0 && o.Flow == "login" {
			must, sig := false, ""
			noToken := k.Class == "nonjson" || k.Class == "shape" || (k.Class == "typed" && (k.Path == "access_token"))
			switch o.Role {
			case "token":
				must, sig = k.Failing() || noToken, "c14:ptype-session-despite-failed-redeem"
			case "identity":
				must, sig = k.Failing() || k.Class == "nonjson", "c14:ptype-session-despite-failed-identity-lookup"
			case "authz":
				must, sig = k.Failing() || k.Class == "nonjson", "c14:ptype-session-despite-failed-membership-lookup"
			case "validate":
				must, sig = k.Failing(), "c14:ptype-session-despite-failed-validation"
			}
			if must {
				run.Count("c14p_must_fail_closed", 1)
				if len(o.CookieSet) > 0 || o.Obs.Served() {
					viol(sig, fmt.Sprintf("a session exists afterwards (session cookies set by the callback %v; follow-up: userinfo %d as %q, upstream reached %v)", o.CookieSet, o.Obs.UserinfoCode, o.Obs.Email, o.Obs.UpHit), o)
				}
			}
		}
		if o.Fired > 0 && o.Flow == "stale" {
			must := k.Failing() && (o.Pos < 0 || o.Role == "validate")
			if must {
				run.Count("c14p_must_refuse_stale", 1)
				if o.Obs.Served() {
					viol("c14:ptype-served-after-failed-revalidation", fmt.Sprintf("the stale session was served (userinfo %d, upstream reached %v)", o.Obs.UserinfoCode, o.Obs.UpHit), o)
				} else if o.Obs2 != nil && o.Obs2.Served() {
					viol("c14:ptype-session-extended-by-failed-revalidation", fmt.Sprintf("re-validation never succeeded, yet the same browser's next request is served (userinfo %d, upstream reached %v) while the backend has revoked the tokens", o.Obs2.UserinfoCode, o.Obs2.UpHit), o)
				}
			}
		}
		// identity integrity: whatever session exists carries an e-mail the backend sent
		for _, ob := range []*vfPvObs{&o.Obs, o.Obs2} {
			if ob == nil {
				continue
			}
			if o.Flow == "stale" && ob.Email == "" && !o.StaleKeepsEmail {
				continue // this variant loses the e-mail on every ordinary refresh (reported separately; not caused by the fault)
			}
			if o.Flow == "stale" && ob.UserinfoCode == 200 && ob.Email == "" && o.Fired > 0 {
				run.Count(fmt.Sprintf("c14p_identity_lost %s | call %d:%s | %s", o.Type, o.Pos, o.Call, o.KindName), 1)
				viol("c14:ptype-identity-lost-by-faulted-refresh", "the session is still served but its e-mail is now empty (an ordinary refresh keeps it)", o)
				continue
			}
			if ob.UserinfoCode == 200 && !asserted(o, ob.Email) {
				viol("c14:ptype-identity-not-asserted-by-provider", fmt.Sprintf("the session's e-mail %q was never sent by the backend during this conversation", ob.Email), o)
			}
			if ob.UpHit && ob.UpEmail != "" && !asserted(o, ob.UpEmail) {
				viol("c14:ptype-identity-not-asserted-by-provider", fmt.Sprintf("the upstream saw the e-mail %q which the backend never sent during this conversation", ob.UpEmail), o)
			}
		}
		if o.Clean == "ok" {
			run.Count("c14p_clean_logins", 1)
		} else if o.Clean != "" {
			viol("c14:ptype-stuck-after-fault", "an ordinary login on the same instance afterwards fails: "+o.Clean, o)
		}
	}
	stats := vfPvSweep(run, w, vfPvOpts{Prefix: "c14", Keep: c14pKeep(run.Env.Seed), CleanEvery: run.Env.Pick(6, 1), Judge: judge, Workers: 12})
	run.Extra("provider_types", stats)
	names := make([]string, 0, len(stats))
	for n := range stats {
		if !strings.HasPrefix(n, "_") {
			names = append(names, n)
		}
	}
	sort.Strings(names)
	usable := 0
	for _, n := range names {
		if _, dropped := stats[n]["dropped"]; !dropped {
			usable++
		}
	}
	run.Count("c14p_provider_type_variants_usable", int64(usable))
	if usable < len(names) {
		run.Inconclusive(fmt.Sprintf("c14p: only %d of %d provider-type variants log in benignly", usable, len(names)))
	}
	if run.Counter("c14p_must_fail_closed") < 150 || run.Counter("c14p_must_refuse_stale") < 30 || run.Counter("c14p_clean_logins") < 60 {
		run.Inconclusive("c14p: too few judged provider-type cases")
	}
}
