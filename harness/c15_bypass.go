//go:build verif

package main

// C15 — Authentication bypass rules match exactly what the operator configured.
//
// Oracle (reference predicate, written from the property statement and docs, not from the code):
//   exempt(req) <=> (preflight enabled && method == OPTIONS)
//                || exists rule: (rule.method == "" || rule.method == req.method) && (regexp(rule).Match(PATH) xor rule.negate)
//                || clientAddr in some configured network           (netip, independent of the repository's NetSet)
//   PATH = the request path as it appears in the request target, *without* the query string.
// Observation: unauthenticated request reaches the upstream (200 + upstream log entry) / 202 on auth-only  <=>  exempt.

import (
	"fmt"
	"net/netip"
	"regexp"
	"strings"
	"testing"
)

type c15Rule struct {
	Flag   string // as given on the command line
	Method string
	Negate bool
	Re     *regexp.Regexp
}

// c15ParseRule is the reference reading of the documented syntax: [METHOD]=REGEX, METHOD!=REGEX, or a bare REGEX.
func c15ParseRule(flag string) c15Rule {
	if strings.HasPrefix(flag, "--skip-auth-regex=") {
		re := strings.TrimPrefix(flag, "--skip-auth-regex=")
		return c15Rule{Flag: flag, Re: regexp.MustCompile(re)}
	}
	v := strings.TrimPrefix(flag, "--skip-auth-route=")
	r := c15Rule{Flag: flag}
	if k := strings.Index(v, "!="); k >= 0 && !strings.Contains(v[:k], "=") {
		r.Method, r.Negate, v = strings.ToUpper(v[:k]), true, v[k+2:]
	} else if k := strings.Index(v, "="); k >= 0 {
		r.Method, v = strings.ToUpper(v[:k]), v[k+1:]
	}
	r.Re = regexp.MustCompile(v)
	return r
}

func c15Exempt(rules []c15Rule, preflight bool, method, path string) bool {
	if preflight && method == "OPTIONS" {
		return true
	}
	for _, r := range rules {
		if r.Method != "" && r.Method != method {
			continue
		}
		if r.Re.MatchString(path) != r.Negate {
			return true
		}
	}
	return false
}

type c15RuleSet struct {
	Name      string
	Flags     []string
	Preflight bool
	Paths     []string // literals and near-misses
	Literals  []string // rule-like fragments to embed in queries
}

func c15RuleSets() []c15RuleSet {
	return []c15RuleSet{
		{Name: "anchored+method", Flags: []string{"--skip-auth-route=GET=^/public$", "--skip-auth-route=POST=^/api/hook$", "--skip-auth-route=^/open/", "--skip-auth-route=PUT=^/files/[0-9]+$"},
			Paths:    []string{"/public", "/public/", "/publicx", "/xpublic", "/PUBLIC", "/public/extra", "/a/public", "/open/", "/open/x/y", "/open", "/api/hook", "/x/api/hook", "/api/hook/x", "/files/123", "/files/12a", "/files/", "/secret", "/",
				// path parameters (';') are part of the path the rules are matched against
				"/public;x", "/public;jsessionid=1", "/public/x;/..;/..;/admin", "/files/17;a=b/delete", "/files/17;", "/open/;x/secret", "/api/hook;v=2"},
			Literals: []string{"/public", "/open/", "/api/hook", "/files/1"}},
		{Name: "unanchored+dollar", Flags: []string{"--skip-auth-route=GET=/public$", "--skip-auth-route=/health", "--skip-auth-route=DELETE=/tmp/.*\\.bak$"},
			Paths:    []string{"/public", "/a/public", "/public/x", "/publicx", "/health", "/a/healthy", "/x/health/y", "/heal", "/tmp/a.bak", "/tmp/a.bakx", "/tmp/abak", "/x/tmp/y/z.bak", "/secret", "/"},
			Literals: []string{"/public", "/health", "/tmp/a.bak"}},
		// the same regular expression under several methods and once negated: every rule is a rule of its own (round 8)
		{Name: "same-regex-several-methods", Flags: []string{"--skip-auth-route=GET=^/api/public$", "--skip-auth-route=POST=^/api/public$", "--skip-auth-route=PUT!=^/api/public$", "--skip-auth-route=DELETE=^/api/public$", "--skip-auth-route=GET=^/api/public$"},
			Paths:    []string{"/api/public", "/api/public/", "/api/publicx", "/other", "/", "/api"},
			Literals: []string{"/api/public", "^/api/public$"}},
		{Name: "negated-anchored", Flags: []string{"--skip-auth-route=GET!=^/private"},
			Paths:    []string{"/private", "/private/x", "/privatex", "/xprivate", "/priv", "/a/private", "/", "/Private"},
			Literals: []string{"/private", "^/private"}},
		{Name: "negated-dollar", Flags: []string{"--skip-auth-route=!=/private$"},
			Paths:    []string{"/private", "/a/private", "/private/", "/private/x", "/privatex", "/", "/x/private;/secret", "/private;x", "/a;b/private"},
			Literals: []string{"/private", "x"}},
		{Name: "legacy-regex", Flags: []string{"--skip-auth-regex=^/legacy/", "--skip-auth-regex=/metrics$"},
			Paths:    []string{"/legacy/a", "/legacy", "/legacy/", "/x/legacy/a", "/metrics", "/a/metrics", "/metricsx", "/metrics/", "/secret"},
			Literals: []string{"/legacy/", "/metrics"}},
		{Name: "alternation+qmark", Flags: []string{"--skip-auth-route=GET=^/(a|b)/c$", "--skip-auth-route=^/opt/x?y$", "--skip-auth-route=GET=^/q\\?x=1$", "--skip-auth-route=get=^/lower$"},
			Paths:    []string{"/a/c", "/b/c", "/c/c", "/a/c/", "/opt/xy", "/opt/y", "/opt/xxy", "/opt/x", "/q", "/q/", "/lower", "/LOWER", "/secret"},
			Literals: []string{"/a/c", "/opt/y", "x=1", "/lower"}},
		{Name: "preflight-on", Flags: []string{"--skip-auth-preflight=true", "--skip-auth-route=GET=^/public$"}, Preflight: true,
			Paths: []string{"/public", "/secret", "/"}, Literals: []string{"/public"}},
		{Name: "preflight-off", Flags: []string{"--skip-auth-preflight=false", "--skip-auth-route=GET=^/public$"},
			Paths: []string{"/public", "/secret", "/"}, Literals: []string{"/public"}},
		{Name: "negated-then-bare", Flags: []string{"--skip-auth-route=!=^/api", "--skip-auth-route=^/api/health$"},
			Paths: []string{"/api/users", "/api/health", "/api/health/x", "/api", "/apix", "/x", "/"}, Literals: []string{"/api/health", "/x"}},
		{Name: "bare-then-negated-then-method", Flags: []string{"--skip-auth-route=^/open$", "--skip-auth-route=POST!=^/(open|closed)", "--skip-auth-route=^/closed/door$", "--skip-auth-route=GET=^/g$", "--skip-auth-regex=^/legacy$"},
			Paths: []string{"/open", "/closed", "/closed/door", "/closed/window", "/g", "/legacy", "/other", "/"}, Literals: []string{"/open", "/closed/door"}},
		{Name: "extensions", Flags: []string{"--skip-auth-route=GET=\\.(css|js)$", "--skip-auth-route=^/public/"},
			Paths: []string{"/a.css", "/a.js", "/a.jsx", "/admin/users", "/public/x", "/admin/public/x", "/x/public/", "/", "/admin/users;x.css", "/a.css;v=1", "/admin;/public/"}, Literals: []string{"theme=dark.css", "/public/", "a.js"}},
		// legacy --skip-auth-regex values are bare regular expressions: an '=' or '!=' inside them is part of the expression
		{Name: "legacy-regex-with-equals", Flags: []string{"--skip-auth-regex=^/download/[A-Za-z0-9_=-]+$", "--skip-auth-regex=^/k=v/", "--skip-auth-regex=^/cmp/a!=b$", "--skip-auth-regex=POST=^/hooks/", "--skip-auth-regex=GET!=^/never"},
			Paths: []string{"/download/ab", "/download/a=b", "/download/a=b/c", "/download/", "/k=v/x", "/k=v", "/kv/x", "/cmp/a!=b", "/cmp/a=b", "/cmp/a", "/hooks/x", "/POST=/hooks/", "/never", "/ever", "/"}, Literals: []string{"/k=v/", "a!=b"}},
		{Name: "no-rules", Flags: []string{},
			Paths: []string{"/public", "/secret", "/"}, Literals: []string{"/public", ".*"}},
	}
}

var c15Methods = []string{"GET", "POST", "PUT", "DELETE", "OPTIONS", "HEAD", "get"}

func c15Queries(lits []string) []string {
	qs := []string{"", "?", "?x=1"}
	for _, l := range lits {
		qs = append(qs, "?"+l, "?x="+l, "?x=1&y="+l, "?"+l+"=1", "?x="+vfQueryEscape(l), "?x=1&"+l, "?next=http://h.test"+l, "?cb=app://open"+l)
	}
	return qs
}

type c15Case struct {
	Set, Channel, Method, Path, Query string
	Flags                              []string
	Expect, Got                        bool
	Status                             int
}

func TestVerif_C15(t *testing.T) {
	run := vfNewRun(t, "C15", "exploration")
	run.SetRule("routes: every (method, path, query) over 7 methods x the rule set's own literals and near-misses x queries embedding rule-like fragments, on protected paths, /oauth2/auth and (reverse-proxy mode) via X-Forwarded-Uri; " +
		"addresses: every address of 192.168.0.0/20 and 2001:db8::/116 plus boundaries of every network and IPv4-mapped notation, as RemoteAddr and via the real-client-IP header. " +
		"cell = (rule set, channel, method class, expected outcome, query class) / (network set, channel, family/notation, position, expected); non-trivial = an exemption rule or network is configured")
	run.Assume("Go regexp engine (same engine as the code under test)", "net/netip for the reference containment test", "requests whose escaped and decoded paths differ are not judged (both readings of 'path' accepted)")
	w := vfNewWorld(t)
	defer w.Close()

	c15Routes(run, w)
	c15Addresses(run, w)
	run.Finish(1000, 40)
}

func c15Routes(run *vfRun, w *vfWorld) {
	for _, rs := range c15RuleSets() {
		var rules []c15Rule
		for _, f := range rs.Flags {
			if strings.HasPrefix(f, "--skip-auth-route=") || strings.HasPrefix(f, "--skip-auth-regex=") {
				rules = append(rules, c15ParseRule(f))
			}
		}
		direct, err := w.NewProxy(rs.Flags...)
		if err != nil {
			run.T.Fatalf("rule set %s: %v", rs.Name, err)
		}
		rp, err := w.NewProxy(append(append([]string{}, rs.Flags...), "--reverse-proxy=true")...)
		if err != nil {
			run.T.Fatalf("rule set %s (reverse-proxy): %v", rs.Name, err)
		}
		queries := c15Queries(rs.Literals)
		type job struct {
			ch, m, p, q string
			hdr         []string
		}
		var jobs []job
		// "other headers have no influence on that decision": for every (method, path) a set of headers naming ANOTHER
		// method / URI for which the reference decides the opposite way (method-override and original-URI conventions of
		// various front proxies). Without reverse-proxy mode none of them is honoured; in reverse-proxy mode only
		// X-Forwarded-Uri is, so that instance gets the others.
		opposite := func(m, p string) (string, string) {
			base := c15Exempt(rules, rs.Preflight, m, p)
			om, op := "", ""
			for _, m2 := range []string{"GET", "POST", "PUT", "DELETE", "OPTIONS", "HEAD", "PATCH"} {
				if c15Exempt(rules, rs.Preflight, m2, p) != base {
					om = m2
					break
				}
			}
			for _, p2 := range rs.Paths {
				if c15Exempt(rules, rs.Preflight, m, p2) != base {
					op = p2
					break
				}
			}
			return om, op
		}
		for _, m := range c15Methods {
			for _, p := range rs.Paths {
				om, op := opposite(m, p)
				if om != "" {
					for _, h := range []string{"X-Forwarded-Method", "X-Http-Method-Override", "X-Original-Method", "X-Method-Override", "X-Http-Method"} {
						jobs = append(jobs, job{ch: "noise-direct", m: m, p: p, hdr: []string{h, om}})
						if h != "X-Forwarded-Method" {
							jobs = append(jobs, job{ch: "noise-rp", m: m, p: p, hdr: []string{h, om}})
						}
					}
				}
				if op != "" {
					for _, h := range []string{"X-Forwarded-Uri", "X-Original-Uri", "X-Original-Url", "X-Rewrite-Url", "X-Forwarded-Path", "X-Forwarded-Prefix", "X-Envoy-Original-Path"} {
						jobs = append(jobs, job{ch: "noise-direct", m: m, p: p, hdr: []string{h, op}})
						jobs = append(jobs, job{ch: "noise-direct-auth", m: m, p: p, hdr: []string{h, op}})
						if h != "X-Forwarded-Uri" {
							jobs = append(jobs, job{ch: "noise-rp", m: m, p: p, hdr: []string{h, op}})
						}
					}
				}
			}
		}
		for _, m := range c15Methods {
			for _, p := range rs.Paths {
				for qi, q := range queries {
					jobs = append(jobs, job{ch: "path", m: m, p: p, q: q})
					// the other channels get a thinner slice in the quick tier
					if run.Env.Thorough() || qi%3 == 0 || strings.Contains(q, p) {
						jobs = append(jobs, job{ch: "xfu-auth", m: m, p: p, q: q}, job{ch: "xfu-path", m: m, p: p, q: q})
					}
				}
			}
		}
		// hostile X-Forwarded-Uri forms (only reachable through the header: net/http rejects them in a request line):
		// malformed percent escapes, a leading "//", a fragment — the path is still "everything before the first ? or #"
		for _, m := range []string{"GET", "POST"} {
			for _, p := range rs.Paths {
				for _, l := range rs.Literals {
					for _, v := range []string{p + "%zz?x=" + l, p + "%?" + l, p + "%g1?y=1&" + l, "/" + p + "?x=" + l, "/" + p, p + "#" + l, p + "#f?x=" + l, p + "?x=1#" + l, "//evil.test" + p, p + "%zz", p + "\\" + l} {
						jobs = append(jobs, job{ch: "xfu-auth-raw", m: m, p: v}, job{ch: "xfu-path-raw", m: m, p: v})
					}
				}
			}
		}
		// the decision must not depend on the ORDER in which the rules were configured: same requests against
		// instances built from the reversed and from a rotated rule list
		type ordered struct {
			name string
			p    *vfProxy
		}
		var orders []ordered
		if len(rs.Flags) >= 2 {
			rev := make([]string, len(rs.Flags))
			for i, f := range rs.Flags {
				rev[len(rs.Flags)-1-i] = f
			}
			rot := append(append([]string{}, rs.Flags[1:]...), rs.Flags[0])
			for k, fl := range [][]string{rev, rot} {
				name := []string{"reversed", "rotated"}[k]
				// legacy --skip-auth-regex rules are always placed before --skip-auth-route rules by the option loader;
				// within each kind the order is the configured one
				op, err := w.NewProxy(fl...)
				if err != nil {
					run.T.Fatalf("rule set %s %s: %v", rs.Name, name, err)
				}
				orders = append(orders, ordered{name, op})
			}
			for _, m := range c15Methods {
				for _, p := range rs.Paths {
					for _, q := range []string{"", "?x=1", "?x=" + rs.Literals[0]} {
						for oi := range orders {
							jobs = append(jobs, job{ch: fmt.Sprintf("order:%d", oi), m: m, p: p, q: q})
						}
					}
				}
			}
		}
		vfParallel(len(jobs), 16, func(i int) {
			j := jobs[i]
			id := fmt.Sprintf("c15-%s-%d", rs.Name, i)
			var resp *vfResp
			var req *vfReq
			switch j.ch {
			case "path": // protected path on the instance itself
				req = vfNewReq(j.m, j.p+j.q, "X-Vf-Id", id)
				resp = direct.Do(req)
			case "xfu-auth": // nginx auth_request style: decision taken on X-Forwarded-Uri
				req = vfNewReq(j.m, "/oauth2/auth", "X-Forwarded-Uri", j.p+j.q, "X-Vf-Id", id)
				resp = rp.Do(req)
			case "xfu-path": // reverse-proxy mode, header names another URI than the request line
				req = vfNewReq(j.m, "/elsewhere?z=9", "X-Forwarded-Uri", j.p+j.q, "X-Vf-Id", id)
				resp = rp.Do(req)
			case "noise-direct":
				req = vfNewReq(j.m, j.p, "X-Vf-Id", id).H(j.hdr[0], j.hdr[1])
				resp = direct.Do(req)
			case "noise-rp":
				req = vfNewReq(j.m, j.p, "X-Vf-Id", id).H(j.hdr[0], j.hdr[1])
				resp = rp.Do(req)
			case "noise-direct-auth": // the auth-only endpoint of an instance that is NOT in reverse-proxy mode decides on its own path
				req = vfNewReq(j.m, "/oauth2/auth", "X-Vf-Id", id).H(j.hdr[0], j.hdr[1])
				resp = direct.Do(req)
			case "xfu-auth-raw":
				req = vfNewReq(j.m, "/oauth2/auth", "X-Forwarded-Uri", j.p, "X-Vf-Id", id)
				resp = rp.Do(req)
			case "xfu-path-raw":
				req = vfNewReq(j.m, "/elsewhere?z=9", "X-Forwarded-Uri", j.p, "X-Vf-Id", id)
				resp = rp.Do(req)
			default: // order:<n>
				var oi int
				fmt.Sscanf(j.ch, "order:%d", &oi)
				req = vfNewReq(j.m, j.p+j.q, "X-Vf-Id", id)
				resp = orders[oi].p.Do(req)
			}
			if resp.Invalid != "" {
				return
			}
			refPath := j.p
			if strings.HasSuffix(j.ch, "-raw") {
				if k := strings.IndexAny(refPath, "?#"); k >= 0 {
					refPath = refPath[:k]
				}
			}
			if j.ch == "noise-direct-auth" {
				refPath = "/oauth2/auth"
			}
			want := c15Exempt(rules, rs.Preflight, j.m, refPath)
			var got bool
			switch j.ch {
			case "xfu-auth", "xfu-auth-raw", "noise-direct-auth":
				got = resp.Code == 202
			default:
				got = len(w.Up.FindHit(id)) > 0
				if got != (resp.Code == 200) {
					run.Violation("c15:upstream-log-vs-status", "upstream log and status disagree", map[string]interface{}{"flags": direct.Flags, "request": req, "status": resp.Code, "upstream_hit": got})
				}
			}
			qc := "none"
			switch {
			case len(j.hdr) > 0:
				qc = "hdr:" + j.hdr[0]
			case j.q == "" || j.q == "?" || j.q == "?x=1":
				qc = "plain"
			default:
				qc = "embeds-rule-fragment"
			}
			cell := ""
			if len(rules) > 0 || rs.Preflight {
				chc := j.ch
				if strings.HasPrefix(chc, "order:") {
					chc = "rule-order-permuted"
				}
				cell = fmt.Sprintf("%s|%s|%s|want=%v|q=%s", rs.Name, chc, j.m, want, qc)
			}
			run.Eval(cell)
			run.Count("route_requests", 1)
			if got != want {
				sig := "c15:route-decision-differs"
				hd := ""
				if len(j.hdr) > 0 {
					sig = "c15:route-decision-influenced-by-header"
					hd = fmt.Sprintf(" with %s: %s", j.hdr[0], j.hdr[1])
				}
				run.Violation(sig, fmt.Sprintf("rule set %q, %s %s%s%s via %s: exempt=%v, reference says %v (status %d)", rs.Name, j.m, j.p, j.q, hd, j.ch, got, want, resp.Code),
					c15Case{Set: rs.Name, Channel: j.ch, Method: j.m, Path: j.p, Query: j.q, Flags: rs.Flags, Expect: want, Got: got, Status: resp.Code})
			}
			run.SampleEvery(997, func() interface{} {
				return c15Case{Set: rs.Name, Channel: j.ch, Method: j.m, Path: j.p, Query: j.q, Flags: rs.Flags, Expect: want, Got: got, Status: resp.Code}
			})
		})
		w.Up.Reset()
	}
}

// ---------------------------------------------------------------------------------------------------------

type c15NetSet struct {
	Name string
	Nets []string
}

func c15NetSets() []c15NetSet {
	return []c15NetSet{
		{"adjacent-v4", []string{"192.168.1.0/24", "192.168.2.128/25", "192.168.3.0/25"}},
		{"nested-v4", []string{"192.168.0.0/22", "192.168.1.64/26", "192.168.1.65", "192.168.8.0/21"}},
		{"singles-v4", []string{"192.168.15.255", "192.168.0.0", "192.168.7.7/32"}},
		{"all-v4", []string{"0.0.0.0/0"}},
		{"v6", []string{"2001:db8::/120", "2001:db8::800/117", "2001:db8::401/128"}},
		{"mixed", []string{"192.168.4.0/23", "2001:db8::400/118", "::ffff:192.168.8.0/120", "2001:db8::fff"}},
		{"all-v6", []string{"::/0"}},
		{"loopback", []string{"127.0.0.1", "127.0.0.0/8", "::ffff:127.0.0.1", "::1", "0.0.0.0/0", "::/0"}},
		// nested networks sharing their base address, the narrower one listed first (and an IPv4-mapped spelling of a nested one)
		// prefixes shorter than one octet (the network spans several first octets), plain and in IPv4-mapped spelling; short IPv6 prefix (round 8)
		{"short-prefixes", []string{"10.0.0.0/7", "128.0.0.0/1", "64.0.0.0/3", "::ffff:32.0.0.0/101", "2000::/3", "fc00::/7"}},
		{"nested-same-base", []string{"192.168.0.0/24", "192.168.0.0/21", "2001:db8::/124", "2001:db8::/118", "::ffff:192.168.8.0/120", "192.168.8.0/22", "192.168.12.0", "192.168.12.0/23"}},
	}
}

func c15RefPrefixes(nets []string) []netip.Prefix {
	var out []netip.Prefix
	for _, n := range nets {
		var p netip.Prefix
		if strings.Contains(n, "/") {
			p = netip.MustParsePrefix(n)
		} else {
			a := netip.MustParseAddr(n)
			p = netip.PrefixFrom(a, a.BitLen())
		}
		if p.Addr().Is4In6() && p.Bits() >= 96 { // an IPv4-mapped network is the IPv4 network
			p = netip.PrefixFrom(p.Addr().Unmap(), p.Bits()-96)
		}
		out = append(out, p.Masked())
	}
	return out
}

func c15InAny(ps []netip.Prefix, a netip.Addr) bool {
	a = a.Unmap()
	for _, p := range ps {
		if p.Contains(a) {
			return true
		}
	}
	return false
}

type c15Addr struct {
	A        netip.Addr
	Notation string // plain | mapped
	Pos      string // universe | first | last | before | after
}

func c15Universe(ps []netip.Prefix, thorough bool) []c15Addr {
	var out []c15Addr
	v4 := netip.MustParsePrefix("192.168.0.0/20")
	a := v4.Addr()
	for k := 0; k < 4096; k++ {
		out = append(out, c15Addr{a, "plain", "universe"})
		if thorough || k%16 == 0 {
			out = append(out, c15Addr{netip.AddrFrom16(a.As16()), "mapped", "universe"})
		}
		a = a.Next()
	}
	a = netip.MustParseAddr("2001:db8::")
	for k := 0; k < 4096; k++ {
		out = append(out, c15Addr{a, "plain", "universe"})
		a = a.Next()
	}
	for _, p := range ps {
		first := p.Addr()
		last := first
		// last address of the prefix
		b := first.AsSlice()
		for bit := p.Bits(); bit < first.BitLen(); bit++ {
			b[bit/8] |= 1 << (7 - uint(bit%8))
		}
		last, _ = netip.AddrFromSlice(b)
		add := func(x netip.Addr, pos string) {
			if !x.IsValid() {
				return
			}
			out = append(out, c15Addr{x, "plain", pos})
			if x.Is4() {
				out = append(out, c15Addr{netip.AddrFrom16(x.As16()), "mapped", pos})
			}
		}
		add(first, "first")
		add(last, "last")
		if p.Bits() < first.BitLen() { // first address of the upper half of the network
			m := first.AsSlice()
			m[p.Bits()/8] |= 1 << (7 - uint(p.Bits()%8))
			if x, ok := netip.AddrFromSlice(m); ok {
				add(x, "upper-half")
			}
		}
		add(first.Prev(), "before")
		add(last.Next(), "after")
	}
	out = append(out, c15Addr{netip.MustParseAddr("10.1.2.3"), "plain", "far"}, c15Addr{netip.MustParseAddr("::1"), "plain", "far"}, c15Addr{netip.MustParseAddr("127.0.0.1"), "plain", "far"})
	return out
}

func c15Addresses(run *vfRun, w *vfWorld) {
	for _, ns := range c15NetSets() {
		var flags []string
		for _, n := range ns.Nets {
			flags = append(flags, "--trusted-ip="+n)
		}
		direct, err := w.NewProxy(flags...)
		if err != nil {
			run.T.Fatalf("net set %s: %v", ns.Name, err)
		}
		rpReal, err := w.NewProxy(append(append([]string{}, flags...), "--reverse-proxy=true")...) // X-Real-IP (default)
		if err != nil {
			run.T.Fatalf("net set %s rp: %v", ns.Name, err)
		}
		rpXFF, err := w.NewProxy(append(append([]string{}, flags...), "--reverse-proxy=true", "--real-client-ip-header=X-Forwarded-For")...)
		if err != nil {
			run.T.Fatalf("net set %s rp xff: %v", ns.Name, err)
		}
		// reverse-proxy mode OFF but a real-client-IP header NAMED explicitly (each of the accepted names in turn): naming the
		// header does not turn it on — the client address stays the peer address (round 6)
		namedHdr := []string{"X-Forwarded-For", "X-Real-IP", "X-ProxyUser-IP"}[len(ns.Nets)%3]
		directNamed, err := w.NewProxy(append(append([]string{}, flags...), "--real-client-ip-header="+namedHdr)...)
		if err != nil {
			run.T.Fatalf("net set %s direct with named header: %v", ns.Name, err)
		}
		// the same networks configured in reverse order: the decision must not depend on the order
		var revFlags []string
		for i := len(flags) - 1; i >= 0; i-- {
			revFlags = append(revFlags, flags[i])
		}
		reversed, err := w.NewProxy(revFlags...)
		if err != nil {
			run.T.Fatalf("net set %s reversed: %v", ns.Name, err)
		}
		ref := c15RefPrefixes(ns.Nets)
		addrs := c15Universe(ref, run.Env.Thorough())
		garbage := []string{"unknown", "300.1.1.1", "::ffff:999.1.1.1", "1.2.3", "192.168.1", "localhost", "-", "2001:db8::zz", "0x7f.1", "unknown, %s", "_hidden, %s"}
		vfParallel(len(addrs), 16, func(i int) {
			ad := addrs[i]
			want := c15InAny(ref, ad.A)
			s := ad.A.String()
			hostport := s + ":4711"
			if ad.A.Is6() {
				hostport = "[" + s + "]:4711"
			}
			fam := "v4"
			if ad.A.Is6() && !ad.A.Is4In6() {
				fam = "v6"
			}
			try := func(channel string, p *vfProxy, req *vfReq, applicable bool) {
				if !applicable {
					return
				}
				id := fmt.Sprintf("c15a-%s-%s-%d", ns.Name, channel, i)
				req.H("X-Vf-Id", id)
				resp := p.Do(req)
				if resp.Invalid != "" {
					return
				}
				got := resp.Code == 200 && len(w.Up.FindHit(id)) > 0
				if req.Target == "/oauth2/auth" {
					got = resp.Code == 202
				}
				run.Eval(fmt.Sprintf("%s|%s|%s/%s|%s|want=%v", ns.Name, channel, fam, ad.Notation, ad.Pos, want))
				run.Count("address_requests", 1)
				if got != want {
					run.Violation("c15:trusted-ip-decision-differs", fmt.Sprintf("networks %v, client %s via %s: exempt=%v, reference says %v (status %d)", ns.Nets, s, channel, got, want, resp.Code),
						map[string]interface{}{"flags": p.Flags, "request": req, "status": resp.Code, "expected_exempt": want})
				}
				run.SampleEvery(4999, func() interface{} {
					return map[string]interface{}{"networks": ns.Nets, "client": s, "channel": channel, "exempt": got, "expected": want}
				})
			}
			try("remoteaddr", direct, vfGET("/x").From(hostport), true)
			try("remoteaddr-reversed-config", reversed, vfGET("/x").From(hostport), true)
			// named header, reverse-proxy off: the header carries an address on the OTHER side of the decision
			if ad.Pos != "universe" || i%4 == 0 {
				other := "203.0.113.77"
				if !want {
					for _, o := range addrs {
						if c15InAny(ref, o.A) {
							other = o.A.String()
							break
						}
					}
				}
				if c15InAny(ref, netip.MustParseAddr(other)) != want {
					try("remoteaddr-named-header-off", directNamed, vfGET("/x", namedHdr, other).From(hostport), true)
					try("remoteaddr-named-header-off-auth", directNamed, vfGET("/oauth2/auth", namedHdr, other).From(hostport), i%2 == 0)
				}
			}
			// reverse-proxy mode, the real-client-IP header is present but its (first) element is not an address: the client
			// address is then not inside any network — the address of the PEER (the front proxy, here inside a configured
			// network) must not be used instead. (No header at all is a different situation, see below.)
			if want && (ad.Pos != "universe" || i%64 == 0) {
				g := garbage[i%len(garbage)]
				if strings.Contains(g, "%s") {
					g = fmt.Sprintf(g, s)
				}
				for _, gp := range []struct {
					ch  string
					p   *vfProxy
					hdr string
				}{{"garbage-x-real-ip-trusted-peer", rpReal, "X-Real-IP"}, {"garbage-xff-trusted-peer", rpXFF, "X-Forwarded-For"}} {
					id := fmt.Sprintf("c15g-%s-%s-%d", ns.Name, gp.ch, i)
					req := vfGET("/x", gp.hdr, g, "X-Vf-Id", id).From(hostport)
					resp := gp.p.Do(req)
					if resp.Invalid != "" {
						continue
					}
					got := resp.Code == 200 && len(w.Up.FindHit(id)) > 0
					run.Eval(fmt.Sprintf("%s|%s|%s|want=false", ns.Name, gp.ch, fam))
					run.Count("garbage_header_requests", 1)
					if got {
						run.Violation("c15:unparseable-client-address-exempted", fmt.Sprintf("networks %v, reverse-proxy mode, %s: %q from peer %s: exempted although the declared client address is not inside any network", ns.Nets, gp.hdr, g, s),
							map[string]interface{}{"flags": gp.p.Flags, "request": req, "status": resp.Code})
					}
				}
			}
			// a spoofed header must not matter when reverse-proxy mode is off (detail of C16, cheap to assert here on boundaries)
			sub := ad.Pos != "universe" || i%8 == 0 || run.Env.Thorough()
			try("remoteaddr-auth", direct, vfGET("/oauth2/auth").From(hostport), sub)
			try("x-real-ip", rpReal, vfGET("/x", "X-Real-IP", s).From("198.51.100.7:1"), sub)
			try("x-real-ip-port", rpReal, vfGET("/x", "X-Real-IP", hostport).From("198.51.100.7:1"), sub && i%4 == 0)
			try("xff-list", rpXFF, vfGET("/x", "X-Forwarded-For", s+", 10.9.9.9").From("198.51.100.7:1"), sub)
		})
		// a peer WITHOUT an IP address (unix-socket listener: net/http reports "@"; other unparsable forms) is not inside any
		// network, whatever the networks are (loopback included) — reverse-proxy mode off, so no header can supply an address
		for _, peer := range []string{"@", "unix", "localhost:80", ":80", "[::1", "garbage", " ", "@:0", "/run/oauth2-proxy.sock"} {
			for _, tgt := range []string{"/x", "/oauth2/auth"} {
				id := fmt.Sprintf("c15p-%s-%d", ns.Name, len(peer)*7+len(tgt))
				req := vfGET(tgt, "X-Vf-Id", id, "X-Real-IP", "127.0.0.1", "X-Forwarded-For", "127.0.0.1").From(peer)
				resp := direct.Do(req)
				if resp.Invalid != "" {
					continue
				}
				got := (resp.Code == 200 && len(w.Up.FindHit(id)) > 0) || (tgt == "/oauth2/auth" && resp.Code == 202)
				run.Eval(fmt.Sprintf("%s|peer-without-address|%q|want=false", ns.Name, peer))
				run.Count("addressless_peer_requests", 1)
				if got {
					run.Violation("c15:addressless-peer-exempted", fmt.Sprintf("networks %v, reverse-proxy off, peer address %q (no IP address): exempted (status %d)", ns.Nets, peer, resp.Code),
						map[string]interface{}{"flags": direct.Flags, "request": req, "status": resp.Code})
				}
			}
		}
		// reverse-proxy mode without the header: the unchanged tree treats the client address as unknown (no exemption).
		// Falling back to the peer address would be an equally defensible reading, so this is recorded, not judged.
		for _, ad := range addrs {
			if ad.Pos == "first" && ad.Notation == "plain" {
				hp := ad.A.String() + ":1"
				if ad.A.Is6() {
					hp = "[" + ad.A.String() + "]:1"
				}
				resp := rpReal.Do(vfGET("/x").From(hp))
				run.Count(fmt.Sprintf("observed_rp_no_header_status_%d", resp.Code), 1)
			}
		}
		w.Up.Reset()
	}
}
