//go:build verif

package main

// C06 delivery channels: every way request data can become a redirect target, driven against real instances, and the
// judgement of everything that comes back (Location headers, href/action/src attributes and hidden rd inputs of pages).

import (
	"bytes"
	"crypto/sha1"
	"encoding/base64"
	"fmt"
	"net/http"
	"net/url"
	"sort"
	"strconv"
	"strings"
	"sync"
	"testing"
	"time"

	"golang.org/x/net/html"
)

type c06WL struct {
	Kind    string
	Entries []string
}

var c06WLs = []c06WL{
	{"none", nil},
	// wiki.test: a name with letters that non-ASCII characters case-map onto (U+0130 -> i, U+212A -> k); proxy.test /
	// proxy.test:4180: the hosts the requests are made to (operators do whitelist their own host)
	{"exact", []string{"good.test", "wiki.test", "proxy.test"}},
	{"dot", []string{".good.test", ".wiki.test"}},
	{"star", []string{"*.good.test", "*.wiki.test"}},
	{"port", []string{"good.test:8443", "wiki.test:8443", "proxy.test:4180"}},
	{"anyport", []string{"good.test:*", "wiki.test:*", "proxy.test:*"}},
	{"ipv6", []string{"[::1]", "127.0.0.1:8443"}},
	// entries with an empty host part (a trailing comma, an unset template value, a bare ":*"): accepted at start-up; per the
	// documentation an entry names a domain, so an entry without one admits nothing
	{"emptyhost", []string{"good.test", "", ":*", ":8443"}},
}

// ---------------------------------------------------------------------------------------------------------
// accumulator (local to a worker chunk, merged under a lock; serialisable: the bulk pass runs in a child process)

type c06Case struct {
	Channel  string   `json:"channel"`
	WL       string   `json:"whitelist_kind"`
	Entries  []string `json:"whitelist"`
	Input    string   `json:"input_quoted"`
	Template string   `json:"input_template,omitempty"` // configuration-host targets: the template the input was made from (what --replay drives)
	Base     string   `json:"base_url_of_request"`
	Status   int      `json:"status"`
	Where    string   `json:"where,omitempty"`
	Output   string   `json:"output_quoted,omitempty"`
	Resolved string   `json:"browser_resolves_to,omitempty"`
	Verdict  string   `json:"verdict,omitempty"`
	Kept     bool     `json:"kept"`
	Flags    []string `json:"flags,omitempty"`
	Requests []string `json:"requests_raw_quoted,omitempty"`
	Note     string   `json:"note,omitempty"`
}

type c06Viol struct {
	Sig     string  `json:"sig"`
	Summary string  `json:"summary"`
	Detail  c06Case `json:"detail"`
}

type c06Acc struct {
	mu       sync.Mutex
	Evals    int64            `json:"evals"`
	Cells    map[string]int64 `json:"cells"`
	Counters map[string]int64 `json:"counters"`
	Viols    []c06Viol        `json:"viols"`
	ViolN    map[string]int64 `json:"viol_n"`
	Samples  []c06Case        `json:"samples"`
}

func c06NewAcc() *c06Acc {
	return &c06Acc{Cells: map[string]int64{}, Counters: map[string]int64{}, ViolN: map[string]int64{}}
}

func (a *c06Acc) eval(cell string) {
	a.Evals++
	if cell != "" {
		a.Cells[cell]++
	}
}
func (a *c06Acc) count(k string, n int64) { a.Counters[k] += n }
func (a *c06Acc) viol(sig, summary string, d c06Case) {
	a.ViolN[sig]++
	a.keep(c06Viol{sig, summary, d})
}

// keep retains up to 4 witnesses per signature, preferring the shortest inputs (the most readable reproductions).
func (a *c06Acc) keep(v c06Viol) {
	score := func(x c06Viol) int { // lower is a better witness: lands on the foreign test host, short input
		sc := len(x.Detail.Input)
		if !strings.Contains(x.Detail.Resolved, "evil") {
			sc += 1000
		}
		return sc
	}
	n, worst := 0, -1
	for i, x := range a.Viols {
		if x.Sig == v.Sig {
			n++
			if worst < 0 || score(x) > score(a.Viols[worst]) {
				worst = i
			}
		}
	}
	switch {
	case n < 4 && len(a.Viols) < 80:
		a.Viols = append(a.Viols, v)
	case worst >= 0 && score(v) < score(a.Viols[worst]):
		a.Viols[worst] = v
	}
}

func (a *c06Acc) merge(b *c06Acc) {
	a.mu.Lock()
	defer a.mu.Unlock()
	a.Evals += b.Evals
	for k, v := range b.Cells {
		a.Cells[k] += v
	}
	for k, v := range b.Counters {
		a.Counters[k] += v
	}
	for k, v := range b.ViolN {
		a.ViolN[k] += v
	}
	for _, v := range b.Viols {
		a.keep(v)
	}
	for _, s := range b.Samples {
		if len(a.Samples) < 40 {
			a.Samples = append(a.Samples, s)
		}
	}
}

// flush moves an accumulator into the run (evidence + violations).
func (a *c06Acc) flush(run *vfRun) {
	a.mu.Lock()
	defer a.mu.Unlock()
	var nontrivial int64
	for c, n := range a.Cells {
		nontrivial += n
		for k := int64(0); k < n; k++ {
			run.Eval(c)
		}
	}
	for k := int64(0); k < a.Evals-nontrivial; k++ {
		run.Eval("")
	}
	for k, v := range a.Counters {
		run.Count(k, v)
	}
	// one witness of every signature first (the run keeps a bounded number of witness files), then the second ones, ...
	sort.SliceStable(a.Viols, func(i, j int) bool { return a.Viols[i].Sig < a.Viols[j].Sig })
	rank := make([]int, len(a.Viols))
	for i := range a.Viols {
		if i > 0 && a.Viols[i].Sig == a.Viols[i-1].Sig {
			rank[i] = rank[i-1] + 1
		}
	}
	for r := 0; r < 4; r++ {
		for i, v := range a.Viols {
			if rank[i] == r {
				run.Violation(v.Sig, v.Summary, v.Detail)
			}
		}
	}
	for sig, n := range a.ViolN {
		run.Count("violations["+sig+"]", n)
	}
	for i, s := range a.Samples {
		if i%4 == 0 {
			run.Sample(s)
		}
	}
	a.Evals, a.Cells, a.Counters, a.Viols, a.ViolN, a.Samples = 0, map[string]int64{}, map[string]int64{}, nil, map[string]int64{}, nil
}

// ---------------------------------------------------------------------------------------------------------
// context: three real instances per whitelist configuration

const (
	c06HostA = "proxy.test"
	c06HostC = "proxy.test:4180"
	c06User  = "u1"
	c06Pass  = "pw1"
)

type c06Ctx struct {
	WL    c06WL
	Rich  bool     // the "configuration-rich" variant: named IdP / redirect-url / cookie-domain / second upstream / redis (c06_confighosts.go)
	Idx   int      // index in c06WLs
	H     *vfProxy // htpasswd form login, plain state — lives in the long-lived world W0 (inotify instances are scarce)
	A     *vfProxy // plain state
	B     *vfProxy // reverse-proxy + base64 state
	C     *vfProxy // skip-provider-button + PKCE, addressed with a port in Host
	LW    *vfWorld // world of A, B, C: replaced every so many logins (the fake IdP keeps a log of every login)
	BaseA c06Base
	BaseC c06Base
}

func c06HtpasswdLine(user, pass string) string {
	h := sha1.Sum([]byte(pass))
	return user + ":{SHA}" + base64.StdEncoding.EncodeToString(h[:]) + "\n"
}

// c06CacheIDToken makes the world's IdP reuse one signed ID token (instances run with --insecure-oidc-skip-nonce=true, the
// upstream default): an RSA signature per login is the dominant cost of the login channels and adds nothing to C06.
func c06CacheIDToken(w *vfWorld) {
	var mu sync.Mutex
	var tok string
	var at time.Time
	w.IdP.Set(func(c *vfIdPCfg) {
		c.MintOverride = func(grant string, claims map[string]interface{}) (string, bool) {
			mu.Lock()
			defer mu.Unlock()
			if tok == "" || time.Since(at) > 5*time.Minute {
				tok, at = vfMint(claims, vfMintOpts{}), time.Now()
			}
			return tok, true
		}
	})
}

// flagsFor: the whitelist flags plus, for the configuration-rich variant, the flags that put further host names into the
// configuration of an instance living in world w.
func (cx *c06Ctx) flagsFor(w *vfWorld) []string {
	f := cx.wlFlags()
	if cx.Rich {
		f = append(f, c06RichFlags(w)...)
	}
	return f
}

func (cx *c06Ctx) wlFlags() []string {
	f := []string{"--insecure-oidc-skip-nonce=true"}
	empty := false
	for _, e := range cx.WL.Entries {
		empty = empty || e == ""
	}
	if empty { // an empty entry only survives flag parsing inside a comma-separated list
		return append(f, "--whitelist-domain="+strings.Join(cx.WL.Entries, ","))
	}
	for _, e := range cx.WL.Entries {
		f = append(f, "--whitelist-domain="+e)
	}
	return f
}

func (cx *c06Ctx) checkWL(p *vfProxy) error {
	if got, want := fmt.Sprintf("%q", p.Opts.WhitelistDomains), fmt.Sprintf("%q", cx.WL.Entries); got != want && !(len(p.Opts.WhitelistDomains) == 0 && len(cx.WL.Entries) == 0) {
		return fmt.Errorf("instance has whitelist %s, wanted %s", got, want)
	}
	return nil
}

// c06NewCtx creates the long-lived htpasswd instance in w0; Rotate creates the login instances.
func c06NewCtx(w0 *vfWorld, wl c06WL) (*c06Ctx, error) { return c06NewCtxV(w0, wl, false) }

func c06NewCtxV(w0 *vfWorld, wl c06WL, rich bool) (*c06Ctx, error) {
	cx := &c06Ctx{WL: wl, Rich: rich}
	ht := w0.File("htpasswd-"+wl.Kind, c06HtpasswdLine(c06User, c06Pass))
	var err error
	if cx.H, err = w0.NewProxy(append(cx.flagsFor(w0), "--htpasswd-file="+ht)...); err != nil {
		return nil, err
	}
	if err := cx.checkWL(cx.H); err != nil {
		return nil, err
	}
	for i, w := range c06WLs {
		if w.Kind == wl.Kind {
			cx.Idx = i
		}
	}
	var ok2, ok3 bool
	cx.BaseA, ok2 = c06ParseBase("http", c06HostA)
	cx.BaseC, ok3 = c06ParseBase("http", c06HostC)
	if !ok2 || !ok3 {
		return nil, fmt.Errorf("cannot parse bases")
	}
	return cx, nil
}

// Rotate (re)creates the world of the login instances.
func (cx *c06Ctx) Rotate(t testing.TB) error {
	if cx.LW != nil {
		cx.LW.Close()
	}
	w := vfNewWorld(t)
	c06CacheIDToken(w)
	cx.LW = w
	var err error
	if cx.A, err = w.NewProxy(cx.flagsFor(w)...); err != nil {
		return err
	}
	if cx.B, err = w.NewProxy(append(cx.flagsFor(w), "--reverse-proxy=true", "--encode-state=true")...); err != nil {
		return err
	}
	if cx.C, err = w.NewProxy(append(cx.flagsFor(w), "--skip-provider-button=true", "--code-challenge-method=S256")...); err != nil {
		return err
	}
	for _, p := range []*vfProxy{cx.A, cx.B, cx.C} {
		if err := cx.checkWL(p); err != nil {
			return err
		}
	}
	return nil
}

func (cx *c06Ctx) Close() {
	if cx.LW != nil {
		cx.LW.Close()
		cx.LW = nil
	}
}

// c06AuthEP: the authorization endpoint the instance is configured with: --login-url when given (static endpoints, a NAMED
// IdP host), else the one the world's IdP publishes in its discovery document.
func c06AuthEP(p *vfProxy) (string, c06Base) {
	if lu := c06FlagValue(p, "--login-url"); lu != "" {
		if u, err := url.Parse(lu); err == nil && u.Host != "" {
			b, _ := c06ParseBase(u.Scheme, u.Host)
			return lu, b
		}
	}
	iss := p.W.IdP.Issuer
	b, _ := c06ParseBase("http", strings.TrimPrefix(iss, "http://"))
	return iss + "/authorize", b
}

// c06Authorize plays the IdP's authorization endpoint for a login start of p. With a named --login-url no traffic reaches
// that name: the rig's IdP is what "DNS" resolves it to.
func c06Authorize(p *vfProxy, loginURL string) (string, *vfAuthReq, error) {
	if lu := c06FlagValue(p, "--login-url"); lu != "" && strings.HasPrefix(loginURL, lu+"?") {
		loginURL = p.W.IdP.Issuer + "/authorize" + loginURL[len(lu):]
	}
	return p.W.IdP.Authorize(loginURL, vfStdIdentity)
}

// ---------------------------------------------------------------------------------------------------------
// what a response offers a browser to follow

type c06Out struct{ Where, Val string }

const c06FooterLink = "https://github.com/oauth2-proxy/oauth2-proxy#oauth2_proxy" // static text of the default footer, not request data

func c06Outs(resp *vfResp, a *c06Acc) []c06Out {
	var outs []c06Out
	for _, l := range resp.Header.Values("Location") {
		outs = append(outs, c06Out{"Location", l})
	}
	if v := resp.Header.Get("Refresh"); v != "" {
		if k := strings.Index(strings.ToLower(v), "url="); k >= 0 {
			outs = append(outs, c06Out{"Refresh", strings.Trim(v[k+4:], `"' `)})
		}
	}
	if resp.Code >= 300 && resp.Code < 400 && len(outs) > 0 {
		return outs // a browser follows the Location and never renders the body of a redirect
	}
	// the direct driver's recorder does not sniff a Content-Type once WriteHeader was called explicitly (the real server
	// does): an absent type is sniffed here the way net/http and browsers do
	ct := resp.Header.Get("Content-Type")
	if ct == "" && len(resp.Body) > 0 {
		ct = http.DetectContentType(resp.Body)
	}
	if len(resp.Body) == 0 || !strings.Contains(ct, "html") {
		return outs
	}
	a.count("html_pages_parsed", 1)
	z := html.NewTokenizer(bytes.NewReader(resp.Body))
	for {
		tt := z.Next()
		if tt == html.ErrorToken {
			break
		}
		if tt != html.StartTagToken && tt != html.SelfClosingTagToken {
			continue
		}
		t := z.Token()
		var name, typ, value, content, equiv string
		hasValue := false
		for _, at := range t.Attr {
			switch strings.ToLower(at.Key) {
			case "href", "action", "src", "formaction", "data", "poster", "background", "ping", "manifest":
				if at.Val == c06FooterLink {
					a.count("static_footer_link", 1)
					continue
				}
				outs = append(outs, c06Out{t.Data + " " + strings.ToLower(at.Key), at.Val})
			case "name":
				name = at.Val
			case "type":
				typ = at.Val
			case "value":
				value, hasValue = at.Val, true
			case "content":
				content = at.Val
			case "http-equiv":
				equiv = at.Val
			}
		}
		if t.Data == "input" && name == "rd" && hasValue {
			_ = typ
			outs = append(outs, c06Out{"hidden rd", value})
		}
		if t.Data == "meta" && strings.EqualFold(equiv, "refresh") {
			if k := strings.Index(strings.ToLower(content), "url="); k >= 0 {
				outs = append(outs, c06Out{"meta refresh", strings.Trim(content[k+4:], `"' `)})
			}
		}
	}
	return outs
}

func c06Quote(s string) string { return strconv.QuoteToASCII(s) }

func c06ReqStrings(reqs []*vfReq) []string {
	var out []string
	for _, r := range reqs {
		if r != nil {
			out = append(out, c06Quote(string(r.Bytes())))
		}
	}
	return out
}

// judge records one evaluation for (channel, input): every offered target must stay on the allowed origins.
// Returns whether the input was kept (some redirect target other than the fallback "/").
func (cx *c06Ctx) judge(a *c06Acc, ch, in string, base c06Base, p *vfProxy, resp *vfResp, reqs ...*vfReq) bool {
	outs := c06Outs(resp, a)
	kept := false
	bad := false
	for _, o := range outs {
		if o.Where == "hidden rd" {
			a.count("hidden_rd_seen_"+ch, 1)
		}
		if (o.Where == "Location" || o.Where == "hidden rd") && o.Val != "/" && !strings.HasSuffix(o.Val, c06XFFallback) {
			kept = true
		}
		v, u := c06Verdict(o.Val, base, cx.WL.Entries)
		a.count("verdict_"+v, 1)
		if v == "off" || v == "scheme" {
			bad = true
			where := "location"
			if o.Where != "Location" {
				where = "page"
			}
			sig := fmt.Sprintf("c06:off-origin-%s:%s", where, ch)
			if v == "scheme" {
				sig = fmt.Sprintf("c06:non-http-scheme-%s:%s", where, ch)
			}
			a.viol(sig, fmt.Sprintf("whitelist %v, channel %s, input %s: %s %s takes a browser to %s (request was made to %s)", cx.WL.Entries, ch, c06Quote(in), o.Where, c06Quote(o.Val), u, base),
				c06Case{Channel: ch, WL: cx.WL.Kind, Entries: cx.WL.Entries, Input: c06Quote(in), Base: base.String(), Status: resp.Code, Where: o.Where, Output: c06Quote(o.Val),
					Resolved: u.String(), Verdict: v, Kept: true, Flags: p.Flags, Requests: c06ReqStrings(reqs)})
		}
	}
	if resp.Panic != "" {
		a.count("panics_seen(not judged here: C19)", 1)
	}
	// non-trivial: the input survived, or a browser would leave the origin if the input were echoed verbatim
	rawV, _ := c06Verdict(in, base, nil)
	cell := ""
	if kept || rawV == "off" || rawV == "scheme" {
		cell = ch + "|" + cx.WL.Kind + "|" + c06Class(in)
	}
	a.eval(cell)
	a.count("ch_"+ch, 1)
	if kept {
		a.count("kept_"+ch, 1)
	}
	if !bad && kept && len(a.Samples) < 3 && c06Hash(in+ch)%257 == 0 {
		o := outs[0]
		a.Samples = append(a.Samples, c06Case{Channel: ch, WL: cx.WL.Kind, Input: c06Quote(in), Base: base.String(), Status: resp.Code, Where: o.Where, Output: c06Quote(o.Val), Kept: kept, Verdict: "allowed"})
	}
	return kept
}

// ---------------------------------------------------------------------------------------------------------
// login plumbing

func c06IsStart(resp *vfResp) bool {
	if resp.Code != 302 {
		return false
	}
	for _, sc := range resp.SetCookies() {
		if c, err := http.ParseSetCookie(sc); err == nil && strings.HasSuffix(c.Name, "_csrf") && c.Value != "" && c.MaxAge >= 0 {
			return true
		}
	}
	return false
}

func c06CSRFCookies(resp *vfResp) string {
	var parts []string
	for _, sc := range resp.SetCookies() {
		if c, err := http.ParseSetCookie(sc); err == nil && strings.HasSuffix(c.Name, "_csrf") && c.Value != "" {
			parts = append(parts, c.Name+"="+c.Value)
		}
	}
	return strings.Join(parts, "; ")
}

// checkStart: "the redirect that starts a login always targets the configured identity-provider authorization endpoint".
func (cx *c06Ctx) checkStart(a *c06Acc, ch, in string, base c06Base, p *vfProxy, req *vfReq, resp *vfResp) bool {
	l := resp.Location()
	a.count("login_starts_checked", 1)
	u := c06Resolve(l, base)
	authEP, idpBase := c06AuthEP(p)
	ok := strings.HasPrefix(l, authEP+"?") && u.Kind == "special" && u.Scheme == idpBase.Scheme && u.Host == idpBase.Host && u.Port == idpBase.Port
	if !ok {
		a.viol("c06:login-start-not-authorization-endpoint:"+ch, fmt.Sprintf("channel %s, input %s: the login start redirects to %s, configured authorization endpoint is %s", ch, c06Quote(in), c06Quote(l), authEP),
			c06Case{Channel: ch, WL: cx.WL.Kind, Entries: cx.WL.Entries, Input: c06Quote(in), Base: base.String(), Status: resp.Code, Where: "Location", Output: c06Quote(l), Resolved: u.String(),
				Flags: p.Flags, Requests: c06ReqStrings([]*vfReq{req})})
	}
	return ok
}

// finishLogin plays the browser and the IdP after a login start and judges where the callback sends the browser.
func (cx *c06Ctx) finishLogin(a *c06Acc, ch, in string, base c06Base, p *vfProxy, host string, startReq *vfReq, startResp *vfResp, hdr ...string) {
	if !cx.checkStart(a, ch, in, base, p, startReq, startResp) {
		a.eval("")
		return
	}
	code, ar, err := c06Authorize(p, startResp.Location())
	if err != nil {
		a.count("idp_authorize_errors", 1)
		a.eval("")
		return
	}
	cb := vfGET(p.Opts.ProxyPrefix+"/callback?code="+vfQueryEscape(code)+"&state="+vfQueryEscape(ar.Params.Get("state")), hdr...).WithHost(host)
	cb.H("Cookie", c06CSRFCookies(startResp))
	resp := p.Do(cb)
	a.count(fmt.Sprintf("callback_status_%d", resp.Code), 1)
	if resp.Code == 302 {
		a.count("logins_completed", 1)
	} else {
		a.count(fmt.Sprintf("callback_not_302_%s_%d", ch, resp.Code), 1)
		if len(a.Samples) < 6 {
			a.Samples = append(a.Samples, c06Case{Channel: ch, WL: cx.WL.Kind, Input: c06Quote(in), Status: resp.Code, Note: "callback did not complete the login: " + vfTrunc(vfErrText(resp.Body), 200), Requests: c06ReqStrings([]*vfReq{startReq, cb})})
		}
	}
	cx.judge(a, ch, in, base, p, resp, startReq, cb)
}

type c06Started struct {
	Cookie, LoginURL, Nonce string
}

// startLogin: a login started for "/", whose nonce and CSRF cookie are reused while the redirect part of the state is edited.
func (cx *c06Ctx) startLogin(p *vfProxy, host string, encoded bool) (*c06Started, error) {
	resp := p.Do(vfGET(p.Opts.ProxyPrefix + "/start?rd=%2F").WithHost(host))
	if !c06IsStart(resp) {
		return nil, fmt.Errorf("start: status %d", resp.Code)
	}
	u, err := url.Parse(resp.Location())
	if err != nil {
		return nil, err
	}
	state := u.Query().Get("state")
	if encoded {
		b, err := base64.RawURLEncoding.DecodeString(state)
		if err != nil {
			return nil, fmt.Errorf("state %q is not base64url: %v", state, err)
		}
		state = string(b)
	}
	k := strings.IndexByte(state, ':')
	if k <= 0 {
		return nil, fmt.Errorf("state %q has no nonce part", state)
	}
	return &c06Started{Cookie: c06CSRFCookies(resp), LoginURL: resp.Location(), Nonce: state[:k]}, nil
}

type c06State struct {
	sA, sB  *c06Started
	hashKey string // configuration-host targets: the template, so that hash-chosen variants do not depend on a random port
}

// key: what hash-chosen variants of a channel (front host of the X-Forwarded channels, plain/base64 failed callback) go by.
func (st *c06State) key(in string) string {
	if st != nil && st.hashKey != "" {
		return st.hashKey
	}
	return in
}

func (cx *c06Ctx) editedCallback(a *c06Acc, ch, in string, p *vfProxy, host string, st **c06Started, encoded bool) {
	if *st == nil {
		s, err := cx.startLogin(p, host, encoded)
		if err != nil {
			a.count("rig_start_login_failed", 1)
			a.eval("")
			return
		}
		*st = s
	}
	code, _, err := c06Authorize(p, (*st).LoginURL)
	if err != nil {
		a.count("idp_authorize_errors", 1)
		a.eval("")
		return
	}
	state := (*st).Nonce + ":" + in
	if encoded {
		state = base64.RawURLEncoding.EncodeToString([]byte(state))
	}
	cb := vfGET(p.Opts.ProxyPrefix+"/callback?code="+vfQueryEscape(code)+"&state="+vfQueryEscape(state), "Cookie", (*st).Cookie).WithHost(host)
	resp := p.Do(cb)
	a.count(fmt.Sprintf("callback_status_%d", resp.Code), 1)
	if resp.Code == 302 {
		a.count("logins_completed", 1)
	} else {
		a.count(fmt.Sprintf("callback_not_302_%s_%d", ch, resp.Code), 1)
		*st = nil
	}
	cx.judge(a, ch, in, cx.BaseA, p, resp, cb)
}

// ---------------------------------------------------------------------------------------------------------
// the channels

var c06CheapChannels = []string{"so-rd", "so-xarr", "form-rd", "form-fail", "page-signin", "page-error", "page-403", "xf-so", "xf-so-rd",
	"cbfail-error", "cbfail-error-b64", "cbfail-nocookie", "cbfail-nocookie-b64", "cbfail-badcookie", "cbfail-badcookie-b64"}
var c06LoginChannels = []string{"start-rd", "start-xarr", "start-rd-b64", "xf-start", "cb-state", "cb-state-b64", "path-login", "signin-skip",
	"cbfail-redeem", "cbfail-redeem-b64", "cbfail-nonce", "cbfail-nonce-b64"}

// The cbfail-* channels are the FAILED callbacks: /oauth2/callback carrying a state "<nonce>:<string>" (plain on A, base64 on
// B) that ends in the proxy's own error page — provider error, no CSRF cookie, undecodable CSRF cookie, valid cookie with a
// code the provider rejects, valid cookie and code with a state nonce that does not match. A string goes through the plain
// or the base64 variant of each mode, alternating with the whitelist configuration. On these pages nothing of the state may
// show up as a link target: the state's redirect is only validated on the success path.
func c06IsCBFail(ch string) bool { return strings.HasPrefix(ch, "cbfail-") }

func (cx *c06Ctx) cbFail(a *c06Acc, ch, in string, st *c06State) (bool, bool) {
	encoded := strings.HasSuffix(ch, "-b64")
	if ((c06Hash(st.key(in))>>9)+uint64(cx.Idx))&1 == 1 != encoded {
		return false, false
	}
	p, started := cx.A, &st.sA
	if encoded {
		p, started = cx.B, &st.sB
	}
	mode := strings.TrimSuffix(strings.TrimPrefix(ch, "cbfail-"), "-b64")
	nonce, code, cookie := "Zm9yZ2VkLW5vbmNl", "bogus-code", ""
	if mode == "redeem" || mode == "nonce" {
		if *started == nil {
			s, err := cx.startLogin(p, c06HostA, encoded)
			if err != nil {
				a.count("rig_start_login_failed", 1)
				return false, false
			}
			*started = s
		}
		cookie = (*started).Cookie
		if mode == "redeem" {
			nonce = (*started).Nonce
		} else {
			c, _, err := c06Authorize(p, (*started).LoginURL)
			if err != nil {
				a.count("idp_authorize_errors", 1)
				return false, false
			}
			code = c
		}
	}
	state := nonce + ":" + in
	if encoded {
		state = base64.RawURLEncoding.EncodeToString([]byte(state))
	}
	target := p.Opts.ProxyPrefix + "/callback?code=" + vfQueryEscape(code) + "&state=" + vfQueryEscape(state)
	switch mode {
	case "error":
		target = p.Opts.ProxyPrefix + "/callback?error=access_denied&state=" + vfQueryEscape(state)
	case "badcookie":
		cookie = "_oauth2_proxy_csrf=bm90LWEtY29va2ll|1700000000|c2lnbmF0dXJl"
	}
	req := vfGET(target).WithHost(c06HostA)
	if cookie != "" {
		req.H("Cookie", cookie)
	}
	resp := p.Do(req)
	a.count(fmt.Sprintf("status_%s_%d", ch, resp.Code), 1)
	if resp.Code == 302 && resp.Location() != "" && !c06IsStart(resp) {
		a.count("cbfail_unexpected_success_"+ch, 1) // the failure mode did not fail: judged all the same
	}
	return cx.judge(a, ch, in, cx.BaseA, p, resp, req), true
}

func c06ValidTarget(s string) bool {
	if s == "" || s[0] != '/' {
		return false
	}
	for i := 0; i < len(s); i++ {
		if s[i] <= 0x20 || s[i] == 0x7f {
			return false
		}
	}
	return true
}

// with rd delivered next to X-Forwarded-* headers, the forwarded URI is what the proxy falls back to (not "/")
const c06XFFallback = "/app/page?x=1"

// c06HeaderDeliverable: a header value cannot carry CR, LF, NUL or other control characters (they would re-frame the request)
func c06HeaderDeliverable(s string) bool {
	for i := 0; i < len(s); i++ {
		if (s[i] < 0x20 && s[i] != '\t') || s[i] == 0x7f {
			return false
		}
	}
	return true
}

func c06XFHost(in string) string {
	if c06Hash(in)&1 == 0 {
		return "good.test"
	}
	return "front.test"
}

// drive delivers `in` through channel ch and judges the outcome. It returns (kept, delivered). A configuration-host
// template (c06_confighosts.go) is first made concrete for the instance the channel addresses.
func (cx *c06Ctx) drive(a *c06Acc, ch, in string, st *c06State) (bool, bool) {
	if c06IsCfgTemplate(in) {
		return cx.driveCfg(a, ch, in, st)
	}
	return cx.drive1(a, ch, in, st)
}

func (cx *c06Ctx) drive1(a *c06Acc, ch, in string, st *c06State) (bool, bool) {
	esc := vfQueryEscape(in)
	form := func(pass string) *vfReq {
		return vfNewReq("POST", "/oauth2/sign_in").WithBody("application/x-www-form-urlencoded", []byte("username="+c06User+"&password="+pass+"&rd="+esc))
	}
	simple := func(p *vfProxy, base c06Base, req *vfReq) (bool, bool) {
		resp := p.Do(req)
		if resp.Invalid != "" {
			a.count("undeliverable_"+ch, 1)
			return false, false
		}
		a.count(fmt.Sprintf("status_%s_%d", ch, resp.Code), 1)
		if c06IsStart(resp) { // some inputs turn a page request into a login start: then the start clause applies
			cx.finishLogin(a, ch, in, base, p, req.Host, req, resp)
			return false, true
		}
		return cx.judge(a, ch, in, base, p, resp, req), true
	}
	login := func(p *vfProxy, base c06Base, req *vfReq, hdr ...string) (bool, bool) {
		resp := p.Do(req)
		if resp.Invalid != "" {
			a.count("undeliverable_"+ch, 1)
			return false, false
		}
		a.count(fmt.Sprintf("status_%s_%d", ch, resp.Code), 1)
		if !c06IsStart(resp) {
			// not a login start (a 301 of the router, a page, ...): judge what came back
			return cx.judge(a, ch, in, base, p, resp, req), true
		}
		cx.finishLogin(a, ch, in, base, p, req.Host, req, resp, hdr...)
		return false, true
	}
	if c06IsCBFail(ch) {
		return cx.cbFail(a, ch, in, st)
	}
	switch ch {
	case "so-xarr", "start-xarr", "xf-so", "xf-start":
		if !c06HeaderDeliverable(in) {
			a.count("undeliverable_"+ch, 1)
			return false, false
		}
	}
	switch ch {
	case "so-rd":
		return simple(cx.H, cx.BaseA, vfGET("/oauth2/sign_out?rd="+esc))
	case "so-xarr":
		return simple(cx.H, cx.BaseA, vfGET("/oauth2/sign_out", "X-Auth-Request-Redirect", in))
	case "form-rd":
		return simple(cx.H, cx.BaseA, form(c06Pass))
	case "form-fail":
		return simple(cx.H, cx.BaseA, form("wrong"))
	case "page-signin":
		return simple(cx.H, cx.BaseA, vfGET("/oauth2/sign_in?rd="+esc))
	case "page-error":
		return simple(cx.H, cx.BaseA, vfGET("/oauth2/callback?error=access_denied&rd="+esc))
	case "page-403":
		if !c06ValidTarget(in) {
			return false, false
		}
		return simple(cx.H, cx.BaseA, vfGET(in))
	case "xf-so", "xf-so-rd", "xf-start":
		h := c06XFHost(st.key(in))
		base, ok := c06ParseBase("https", h)
		if !ok {
			return false, false
		}
		hdr := []string{"X-Forwarded-Proto", "https", "X-Forwarded-Host", h, "X-Forwarded-Uri", in}
		switch ch {
		case "xf-so":
			return simple(cx.B, base, vfGET("/oauth2/sign_out", hdr...))
		case "xf-so-rd":
			hdr[5] = c06XFFallback
			return simple(cx.B, base, vfGET("/oauth2/sign_out?rd="+esc, hdr...))
		default:
			return login(cx.B, base, vfGET("/oauth2/start", hdr...), hdr...)
		}
	case "start-rd":
		return login(cx.A, cx.BaseA, vfGET("/oauth2/start?rd="+esc))
	case "start-xarr":
		return login(cx.A, cx.BaseA, vfGET("/oauth2/start", "X-Auth-Request-Redirect", in))
	case "start-rd-b64":
		return login(cx.B, cx.BaseA, vfGET("/oauth2/start?rd="+esc))
	case "cb-state":
		cx.editedCallback(a, ch, in, cx.A, c06HostA, &st.sA, false)
		return false, true
	case "cb-state-b64":
		cx.editedCallback(a, ch, in, cx.B, c06HostA, &st.sB, true)
		return false, true
	case "path-login":
		if !c06ValidTarget(in) {
			return false, false
		}
		return login(cx.C, cx.BaseC, vfGET(in).WithHost(c06HostC))
	case "signin-skip":
		return login(cx.C, cx.BaseC, vfGET("/oauth2/sign_in?rd="+esc).WithHost(c06HostC))
	}
	panic("unknown channel " + ch)
}
