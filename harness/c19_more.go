//go:build verif

package main

// C19, further phases:
//   4. sessions of unusual identities (no '@' in the e-mail, several '@', empty local part or domain, htpasswd and
//      basic-auth users without any e-mail, bearer tokens without e-mail) x the authorization query parameters of the
//      auth-only endpoint and the other endpoints that look at the identity;
//   5. clients that give up (request context cancelled) before or while the proxy talks to a slow identity provider, at every
//      endpoint that calls out: callback (redeem), stale session (refresh), sign-out (backend logout), bearer, sign-in form;
//   6. the configuration space: every value of per-option pools (unusual spellings, boundary values) once on top of the base
//      configuration plus seeded random combinations; every configuration that PASSES validation must serve a smoke set of
//      requests (pages, start, callback, complete login, authenticated request, sign-out) without a panic.

import (
	"encoding/base64"
	"fmt"
	"math/rand"
	"strings"
	"sync"
	"sync/atomic"
	"testing"
	"time"
)

func c19Observe(run *vfRun, p *vfProxy, cfgName, phase string) {
	p.OnResp = func(req *vfReq, resp *vfResp) {
		if resp.Invalid != "" {
			return
		}
		class := fmt.Sprintf("%dxx", resp.Code/100)
		run.Eval(fmt.Sprintf("%s|%s|%s", cfgName, phase, class))
		run.Count("requests_served", 1)
		run.Count(phase+"_requests", 1)
		if resp.Panic != "" {
			site := c19PanicSite(resp.Stack)
			run.Violation("c19:panic", fmt.Sprintf("panic %q at %s (%s, %s)", vfTrunc(resp.Panic, 120), site, cfgName, phase),
				map[string]interface{}{"flags": p.Flags, "alpha": p.Alpha, "request": req, "panic": resp.Panic, "stack": vfTrunc(resp.Stack, 6000)})
		}
	}
}

var c19AuthQ = []string{"", "allowed_groups=g1", "allowed_groups=,,", "allowed_groups=", "allowed_emails=a@b", "allowed_emails=", "allowed_emails=noat", "allowed_emails=,", "allowed_emails=a@b,noat,@",
	"allowed_email_domains=example.com", "allowed_email_domains=example.com,*.x", "allowed_email_domains=", "allowed_email_domains=*", "allowed_email_domains=.", "allowed_email_domains=,", "allowed_email_domains=@",
	"allowed_email_domains=%zz", "allowed_email_domains=:", "allowed_email_domains=[::1]", "allowed_email_domains=.example.com&allowed_emails=x&allowed_groups=y", "allowed_email_domains=example.com&allowed_email_domains=b.test",
	"allowed_email_domains=" + strings.Repeat("a,", 2000)}

func c19OddIdentities(run *vfRun, w *vfWorld, idp2 *vfIdP, htp string) {
	emails := []string{"noat", "a@", "@b.test", "a@b@c.test", "@", "@@", "\"quoted@local\"@example.com", "UPPER@EXAMPLE.COM", "x@" + strings.Repeat("d", 300) + ".test", "é@exämple.com", " lead@example.com", "trail@example.com ", "a@b.test,c@d.test", "a b@example.com", "a@b.test\u0000", "a@.", ".@a", "a@b..c"}
	bearer := []string{"--skip-jwt-bearer-tokens=true", "--extra-jwt-issuers=" + idp2.Issuer + "=aud2", "--htpasswd-file=" + htp, "--display-htpasswd-form=true"}
	cfgs := []c19Cfg{
		{Name: "odd-id/base", Flags: bearer},
		{Name: "odd-id/legacy-headers", Flags: append([]string{"--pass-access-token=true", "--set-xauthrequest=true", "--set-basic-auth=true", "--pass-basic-auth=true", "--basic-auth-password=pw", "--prefer-email-to-user=true", "--pass-user-headers=true"}, bearer...)},
		{Name: "odd-id/redis+domains", Flags: append([]string{"--session-store-type=redis", "--redis-connection-url=" + w.RedisURL(), "--email-domain=example.com", "--email-domain=.b.test", "--email-domain=c.test"}, bearer...)},
		{Name: "odd-id/alpha-all-claims", Alpha: c19HeaderYAML(), Flags: bearer},
	}
	paths := []string{"/oauth2/auth", "/oauth2/userinfo", "/x", "/oauth2/sign_in", "/oauth2/start"}
	for _, cfg := range cfgs {
		var p *vfProxy
		var err error
		if cfg.Alpha != "" {
			p, err = w.NewProxyRaw(w.AlphaYAML("", cfg.Alpha), append(w.AlphaBaseFlags(), cfg.Flags...))
		} else {
			p, err = w.NewProxy(cfg.Flags...)
		}
		if err != nil {
			c19Fatal(run, "config %s: %v", cfg.Name, err)
		}
		c19Observe(run, p, cfg.Name, "odd-identity")
		var creds [][2]string // header name, value
		for k, e := range emails {
			b := vfNewBrowser("")
			id := vfIdentity{Sub: fmt.Sprintf("odd-%d", k), Email: e, Groups: []string{"g1"}}
			if k%3 == 0 {
				id.PreferredUsername = e
			}
			if _, _, err := b.Login(p, id, "/"); err != nil {
				run.Count("odd_identity_logins_refused", 1)
				continue
			}
			run.Count("odd_identity_logins_accepted", 1)
			creds = append(creds, [2]string{"Cookie", vfCookieHeader(b.Jar.For("proxy.test", "/", false))})
		}
		// a user of the htpasswd file: form sign-in (session without any e-mail) and per-request basic auth
		fb := vfNewBrowser("")
		if resp := fb.Send(p, vfNewReq("POST", "/oauth2/sign_in").WithBody("application/x-www-form-urlencoded", []byte("username=hu&password=hp&rd=/"))); resp.Code == 302 {
			if cs := fb.Jar.For("proxy.test", "/", false); len(cs) > 0 {
				creds = append(creds, [2]string{"Cookie", vfCookieHeader(cs)})
				run.Count("htpasswd_form_sessions", 1)
			}
		}
		creds = append(creds, [2]string{"Authorization", "Basic " + base64.StdEncoding.EncodeToString([]byte("hu:hp"))})
		mk := func(iss string, aud interface{}, extra map[string]interface{}) string {
			cl := map[string]interface{}{"iss": iss, "aud": aud, "sub": "bearer-sub", "exp": time.Now().Add(time.Hour).Unix(), "iat": time.Now().Unix()}
			for k, v := range extra {
				cl[k] = v
			}
			return vfMint(cl, vfMintOpts{})
		}
		for _, e := range []interface{}{nil, "noat", "a@", "@b", "", "a@b@c"} {
			ex := map[string]interface{}{}
			if e != nil {
				ex["email"] = e
			}
			creds = append(creds, [2]string{"Authorization", "Bearer " + mk(w.IdP.Issuer, "cid", ex)}, [2]string{"Authorization", "Bearer " + mk(idp2.Issuer, "aud2", ex)})
		}
		type job struct {
			cred [2]string
			path string
			q    string
		}
		var jobs []job
		for _, cr := range creds {
			for _, pth := range paths {
				for _, q := range c19AuthQ {
					if pth != "/oauth2/auth" && q != "" && q != c19AuthQ[9] {
						continue
					}
					jobs = append(jobs, job{cr, pth, q})
				}
			}
		}
		vfParallel(len(jobs), 6, func(i int) {
			j := jobs[i]
			t := j.path
			if j.q != "" {
				t += "?" + j.q
			}
			for _, m := range []string{"GET", "POST"} {
				p.Do(vfNewReq(m, t).H(j.cred[0], j.cred[1]))
			}
		})
		run.Count("odd_identity_credentials", int64(len(creds)))
	}
}

func c19ClientGivesUp(run *vfRun, t *testing.T, htp string) {
	w := vfNewWorld(t)
	defer w.Close()
	var stall int64
	var mu sync.Mutex
	w.IdP.Set(func(c *vfIdPCfg) {
		c.Hook = func(ev *vfIdPEvent) *vfIdPReply {
			mu.Lock()
			d := time.Duration(stall)
			mu.Unlock()
			if d > 0 && ev.Kind != "discovery" {
				time.Sleep(d)
			}
			return nil
		}
	})
	common := []string{"--backend-logout-url=" + w.IdP.Issuer + "/logout?id_token_hint={id_token}", "--cookie-refresh=1s", "--cookie-expire=1h", "--skip-jwt-bearer-tokens=true", "--htpasswd-file=" + htp, "--display-htpasswd-form=true"}
	cfgs := []c19Cfg{
		{Name: "give-up/cookie", Flags: common},
		{Name: "give-up/redis", Flags: append([]string{"--session-store-type=redis", "--redis-connection-url=" + w.RedisURL()}, common...)},
		{Name: "give-up/legacy-validate-url", Flags: []string{"--provider=keycloak", "--login-url=" + w.IdP.Issuer + "/authorize", "--redeem-url=" + w.IdP.Issuer + "/token", "--validate-url=" + w.IdP.Issuer + "/userinfo",
			"--profile-url=" + w.IdP.Issuer + "/userinfo", "--scope=openid email", "--cookie-refresh=1s", "--cookie-expire=1h", "--backend-logout-url=" + w.IdP.Issuer + "/logout"}},
	}
	giveUps := []time.Duration{1, 25 * time.Millisecond, 70 * time.Millisecond}
	type inst struct {
		cfg    c19Cfg
		p      *vfProxy
		sess   []string
		logins []*vfLogin
		csrf   []string
	}
	var insts []*inst
	for _, cfg := range cfgs {
		p, err := w.NewProxy(cfg.Flags...)
		if err != nil {
			c19Fatal(run, "config %s: %v", cfg.Name, err)
		}
		c19Observe(run, p, cfg.Name, "client-gives-up")
		in := &inst{cfg: cfg, p: p}
		for k := 0; k < 8; k++ {
			b := vfNewBrowser("")
			if _, _, err := b.Login(p, vfIdentity{Sub: fmt.Sprintf("gu-%d", k), Email: fmt.Sprintf("gu%d@example.com", k), Groups: []string{"g1"}}, "/"); err != nil {
				c19Fatal(run, "config %s: login: %v", cfg.Name, err)
			}
			in.sess = append(in.sess, vfCookieHeader(b.Jar.For("proxy.test", "/", false)))
		}
		for k := 0; k < 3*len(giveUps); k++ {
			b := vfNewBrowser("")
			l, err := b.StartLogin(p, vfStdIdentity, "/after")
			if err != nil {
				c19Fatal(run, "config %s: start: %v", cfg.Name, err)
			}
			in.logins = append(in.logins, l)
			in.csrf = append(in.csrf, vfCookieHeader(b.Jar.For("proxy.test", "/oauth2/callback", false)))
		}
		insts = append(insts, in)
	}
	time.Sleep(1100 * time.Millisecond) // the sessions are now older than the refresh period
	mu.Lock()
	stall = int64(120 * time.Millisecond)
	mu.Unlock()
	bearerTok := vfMint(map[string]interface{}{"iss": w.IdP.Issuer, "aud": "cid", "sub": "b", "email": "b@example.com", "exp": time.Now().Add(time.Hour).Unix(), "iat": time.Now().Unix()}, vfMintOpts{})
	var jobs []func()
	for _, in := range insts {
		in := in
		for gi, g := range giveUps {
			g := g
			s := in.sess[gi%len(in.sess)]
			add := func(r *vfReq) {
				r.GiveUpAfter = g
				jobs = append(jobs, func() { in.p.Do(r) })
			}
			add(vfGET("/x").H("Cookie", s))                  // refresh / re-validation of a stale session
			add(vfGET("/oauth2/auth").H("Cookie", s))        // the same on the auth-only endpoint
			add(vfGET("/oauth2/userinfo").H("Cookie", s))    //
			add(vfGET("/oauth2/sign_out").H("Cookie", in.sess[(gi+3)%len(in.sess)])) // backend logout
			add(vfNewReq("POST", "/oauth2/sign_out?rd=/x").H("Cookie", in.sess[(gi+5)%len(in.sess)]))
			for k := 0; k < 3; k++ {
				l := in.logins[gi*3+k]
				tgt := l.CallbackTarget(in.p)
				if k == 2 {
					tgt += "&error=access_denied"
				}
				add(vfGET(tgt).H("Cookie", in.csrf[gi*3+k])) // code exchange
			}
			add(vfGET("/x").H("Authorization", "Bearer "+bearerTok))
			add(vfNewReq("POST", "/oauth2/sign_in").WithBody("application/x-www-form-urlencoded", []byte("username=hu&password=hp")))
			add(vfGET("/oauth2/start?rd=/x"))
			add(vfGET("/oauth2/sign_in"))
		}
	}
	vfParallel(len(jobs), 12, func(i int) { jobs[i]() })
	mu.Lock()
	stall = 0
	mu.Unlock()
	// afterwards every instance still serves
	for _, in := range insts {
		in.p.Do(vfGET("/oauth2/sign_in"))
	}
}

type c19Opt struct {
	Name string
	Vals []string
}

func c19OptionPools(w *vfWorld, htp string) []c19Opt {
	up := w.Up.URL()
	return []c19Opt{
		{"--cookie-samesite", []string{"", "lax", "strict", "none", "Lax", "LAX", "Strict", "None", " lax", "lax ", "default", "0"}},
		{"--cookie-path", []string{"/", "", "/app", "/app/", "app", "/a b", "/é", "/;x", strings.Repeat("/p", 600)}},
		{"--cookie-domain", []string{"", "proxy.test", ".proxy.test", "test", "PROXY.TEST", "proxy.test:8443", "[::1]", "127.0.0.1", "a..b", "*", " ", "-"}},
		{"--cookie-name", []string{"_oauth2_proxy", "s", "__Host-s", "__Secure-s", "a.b", "a_b-c", strings.Repeat("n", 200), strings.Repeat("n", 256), "has space", "semi;colon", "eq=ual", "é", ""}},
		{"--cookie-expire", []string{"168h", "0", "1s", "1ns", "-1h", "87600h"}},
		{"--cookie-refresh", []string{"0", "1h", "1ns", "-1m", "167h59m"}},
		{"--cookie-csrf-expire", []string{"15m", "0", "1ns", "-5m"}},
		{"--cookie-csrf-per-request", []string{"true", "false"}},
		{"--cookie-httponly", []string{"true", "false"}},
		{"--cookie-secure", []string{"true", "false"}},
		{"--session-cookie-minimal", []string{"true", "false"}},
		{"--proxy-prefix", []string{"/oauth2", "/", "", "oauth2", "/oauth2/", "/a/b/c", "/o auth", "/%2F", "//x", "/é"}},
		{"--ping-path", []string{"/ping", "", "/", "/oauth2/auth", "ping", "/x"}},
		{"--ready-path", []string{"/ready", "", "/ping", "/"}},
		{"--ping-user-agent", []string{"", "pinger", " "}},
		{"--whitelist-domain", []string{"", ".good.test", "good.test:*", "*.good.test", ":", "[::1]:80", "*", ".", "good.test:0", "good.test:99999", " "}},
		{"--trusted-ip", []string{"", "10.0.0.0/8", "::1", "0.0.0.0/0", "::/0", "::ffff:10.0.0.0/104", "127.0.0.1/32"}},
		{"--skip-auth-route", []string{"", "GET=^/public", "!=^/priv", "=", "GET=", "=^/$", "get!=x", "^(a|b)*$", "POST=^/\\p{L}+$", "(?i)^/x"}},
		{"--skip-auth-regex", []string{"", "^/legacy", ".*", "a{1000}"}},
		{"--api-route", []string{"", "^/api", ".*", "(?i)x"}},
		{"--skip-auth-preflight", []string{"true", "false"}},
		{"--skip-provider-button", []string{"true", "false"}},
		{"--force-json-errors", []string{"true", "false"}},
		{"--reverse-proxy", []string{"true", "false"}},
		{"--real-client-ip-header", []string{"X-Real-IP", "X-Forwarded-For", "x-real-ip", "X-ProxyUser-IP", "CF-Connecting-IP"}},
		{"--redirect-url", []string{"", "http://proxy.test/oauth2/callback", "https://proxy.test/oauth2/callback", "/oauth2/callback", "http://proxy.test", "proxy.test/cb", "http://proxy.test:99999/x", "http://[::1]/cb", "HTTP://PROXY.TEST/CB", "http://proxy.test/oauth2/callback?x=1#f"}},
		{"--email-domain", []string{"*", "example.com", ".example.com", "EXAMPLE.COM", "", "@example.com", "*.example.com"}},
		{"--allowed-group", []string{"", "g1", " ", "g1,g2"}},
		{"--code-challenge-method", []string{"", "S256", "plain"}},
		{"--encode-state", []string{"true", "false"}},
		{"--banner", []string{"", "-", "<b>x</b>", "{{.Nope}}"}},
		{"--footer", []string{"", "-", "<i>f</i>"}},
		{"--custom-sign-in-logo", []string{"", "-", "http://x.test/l.png"}},
		{"--provider-display-name", []string{"", "<x>", strings.Repeat("n", 3000)}},
		{"--upstream", []string{up + "/", "static://200", "static://999", "static://abc", "file://" + w.Dir + "#/files/", up + "/app/", up, up + "/#frag", up + "/?q=1", "http://[::1]:1/", "unix:///nonexistent.sock"}},
		{"--pass-host-header", []string{"true", "false"}},
		{"--proxy-websockets", []string{"true", "false"}},
		{"--flush-interval", []string{"1s", "0", "-1s"}},
		{"--upstream-timeout", []string{"30s", "0", "1ns"}},
		{"--pass-access-token", []string{"true", "false"}},
		{"--pass-authorization-header", []string{"true", "false"}},
		{"--set-xauthrequest", []string{"true", "false"}},
		{"--set-authorization-header", []string{"true", "false"}},
		{"--set-basic-auth", []string{"true", "false"}},
		{"--pass-basic-auth", []string{"true", "false"}},
		{"--pass-user-headers", []string{"true", "false"}},
		{"--prefer-email-to-user", []string{"true", "false"}},
		{"--basic-auth-password", []string{"", "pw", strings.Repeat("p", 3000)}},
		{"--skip-auth-strip-headers", []string{"true", "false"}},
		{"--htpasswd-file", []string{"", htp}},
		{"--display-htpasswd-form", []string{"true", "false"}},
		{"--htpasswd-user-group", []string{"", "hg"}},
		{"--session-store-type", []string{"cookie", "redis", "COOKIE", "Redis"}},
		{"--signature-key", []string{"", "sha1:k", "sha256:k", "md5:k", "nokey", ":"}},
		{"--gcp-healthchecks", []string{"true", "false"}},
		{"--ssl-insecure-skip-verify", []string{"true", "false"}},
		{"--insecure-oidc-allow-unverified-email", []string{"true", "false"}},
		{"--oidc-email-claim", []string{"email", "sub", "nope", ""}},
		{"--oidc-groups-claim", []string{"groups", "email", "nope", ""}},
		{"--user-id-claim", []string{"email", "sub", "nope"}},
		{"--oidc-audience-claim", []string{"aud", "azp", "nope"}},
		{"--scope", []string{"", "openid email", "openid", " "}},
		{"--prompt", []string{"", "login", "x y"}},
		{"--backend-logout-url", []string{"", w.IdP.Issuer + "/logout?h={id_token}", "http://[::1", "relative", "%zz"}},
		{"--allow-query-semicolons", []string{"true", "false"}},
		{"--relative-redirect-url", []string{"true", "false"}},
		{"--errors-to-info-log", []string{"true", "false"}},
	}
}

// c19ConfigSpace: every pool value once on top of the base configuration, then seeded random combinations.
func c19ConfigSpace(run *vfRun, w *vfWorld, htp string) {
	pools := c19OptionPools(w, htp)
	var sets [][]string
	for _, o := range pools {
		for _, v := range o.Vals {
			sets = append(sets, []string{o.Name + "=" + v})
		}
	}
	rng := rand.New(rand.NewSource(run.Env.Seed*31 + 5))
	for k := 0; k < run.Env.Pick(120, 1500); k++ {
		n := 2 + rng.Intn(6)
		var fl []string
		for m := 0; m < n; m++ {
			o := pools[rng.Intn(len(pools))]
			fl = append(fl, o.Name+"="+o.Vals[rng.Intn(len(o.Vals))])
		}
		sets = append(sets, fl)
	}
	vfParallel(len(sets), 8, func(si int) {
		fl := sets[si]
		flags := append([]string{}, fl...)
		for _, f := range fl {
			if strings.EqualFold(f, "--session-store-type=redis") {
				flags = append(flags, "--redis-connection-url="+w.RedisURL())
			}
		}
		var p *vfProxy
		var err error
		func() {
			defer func() {
				if x := recover(); x != nil {
					err = fmt.Errorf("construction panicked: %v", x)
					run.Count("configurations_whose_construction_panicked", 1)
				}
			}()
			p, err = w.NewProxy(flags...)
		}()
		label := "combination"
		if len(fl) == 1 {
			label = fl[0][:strings.Index(fl[0], "=")]
		}
		if err != nil {
			run.Count("configurations_rejected_by_validation", 1)
			run.Eval(fmt.Sprintf("config-space|%s|rejected", label))
			return
		}
		run.Count("configurations_accepted", 1)
		name := fmt.Sprintf("config-space/%d %v", si, fl)
		if len(name) > 160 {
			name = name[:160]
		}
		p.OnResp = func(req *vfReq, resp *vfResp) {
			if resp.Invalid != "" {
				return
			}
			run.Eval(fmt.Sprintf("config-space|%s|%dxx", label, resp.Code/100))
			run.Count("requests_served", 1)
			run.Count("config_space_requests", 1)
			if resp.Panic != "" {
				run.Violation("c19:panic", fmt.Sprintf("panic %q at %s under a configuration that passed validation: %v", vfTrunc(resp.Panic, 120), c19PanicSite(resp.Stack), fl),
					map[string]interface{}{"flags": p.Flags, "request": req, "panic": resp.Panic, "stack": vfTrunc(resp.Stack, 6000)})
			}
		}
		pre := p.Opts.ProxyPrefix
		for _, t := range []string{"/", "/x?y=1", pre + "/sign_in", pre + "/start?rd=/x", pre + "/sign_out", pre + "/sign_out?rd=https://good.test/", pre + "/auth", pre + "/userinfo", pre + "/callback?code=x&state=y", pre + "/callback?error=e",
			pre + "/static/css/bulma.min.css", "/ping", "/ready", "/robots.txt", "/public", "/api/x", "/files/a.txt"} {
			p.Do(vfGET(t))
			p.Do(vfGET(t).H("Accept", "application/json").WithHost("sub.proxy.test:8443").H("X-Forwarded-Host", "good.test").H("X-Forwarded-Proto", "https").H("X-Real-IP", "10.1.2.3").H("X-Forwarded-For", "10.1.2.3"))
		}
		p.Do(vfNewReq("OPTIONS", "/x"))
		p.Do(vfNewReq("POST", pre+"/sign_in").WithBody("application/x-www-form-urlencoded", []byte("username=hu&password=hp&rd=/")))
		p.Do(vfGET("/x").H("Authorization", "Basic "+base64.StdEncoding.EncodeToString([]byte("hu:hp"))))
		for _, https := range []bool{false, true} {
			b := vfNewBrowser("")
			b.HTTPS = https
			if https {
				b.Extra = append(b.Extra, [2]string{"X-Forwarded-Proto", "https"})
			}
			if _, _, err := b.Login(p, vfStdIdentity, "/after"); err == nil {
				run.Count("config_space_logins_completed", 1)
			}
			b.Get(p, "/x")
			b.Send(p, vfGET("/x").H("Connection", "keep-alive, Upgrade").H("Upgrade", "websocket"))
			b.Get(p, pre+"/auth")
			b.Get(p, pre+"/userinfo")
			b.Get(p, pre+"/sign_out")
			b.Get(p, "/x")
		}
	})
}

// c19HostileFraming (round 6): the identity provider answers with HTTP messages whose FRAMING is hostile — absurd, overflowing,
// negative, duplicate Content-Length values, chunk sizes near 2^64, no framing at all, thousands of header fields, a gzip
// label on garbage — on every call of a login (code redemption, profile / user-info, validation) and of a refresh, for the OIDC
// provider and a generic OAuth2 provider (whose calls go through pkg/requests). A length a remote party announces must never
// reach an allocation or an index unchecked. Declared sizes are either tiny or beyond the allocator's limit (>= 2^50), so that
// code which did trust them would panic rather than eat the machine's memory.
func c19HostileFraming(run *vfRun, t *testing.T) {
	w := vfNewWorld(t)
	defer w.Close()
	body := `{"access_token":"at","token_type":"Bearer","expires_in":3600,"email":"f@example.com","sub":"f","active":true}`
	hdr := func(lines ...string) []byte {
		return []byte("HTTP/1.1 200 OK\r\nContent-Type: application/json\r\n" + strings.Join(lines, "\r\n") + "\r\n\r\n" + body)
	}
	var many strings.Builder
	for i := 0; i < 3000; i++ {
		fmt.Fprintf(&many, "X-Pad-%d: %d\r\n", i, i)
	}
	framings := []struct {
		name string
		raw  []byte
	}{
		{"content-length=2^50", hdr("Content-Length: 1125899906842624")},
		{"content-length=2^62", hdr("Content-Length: 4611686018427387904")},
		{"content-length=2^63-1", hdr("Content-Length: 9223372036854775807")},
		{"content-length=2^64", hdr("Content-Length: 18446744073709551616")},
		{"content-length=-1", hdr("Content-Length: -1")},
		{"content-length=-2^62", hdr("Content-Length: -4611686018427387904")},
		{"content-length=hex", hdr("Content-Length: 0x7fffffffffffffff")},
		{"content-length-twice", hdr("Content-Length: 5", "Content-Length: 4611686018427387904")},
		{"content-length=0-with-body", hdr("Content-Length: 0")},
		{"chunk-size=2^64-1", []byte("HTTP/1.1 200 OK\r\nContent-Type: application/json\r\nTransfer-Encoding: chunked\r\n\r\nffffffffffffffff\r\n" + body)},
		{"chunk-size=2^63-1", []byte("HTTP/1.1 200 OK\r\nContent-Type: application/json\r\nTransfer-Encoding: chunked\r\n\r\n7fffffffffffffff\r\n" + body)},
		{"chunk-size-20-digits", []byte("HTTP/1.1 200 OK\r\nContent-Type: application/json\r\nTransfer-Encoding: chunked\r\n\r\n10000000000000000000\r\n" + body)},
		{"chunked+content-length", []byte("HTTP/1.1 200 OK\r\nContent-Type: application/json\r\nTransfer-Encoding: chunked\r\nContent-Length: 4611686018427387904\r\n\r\n3\r\n{}\n\r\n0\r\n\r\n")},
		{"no-framing-until-close", []byte("HTTP/1.0 200 OK\r\nContent-Type: application/json\r\n\r\n" + body)},
		{"status-line-only", []byte("HTTP/1.1 200 OK\r\n\r\n")},
		{"bad-status-line", []byte("HTTP/1.1 200\r\n\r\n" + body)},
		{"3000-header-fields", []byte("HTTP/1.1 200 OK\r\nContent-Type: application/json\r\n" + many.String() + "Content-Length: " + fmt.Sprint(len(body)) + "\r\n\r\n" + body)},
		{"gzip-label-on-garbage", hdr("Content-Encoding: gzip", "Content-Length: "+fmt.Sprint(len(body)))},
		{"1xx-then-close", []byte("HTTP/1.1 100 Continue\r\n\r\n")},
	}
	iss := w.IdP.Issuer
	insts := []struct {
		name  string
		flags []string
		calls []string
	}{
		{"framing/oidc", []string{"--cookie-refresh=1s", "--cookie-expire=1h"}, []string{"token.code", "userinfo", "token.refresh", "jwks"}},
		{"framing/generic-oauth2", []string{"--provider=keycloak", "--login-url=" + iss + "/authorize", "--redeem-url=" + iss + "/token", "--validate-url=" + iss + "/userinfo", "--profile-url=" + iss + "/userinfo",
			"--scope=openid email", "--cookie-refresh=1s", "--cookie-expire=1h"}, []string{"token.code", "userinfo"}},
	}
	var target, current atomic.Value
	target.Store("")
	current.Store([]byte(nil))
	var fired int64
	w.IdP.Set(func(c *vfIdPCfg) {
		c.Hook = func(ev *vfIdPEvent) *vfIdPReply {
			if tk := target.Load().(string); tk != "" && ev.Kind == tk {
				atomic.AddInt64(&fired, 1)
				return &vfIdPReply{Raw: current.Load().([]byte)}
			}
			return nil
		}
	})
	defer w.IdP.Set(func(c *vfIdPCfg) { c.Hook = nil })
	for _, in := range insts {
		p, err := w.NewProxy(in.flags...)
		if err != nil {
			c19Fatal(run, "config %s: %v", in.name, err)
		}
		c19Observe(run, p, in.name, "hostile-framing")
		// sessions for the stale flow (refresh / re-validation): one per framing and call
		type stale struct{ cookie string }
		var pool []stale
		for k := 0; k < len(framings)*2; k++ {
			b := vfNewBrowser("")
			// no preferred_username in the token: the OIDC provider then consults the profile endpoint at login
			if _, _, err := b.Login(p, vfIdentity{Sub: fmt.Sprintf("fr-%d", k), Email: fmt.Sprintf("fr%d@example.com", k)}, "/"); err != nil {
				c19Fatal(run, "config %s: login: %v", in.name, err)
			}
			pool = append(pool, stale{vfCookieHeader(b.Jar.For("proxy.test", "/", false))})
		}
		time.Sleep(1100 * time.Millisecond) // older than the refresh period now
		next := 0
		for _, call := range in.calls {
			for _, fr := range framings {
				current.Store(fr.raw)
				before := atomic.LoadInt64(&fired)
				if call == "token.refresh" || (call == "userinfo" && next < len(pool) && in.name == "framing/generic-oauth2" && next%2 == 1) || call == "jwks" {
					// stale session: refresh grant (OIDC) / re-validation (generic provider); jwks is only re-fetched for an unknown key id — counted when it fires
					if next < len(pool) {
						target.Store(call)
						p.Do(vfGET("/x").H("Cookie", pool[next].cookie))
						next++
					}
				}
				b := vfNewBrowser("")
				l, err := b.StartLogin(p, vfIdentity{Sub: "fr-login", Email: "frl@example.com"}, "/")
				if err == nil {
					target.Store(call)
					b.Get(p, l.CallbackTarget(p))
				}
				target.Store("")
				if atomic.LoadInt64(&fired) > before {
					run.Count("hostile_framing_replies_delivered", atomic.LoadInt64(&fired)-before)
					run.Eval(fmt.Sprintf("%s|%s|%s", in.name, call, fr.name))
				}
			}
		}
		// the instance still works
		b := vfNewBrowser("")
		if _, _, err := b.Login(p, vfStdIdentity, "/"); err != nil {
			run.Violation("c19:instance-unusable-after-hostile-framing", fmt.Sprintf("%s: a clean login after the hostile-framing cases fails: %v", in.name, err), map[string]interface{}{"flags": p.Flags})
		}
	}
}
