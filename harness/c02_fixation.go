//go:build verif

package main

// C02, login-time half of "nothing that the proxy did not itself produce is ever accepted as a session":
// a login (OAuth callback, htpasswd form sign-in) SAVES a session on a request whose session cookie nobody validated.
// With the server-side store the cookie is a ticket (store key + per-session AES key); if the save adopts a ticket
// the client brought along, the client chose where and under which key the new session is stored.
//
// Scenario per planted cookie kind and per login method:
//   the attacker holds a cookie P under the session-cookie name (made-up ticket signed with another secret / unsigned /
//   garbage-signed / without fields / legacy-shaped, her own ticket issued two lifetimes ago, her own ticket with a
//   broken signature, her own still valid ticket — live or signed out);
//   (a) she logs in herself with P in her browser and keeps what she gets; (b) P sits in the victim's browser when the
//   victim logs in; (c) she comes back with everything she holds.
// Oracle:
//   (1) the ticket (id, secret) of a cookie issued at a login is never the one of a cookie the client presented
//       (also not a valid one of the same user: a login always gets a fresh ticket; only a refresh re-uses one);
//   (2) nothing the attacker holds ever decodes to the victim's session (only to her own session, or to nothing);
//   (3) the store key written at a login is never the one named in the cookie the client presented.

import (
	crand "crypto/rand"
	"encoding/base64"
	"encoding/hex"
	"errors"
	"fmt"
	"io"
	"strconv"
	"strings"
	"time"

	"github.com/oauth2-proxy/oauth2-proxy/v7/pkg/clock"
)

type c02Ticket struct {
	ID     string
	Secret string // raw bytes
	OK     bool
}

// c02TicketOf reads the ticket out of a ticket cookie value (public format: base64url("v2.<b64 id>.<b64 secret>")|ts|sig,
// or the legacy "<id>.<b64 secret>"); no key is needed for that.
func c02TicketOf(full string) c02Ticket {
	f := full
	if k := strings.IndexByte(f, '|'); k >= 0 {
		f = f[:k]
	}
	raw, err := base64.URLEncoding.DecodeString(f)
	if err != nil {
		if raw, err = base64.RawURLEncoding.DecodeString(strings.TrimRight(f, "=")); err != nil {
			return c02Ticket{}
		}
	}
	p := strings.Split(string(raw), ".")
	switch {
	case len(p) == 3 && p[0] == "v2":
		id, e1 := base64.RawURLEncoding.DecodeString(p[1])
		sec, e2 := base64.RawURLEncoding.DecodeString(p[2])
		if e1 == nil && e2 == nil {
			return c02Ticket{string(id), string(sec), true}
		}
	case len(p) == 2:
		if sec, err := base64.RawURLEncoding.DecodeString(p[1]); err == nil {
			return c02Ticket{p[0], string(sec), true}
		}
	}
	return c02Ticket{}
}

func c02EncodeTicket(id string, secret []byte, legacy bool) string {
	s := "v2." + base64.RawURLEncoding.EncodeToString([]byte(id)) + "." + base64.RawURLEncoding.EncodeToString(secret)
	if legacy {
		s = id + "." + base64.RawURLEncoding.EncodeToString(secret)
	}
	return base64.URLEncoding.EncodeToString([]byte(s))
}

type c02Planted struct {
	Kind     string
	Value    string // complete cookie value under the session cookie name
	OwnValid bool   // issued by this deployment and still valid when presented
	Attacker []c02CK
	Who      string // the attacker's user (for "her own session" in rule 2), "" if she never had one
}

// c02LoginMethod abstracts the two ways a session is saved on an unvalidated request.
type c02LoginMethod struct {
	Name  string
	In    *c02Inst
	Login func(b *vfBrowser, user string, at time.Time) error // at != zero: the proxy's clock shows `at` while the session is saved
	User  func(tag string) string                // creates a user, returns the name that /oauth2/auth reports (X-Auth-Request-User)
}

func (c *c02Cell) plantIn(b *vfBrowser, in *c02Inst, value string) {
	b.Jar.Apply(b.Host, "/", []string{in.Name + "=" + value + "; Path=/"})
}

func (c *c02Cell) sessionCookieIn(b *vfBrowser, in *c02Inst) []c02CK {
	var out []c02CK
	for _, ck := range b.Jar.All() {
		if in.isSessionCookie(ck.Name) {
			out = append(out, c02CK{ck.Name, ck.Value})
		}
	}
	return out
}

// loginFixation runs the scenario on the server-side store.
func (c *c02Cell) loginFixation(P, S *c02Inst, secret string) {
	if P.Store != "redis" {
		return
	}
	run, g := c.run, c.g
	// --- login methods
	idents := map[string]vfIdentity{}
	oidc := c02LoginMethod{Name: "oauth-callback", In: P,
		User: func(tag string) string {
			id := c02Identity(c.rng, tag, 0)
			idents[id.Sub] = id
			return id.Sub
		},
		Login: func(b *vfBrowser, user string, at time.Time) error {
			l, err := b.StartLogin(P.P, idents[user], "/")
			if err != nil {
				return err
			}
			if !at.IsZero() {
				clock.Set(at)
				defer clock.Reset()
			}
			if r := b.Get(P.P, l.CallbackTarget(P.P)); r.Code != 302 {
				return fmt.Errorf("callback: status %d %s", r.Code, vfTrunc(vfErrText(r.Body), 160))
			}
			return nil
		}}
	var htLines []string
	htUsers := map[string]string{}
	for i := 0; i < 90; i++ {
		u, pw := fmt.Sprintf("ht-%02d-%s", i, c02RandStr(c.rng, 6, c02Alnum)), c02RandStr(c.rng, 12, c02Alnum)
		htUsers[u] = pw
		htLines = append(htLines, u+":"+vfHtpasswdSHA(pw))
	}
	H := c.newInst("issuer-with-htpasswd", g.Store, secret, g.CookieName, "--htpasswd-file="+c.w.File("htpasswd-c02", strings.Join(htLines, "\n")+"\n"))
	htFree := make([]string, 0, len(htUsers))
	for _, l := range htLines {
		htFree = append(htFree, l[:strings.IndexByte(l, ':')])
	}
	form := c02LoginMethod{Name: "htpasswd-form-sign-in", In: H,
		User: func(tag string) string {
			if len(htFree) == 0 {
				run.T.Fatalf("C02 rig: htpasswd users exhausted")
			}
			u := htFree[0]
			htFree = htFree[1:]
			return u
		},
		Login: func(b *vfBrowser, user string, at time.Time) error {
			if !at.IsZero() {
				clock.Set(at)
				defer clock.Reset()
			}
			body := "username=" + vfQueryEscape(user) + "&password=" + vfQueryEscape(htUsers[user])
			r := b.Send(H.P, vfNewReq("POST", "/oauth2/sign_in").WithBody("application/x-www-form-urlencoded", []byte(body)))
			if r.Code != 302 {
				return fmt.Errorf("form sign-in: status %d", r.Code)
			}
			return nil
		}}

	nowS := strconv.FormatInt(time.Now().Unix(), 10)
	for _, m := range []c02LoginMethod{oidc, form} {
		m := m
		in := m.In
		freshLogin := func(user string, at time.Time) (*vfBrowser, []c02CK) {
			b := vfNewBrowser("")
			if err := m.Login(b, user, at); err != nil {
				run.T.Fatalf("C02 rig: %s of %s: %v", m.Name, user, err)
			}
			ck := c.sessionCookieIn(b, in)
			if len(ck) != 1 || !c02TicketOf(ck[0].Value).OK {
				run.T.Fatalf("C02 rig: %s of %s produced no ticket cookie: %v", m.Name, user, ck)
			}
			return b, ck
		}
		madeUp := func(legacy bool) (string, c02Ticket) {
			id := in.Name + "-" + hex.EncodeToString(c02RandBytes(c.rng, 16))
			if legacy { // the legacy form "<id>.<secret>" cannot carry a dot in the id
				id = strings.ReplaceAll(id, ".", "_")
			}
			sec := c02RandBytes(c.rng, 16)
			return c02EncodeTicket(id, sec, legacy), c02Ticket{id, string(sec), true}
		}
		var plants []c02Planted
		v, _ := madeUp(false)
		plants = append(plants, c02Planted{Kind: "made-up ticket signed with another secret", Value: v + "|" + nowS + "|" + c02Sig(S.Secret, in.Name, v, nowS)})
		v, _ = madeUp(false)
		plants = append(plants, c02Planted{Kind: "made-up ticket, empty signature", Value: v + "|" + nowS + "|"})
		v, _ = madeUp(false)
		plants = append(plants, c02Planted{Kind: "made-up ticket, zero signature", Value: v + "|" + nowS + "|" + base64.URLEncoding.EncodeToString(make([]byte, 32))})
		v, _ = madeUp(false)
		plants = append(plants, c02Planted{Kind: "made-up ticket, value only", Value: v})
		v, _ = madeUp(true)
		plants = append(plants, c02Planted{Kind: "made-up legacy-format ticket signed with another secret", Value: v + "|" + nowS + "|" + c02Sig(S.Secret, in.Name, v, nowS)})
		{ // her own ticket, signature broken by a timestamp edit
			u := m.User("m")
			_, ck := freshLogin(u, time.Time{})
			f := c02Split3(ck[0].Value)
			ts, _ := strconv.ParseInt(f.TS, 10, 64)
			plants = append(plants, c02Planted{Kind: "own ticket, timestamp edited (signature no longer fits)", Value: f.Value + "|" + strconv.FormatInt(ts+1, 10) + "|" + f.Sig, Attacker: ck, Who: u})
		}
		if g.Expire != 0 { // her own ticket, correctly signed, issued two lifetimes ago
			u := m.User("m")
			_, ck := freshLogin(u, time.Now().Add(-2*g.Expire))
			plants = append(plants, c02Planted{Kind: "own ticket issued two lifetimes ago", Value: ck[0].Value, Attacker: ck, Who: u})
		}
		{ // her own valid ticket, session live
			u := m.User("m")
			_, ck := freshLogin(u, time.Time{})
			plants = append(plants, c02Planted{Kind: "own valid ticket, session live", Value: ck[0].Value, OwnValid: true, Attacker: ck, Who: u})
		}
		{ // her own valid ticket, after she signed out (store entry gone, cookie still correctly signed)
			u := m.User("m")
			b, ck := freshLogin(u, time.Time{})
			b.Get(in.P, "/oauth2/sign_out")
			plants = append(plants, c02Planted{Kind: "own valid ticket, signed out", Value: ck[0].Value, OwnValid: true, Attacker: ck, Who: u})
		}

		for _, pl := range plants {
			pl := pl
			planted := c02TicketOf(pl.Value)
			if !planted.OK {
				run.T.Fatalf("C02 rig: planted cookie %q carries no readable ticket", pl.Kind)
			}
			cell := fmt.Sprintf("%s|%s|login-with-planted-cookie|%s|%s", g.Store, g.Form.Name, m.Name, pl.Kind)
			attackerHolds := append([]c02CK{{in.Name, pl.Value}}, pl.Attacker...)
			attUser := pl.Who
			base := map[string]interface{}{"login_method": m.Name, "planted_cookie_kind": pl.Kind, "planted_cookie": in.Name + "=" + pl.Value, "planted_ticket_id": planted.ID,
				"planted_ticket_secret_hex": hex.EncodeToString([]byte(planted.Secret)), "planted_cookie_issued_by_this_deployment_and_valid": pl.OwnValid}
			keysBefore := func() map[string]bool {
				m := map[string]bool{}
				for _, k := range c.w.Redis().Keys() {
					m[k] = true
				}
				return m
			}
			judgeIssue := func(who string, role string, issued []c02CK, before map[string]bool) {
				run.Eval(cell + "|" + role)
				run.Count("logins_with_planted_cookie", 1)
				got := c02TicketOf(issued[0].Value)
				det := c.detail(in, issued, map[string]interface{}{"who_logged_in": who, "role": role, "issued_ticket_id": got.ID})
				for k, v := range base {
					det[k] = v
				}
				if got.ID == planted.ID || got.Secret == planted.Secret {
					run.Violation("c02:login-adopts-client-chosen-ticket", fmt.Sprintf("[%s/%s] %s of the %s with a %q under the session name: the cookie issued carries the ticket id/secret the client brought (id %q)",
						g.Store, g.Form.Name, m.Name, role, pl.Kind, got.ID), det)
				}
				for _, k := range c.w.Redis().Keys() {
					if !before[k] && k == planted.ID {
						run.Violation("c02:login-writes-client-chosen-store-key", fmt.Sprintf("[%s/%s] %s of the %s with a %q: the session was stored under the key named in the client's cookie (%q)", g.Store, g.Form.Name, m.Name, role, pl.Kind, k), det)
					}
				}
			}
			// (a) the attacker herself logs in with the planted cookie in her browser (made-up kinds: that is how she would get it signed)
			if pl.Who == "" {
				attUser = m.User("m")
				b := vfNewBrowser("")
				c.plantIn(b, in, pl.Value)
				before := keysBefore()
				if err := m.Login(b, attUser, time.Time{}); err != nil {
					run.T.Fatalf("C02 rig: %s of attacker with planted %q: %v", m.Name, pl.Kind, err)
				}
				got := c.sessionCookieIn(b, in)
				if len(got) != 1 {
					run.T.Fatalf("C02 rig: attacker's %s with planted %q left %d session cookies", m.Name, pl.Kind, len(got))
				}
				judgeIssue(attUser, "attacker", got, before)
				attackerHolds = append(attackerHolds, got...)
			}
			// (a') the same user logs in again with her own valid ticket in the browser: rule (1) holds here too, and both
			//      cookies may only ever decode to her own session
			if pl.OwnValid && strings.HasSuffix(pl.Kind, "session live") {
				b := vfNewBrowser("")
				c.plantIn(b, in, pl.Value)
				before := keysBefore()
				if err := m.Login(b, attUser, time.Time{}); err != nil {
					run.T.Fatalf("C02 rig: second %s of %s with her own valid ticket: %v", m.Name, attUser, err)
				}
				got := c.sessionCookieIn(b, in)
				if len(got) != 1 {
					run.T.Fatalf("C02 rig: second %s of %s left %d session cookies", m.Name, attUser, len(got))
				}
				judgeIssue(attUser, "same user again", got, before)
				if out := c02Probe(c.w, in, got, false); !out.Accepted || out.Id.User != attUser {
					run.Violation("c02:issued-cookie-decodes-to-another-session", fmt.Sprintf("[%s/%s] the cookie issued to %s at her second %s does not decode to her (%q)", g.Store, g.Form.Name, attUser, m.Name, out.Id.User), c.detail(in, got, base))
				}
				attackerHolds = append(attackerHolds, got...)
				if c02TicketOf(got[0].Value).ID != planted.ID { // the proxy minted a new ticket: from now on THAT is her valid cookie
					pl.Value = got[0].Value
					planted = c02TicketOf(pl.Value)
					base["planted_cookie"], base["planted_ticket_id"] = in.Name+"="+pl.Value, planted.ID
				}
			}
			// (b) the victim logs in while the planted cookie sits in the browser
			victim := m.User("v")
			vb := vfNewBrowser("")
			c.plantIn(vb, in, pl.Value)
			before := keysBefore()
			if err := m.Login(vb, victim, time.Time{}); err != nil {
				run.T.Fatalf("C02 rig: %s of victim with planted %q: %v", m.Name, pl.Kind, err)
			}
			vck := c.sessionCookieIn(vb, in)
			if len(vck) != 1 {
				run.T.Fatalf("C02 rig: victim's %s with planted %q left %d session cookies", m.Name, pl.Kind, len(vck))
			}
			judgeIssue(victim, "victim", vck, before)
			if out := c02Probe(c.w, in, vck, false); !out.Accepted || out.Id.User != victim {
				run.Violation("c02:issued-cookie-decodes-to-another-session", fmt.Sprintf("[%s/%s] the cookie issued to %s at %s (planted: %s) does not decode to that user (%q)", g.Store, g.Form.Name, victim, m.Name, pl.Kind, out.Id.User),
					c.detail(in, vck, base))
			}
			// (c) the attacker returns with everything she holds
			for _, ck := range attackerHolds {
				out := c02Probe(c.w, in, []c02CK{ck}, true)
				run.Eval(cell + "|attacker-returns")
				run.Count("attacker_cookies_presented_after_victim_login", 1)
				switch {
				case !out.Accepted:
				case out.Id.User == victim:
					det := c.detail(in, []c02CK{ck}, map[string]interface{}{"victim": victim, "attacker": attUser, "decodes_to": out.Id.short(), "victims_cookie": c02Header(vck)})
					for k, v := range base {
						det[k] = v
					}
					sig := "c02:session-fixation-at-login"
					if pl.OwnValid {
						sig = "c02:session-fixation-at-login-with-valid-ticket"
					}
					run.Violation(sig, fmt.Sprintf("[%s/%s] after the victim's %s with a %q in the browser, a cookie the attacker holds decodes to the VICTIM's session (%s)", g.Store, g.Form.Name, m.Name, pl.Kind, victim), det)
				case out.Id.User != attUser:
					run.Violation("c02:altered-credential-decodes-differently", fmt.Sprintf("[%s/%s] a cookie the attacker (%s) holds decodes to a third user %q after logins with a %q", g.Store, g.Form.Name, attUser, out.Id.User, pl.Kind),
						c.detail(in, []c02CK{ck}, base))
				default:
					run.Count("attacker_cookie_decodes_to_her_own_session", 1)
				}
			}
		}
	}
	c.entropyFaults(form)
	c.w.Up.Reset()
}

// ---------------------------------------------------------------------------------------------------------
// Entropy faults: the ticket id (store key) and the ticket secret (AES-GCM key of the store entry) come from the system's
// random source. When that source fails during a login, the login must fail cleanly (no cookie, no store entry) or still
// yield a sound ticket: never a degenerate one (zero bytes = a publicly known key / a ticket shared by every login hit).
// Strictly sequential, no request in flight: crypto/rand.Reader (a package variable) is replaced around single htpasswd
// form sign-ins (served entirely on the calling goroutine; the OAuth callback would involve the fake IdP's goroutines,
// which read the same variable) by a reader that fails selected reads, and restored right after each.

type c02FaultyRand struct {
	real  io.Reader
	size  int // fail every read of exactly this many bytes (0 = off)
	kth   int // fail the k-th read (0 = off)
	short bool
	n     int
	fired int
	sizes []int
}

func (f *c02FaultyRand) Read(p []byte) (int, error) {
	f.n++
	f.sizes = append(f.sizes, len(p))
	if (f.size != 0 && len(p) == f.size) || (f.kth != 0 && f.n == f.kth) {
		f.fired++
		if f.short && len(p) > 1 {
			k, _ := io.ReadFull(f.real, p[:len(p)/2])
			return k, errors.New("c02: injected entropy failure (short read)")
		}
		return 0, errors.New("c02: injected entropy failure")
	}
	return f.real.Read(p)
}

func c02ZeroRun(b []byte, min int) bool {
	n := 0
	for _, x := range b {
		if x == 0 {
			if n++; n >= min {
				return true
			}
		} else {
			n = 0
		}
	}
	return false
}

func (c *c02Cell) entropyFaults(m c02LoginMethod) {
	run, g, in := c.run, c.g, m.In
	_ = c.w.IdP.EventCount("authorize") // orders the provider's earlier use of the random source before the swap
	real := crand.Reader
	defer func() { crand.Reader = real }()
	type plan struct {
		size, kth int
		short     bool
	}
	var plans []plan
	for _, short := range []bool{false, true} {
		plans = append(plans, plan{size: 16, short: short}, plan{size: 12, short: short})
		for k := 1; k <= 4; k++ {
			plans = append(plans, plan{kth: k, short: short})
		}
	}
	plans = append(plans, plan{}) // control: no fault
	type got struct {
		user string
		ck   []c02CK
		what string
	}
	var issued []got
	ids, secrets := map[string]string{}, map[string]string{}
	for _, pl := range plans {
		for rep := 0; rep < 2; rep++ {
			what := "no fault"
			switch {
			case pl.size != 0:
				what = fmt.Sprintf("fail every %d-byte read", pl.size)
			case pl.kth != 0:
				what = fmt.Sprintf("fail read #%d", pl.kth)
			}
			if pl.short {
				what += " after half of the bytes"
			}
			user := m.User("e")
			b := vfNewBrowser("")
			before := map[string]bool{}
			for _, k := range c.w.Redis().Keys() {
				before[k] = true
			}
			f := &c02FaultyRand{real: real, size: pl.size, kth: pl.kth, short: pl.short}
			crand.Reader = f
			err := m.Login(b, user, time.Time{})
			crand.Reader = real
			ck := c.sessionCookieIn(b, in)
			var newKeys []string
			for _, k := range c.w.Redis().Keys() {
				if !before[k] {
					newKeys = append(newKeys, k)
				}
			}
			run.Count("entropy_fault_logins", 1)
			run.Count("entropy_faults_fired", int64(f.fired))
			det := map[string]interface{}{"flags": in.P.Flags, "login": m.Name + " of " + user, "fault": what, "faults_fired": f.fired, "random_reads_bytes": f.sizes, "new_store_keys": newKeys, "cookie": c02Header(ck)}
			fired := "fired"
			if f.fired == 0 {
				fired = "not-reached"
			}
			if err != nil || len(ck) == 0 {
				run.Eval(fmt.Sprintf("%s|%s|entropy-fault|%s|%s|refused", g.Store, g.Form.Name, what, fired))
				run.Count("entropy_fault_logins_refused", 1)
				if f.fired == 0 {
					run.T.Fatalf("C02 rig: %s of %s failed although no entropy fault fired: %v", m.Name, user, err)
				}
				if len(ck) != 0 || len(newKeys) != 0 {
					run.Violation("c02:login-under-entropy-fault-not-clean", fmt.Sprintf("[%s/%s] %s under %q failed but left %d cookie(s) / %d store entr(ies)", g.Store, g.Form.Name, m.Name, what, len(ck), len(newKeys)), det)
				}
				continue
			}
			run.Eval(fmt.Sprintf("%s|%s|entropy-fault|%s|%s|completed", g.Store, g.Form.Name, what, fired))
			run.Count("entropy_fault_logins_completed", 1)
			t := c02TicketOf(ck[0].Value)
			rawID := []byte(t.ID)
			if k := strings.LastIndexByte(t.ID, '-'); k >= 0 {
				if hb, herr := hex.DecodeString(t.ID[k+1:]); herr == nil {
					rawID = hb
				}
			}
			det["ticket_id"], det["ticket_secret_hex"] = t.ID, hex.EncodeToString([]byte(t.Secret))
			switch {
			case !t.OK:
				run.T.Fatalf("C02 rig: cookie issued under %q carries no readable ticket", what)
			case c02ZeroRun(rawID, 8) || c02ZeroRun([]byte(t.Secret), 8) || len(t.Secret) < 16:
				run.Violation("c02:degenerate-ticket-under-entropy-fault", fmt.Sprintf("[%s/%s] %s under %q completed with a degenerate ticket: id %q, secret %x", g.Store, g.Form.Name, m.Name, what, t.ID, t.Secret), det)
			case ids[t.ID] != "" || secrets[t.Secret] != "":
				det["same_as"] = ids[t.ID] + secrets[t.Secret]
				run.Violation("c02:degenerate-ticket-under-entropy-fault", fmt.Sprintf("[%s/%s] %s under %q completed with the ticket id / secret of another login (%s)", g.Store, g.Form.Name, m.Name, what, ids[t.ID]+secrets[t.Secret]), det)
			}
			ids[t.ID], secrets[t.Secret] = user+" ("+what+")", user+" ("+what+")"
			for _, k := range newKeys {
				if v, e := c.w.Redis().Get(k); e == nil {
					c.observeStore(k, v)
					for _, n := range []int{16, 24, 32} {
						if pt, ok := c02OpenGCM(make([]byte, n), []byte(v)); ok {
							det["plaintext_head"] = vfTrunc(fmt.Sprintf("%q", pt), 200)
							run.Violation("c02:store-entry-decrypts-with-well-known-key", fmt.Sprintf("[%s/%s] the store entry %q written by a %s under %q decrypts with %d zero bytes as key", g.Store, g.Form.Name, k, m.Name, what, n), det)
						}
					}
				}
			}
			issued = append(issued, got{user, ck, what})
		}
	}
	// later: every cookie handed out during the phase decodes to its own user, or to nothing
	for _, it := range issued {
		out := c02Probe(c.w, in, it.ck, false)
		run.Eval(fmt.Sprintf("%s|%s|entropy-fault|later-presentation", g.Store, g.Form.Name))
		if out.Accepted && out.Id.User != it.user {
			run.Violation("c02:issued-cookie-decodes-to-another-session", fmt.Sprintf("[%s/%s] the cookie issued to %s (%s under %q) later decodes to the session of %q", g.Store, g.Form.Name, it.user, m.Name, it.what, out.Id.User),
				c.detail(in, it.ck, map[string]interface{}{"fault": it.what, "issued_to": it.user, "decodes_to": out.Id.short()}))
		}
	}
}
