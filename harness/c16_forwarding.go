//go:build verif

package main

// C16 — Forwarding headers are ignored unless reverse-proxy mode is on.
//
// Oracle (relational, no model of the proxy needed):
//   reverse-proxy OFF: the same request is executed on the same instance without and with forwarding headers
//   (every subset of X-Forwarded-Host/-Proto/-Uri/-For, X-Real-IP and one further client-IP header, several value
//   sets); the normalised observations must be EQUAL: status, Location (scheme, host, path, every query parameter
//   except the random nonce / code challenge; the redirect carried in `state` and the OAuth `redirect_uri` ARE
//   compared), Set-Cookie (name modulo per-request suffix, Domain, Path, Secure, HttpOnly, SameSite, Max-Age, empty or
//   not), the remaining response headers, the body (href of redirect bodies masked; a fixed X-Request-Id is sent), whether
//   the upstream was reached, and what the upstream received apart from the forwarding headers themselves.
//   The base request is executed twice first: if two identical executions already differ, the case is inconclusive.
//   reverse-proxy ON: the trusted-IP outcome (upstream reached / 202) for a fixed value of the ONE configured
//   --real-client-ip-header must not change when any of the other headers is added or changed; and it must change
//   with the configured header (otherwise the probe would be vacuous -> inconclusive).

import (
	"bufio"
	"encoding/pem"
	"fmt"
	"html"
	"io"
	"net"
	"net/http"
	"net/url"
	"regexp"
	"sort"
	"strings"
	"testing"
	"time"

	"github.com/oauth2-proxy/oauth2-proxy/v7/pkg/util"
)

var c16FwdNames = []string{"X-Forwarded-Host", "X-Forwarded-Proto", "X-Forwarded-Uri", "X-Forwarded-For", "X-Real-IP"}
var c16OtherIP = []string{"X-ProxyUser-IP", "X-Envoy-External-Address", "CF-Connecting-IP"}

// value sets: index = header position in c16FwdNames, last = the "other" client-IP header
type c16ValueSet struct {
	Name string
	V    [6]string
}

func c16ValueSets(thorough bool) []c16ValueSet {
	vs := []c16ValueSet{
		{"whitelisted-host/https/proxy-prefixed-uri/trusted-addr", [6]string{"allowed.example.org", "https", "/oauth2/sign_in?x=1", "10.1.2.3", "10.1.2.3", "10.1.2.3"}},
		{"foreign-host/https/skip-auth-uri/untrusted-addr", [6]string{"evil.test", "https", "/open/y?via=xfu", "198.51.100.77", "198.51.100.77", "198.51.100.77"}},
		{"cookie-domain-host/HTTPS/api-uri/trusted-list+port", [6]string{"app.cookie.example.com", "HTTPS", "/api/v1/x?from=xfu", "10.1.2.3, 198.51.100.1", "10.1.2.3:4711", "10.9.9.9"}},
	}
	if thorough {
		vs = append(vs,
			c16ValueSet{"host-with-port/http/other-uri/v6-mapped", [6]string{"allowed.example.org:8443", "http", "/elsewhere?z=9", "::ffff:10.1.2.3", "[::ffff:10.1.2.3]:99", "10.255.255.255"}},
			c16ValueSet{"host-list/proto-list/scheme-relative-uri/garbage-addr", [6]string{"allowed.example.org, evil.test", "https, http", "//evil.test/x", "not-an-ip", "10.1.2.3, evil", "256.1.1.1"}},
			c16ValueSet{"subdomain-of-whitelist/wss/ping-uri/loopback", [6]string{"x.cookie.example.com", "wss", "/ping", "127.0.0.1", "127.0.0.1", "::1"}},
		)
	}
	return vs
}

var c16DegenerateValues = []struct{ Name, V string }{
	{"comma", ","}, {"commas", ",,"}, {"comma-space-comma", ", ,"}, {"commas-then-value", ",,evil.test"}, {"semicolon", ";"}, {"colon", ":"},
	{"empty", ""}, {"tab", "\t"}, {"spaces", "   "}, {"very-long", strings.Repeat("a1.", 2700) + "test"}, {"non-ascii", "h\u00f4st.ex\u00e4mple\u3002test"},
	{"garbage", "%%%zz//\\\\..@@[::"}, {"quote-lt", "\"><x y=\"'"}, {"scheme-like", "https://"}, {"slash", "/"},
}

// endpoint classes of the quick tier's degenerate-value slice
var c16DegenerateEndpoint = map[string]bool{"protected-anon": true, "protected-auth": true, "skip-auth-path-anon": true, "api-anon": true, "auth-only-anon": true, "start-rd": true, "start-no-rd": true,
	"sign-in-get-no-rd": true, "sign-out-no-rd": true, "callback-invalid-state": true, "static": true, "ping": true}

type c16Cfg struct {
	Name   string
	Flags  []string
	Host   string   // Host header of every request
	Peers  []string // client addresses (direct driver); "" = default untrusted peer
	Wire   bool     // use the wire driver (peer is loopback)
	TLS    bool     // needs certificate files
	NoAuth bool     // skip authenticated endpoints
	HTTP10 bool     // wire driver, every request hand-written as HTTP/1.0 WITHOUT a Host header (req.Host is empty in the handler)
	Lenient bool    // the Host matches none of the cookie domains: a browser would refuse the cookies, the harness presents them anyway (name=value from Set-Cookie)
	OverTLS bool    // every request (login, base and with-headers) goes over the TLS wire driver: the handler sees req.TLS != nil
	HTTPS  bool     // the harness browser presents Secure cookies (instance itself is driven over plain HTTP)
}

func c16Configs(w *vfWorld, run *vfRun) []c16Cfg {
	wl := []string{"--whitelist-domain=allowed.example.org", "--whitelist-domain=.cookie.example.com"}
	cd := []string{"--cookie-domain=.cookie.example.com", "--cookie-domain=example.org"}
	cfgs := []c16Cfg{
		{Name: "plain", Host: "proxy.test", Peers: []string{"", "@", "[::1]:1"}},
		{Name: "trusted-ip+skip-auth+api", Host: "proxy.test", Flags: []string{"--trusted-ip=10.0.0.0/8", "--trusted-ip=127.0.0.0/8", "--skip-auth-route=^/open/", "--api-route=^/api/", "--skip-auth-preflight=true"}, Peers: []string{"", "10.5.5.5:40000", "@"}},
		{Name: "whitelist+cookie-domain", Host: "www.example.org", Flags: append(append([]string{}, wl...), cd...), Peers: []string{"", "@"}},
		// several cookie domains and a Host outside all of them (addressed by IP / internal name): the fall-back domain must
		// not depend on X-Forwarded-Host. "@" is what net/http reports as peer of a unix-socket listener; "unix" / v6 loopback: other odd peers.
		{Name: "cookie-domains+ip-host", Host: "10.20.30.40:4180", Lenient: true, Flags: append(append([]string{"--skip-auth-route=^/open/"}, wl...), cd...), Peers: []string{"", "@"}},
		{Name: "cookie-domains3+internal-host", Host: "oauth2-proxy.internal", Lenient: true, Flags: append([]string{"--cookie-domain=example.org", "--cookie-domain=.cookie.example.com", "--cookie-domain=allowed.example.org", "--skip-provider-button=true"}, wl...), Peers: []string{"", "unix"}},
		{Name: "relative-redirect-url", Host: "proxy.test", Flags: append([]string{"--redirect-url=/oauth2/callback", "--relative-redirect-url=true"}, wl...)},
		{Name: "absolute-redirect-url", Host: "sub.www.example.org", Flags: append([]string{"--redirect-url=https://fixed.example.com/oauth2/callback"}, cd...)},
		{Name: "cookie-secure", Host: "proxy.test", HTTPS: true, Flags: append([]string{"--cookie-secure=true"}, wl...)},
		{Name: "skip-provider-button+all", Host: "app.cookie.example.com", Flags: append(append([]string{"--skip-provider-button=true", "--trusted-ip=10.0.0.0/8", "--skip-auth-route=GET=^/open/", "--api-route=^/api/", "--real-client-ip-header=X-Forwarded-For"}, wl...), cd...), Peers: []string{"", "10.5.5.5:40000"}},
		{Name: "wire+all", Host: "www.example.org", Wire: true, Flags: append(append([]string{"--trusted-ip=10.0.0.0/8", "--skip-auth-route=^/open/", "--api-route=^/api/"}, wl...), cd...)},
		// the same option, but the client speaks TLS to the proxy (as on --https-address): already-secure requests must be
		// served, with or without forwarding headers; all endpoint classes incl. the authenticated ones
		{Name: "force-https+tls-listener", Host: "www.example.org", TLS: true, OverTLS: true, HTTPS: true, Flags: append(append([]string{"--force-https=true", "--https-address=127.0.0.1:0", "--trusted-ip=10.0.0.0/8", "--skip-auth-route=^/open/", "--api-route=^/api/"}, wl...), cd[1:]...)},
		// an HTTP/1.0 client need not send Host: the proxy then has no request host at all; whatever it puts in its place must
		// not come from a forwarding header (reverse-proxy off). No host in --redirect-url (default).
		{Name: "wire+http10-no-host", Host: "", Wire: true, HTTP10: true, Lenient: true, Flags: append([]string{"--skip-auth-route=^/open/", "--api-route=^/api/"}, wl...)},
		{Name: "force-https", Host: "proxy.test:4180", TLS: true, NoAuth: true, Flags: append([]string{"--force-https=true", "--https-address=127.0.0.1:0"}, wl...)},
	}
	return cfgs
}

type c16Endpoint struct {
	Name, Method, Target, Body string
	Auth                       bool
	Flow                       string // "" | callback-valid
	Hdr                        []string
}

func c16Endpoints() []c16Endpoint {
	return []c16Endpoint{
		{Name: "protected-anon", Method: "GET", Target: "/app/x?y=1"},
		{Name: "protected-anon-ajax", Method: "GET", Target: "/app/x?y=1", Hdr: []string{"Accept", "application/json"}},
		{Name: "protected-auth", Method: "GET", Target: "/app/x?y=1", Auth: true},
		{Name: "api-anon", Method: "GET", Target: "/api/v1/thing?k=v"},
		{Name: "skip-auth-path-anon", Method: "GET", Target: "/open/y?z=2"},
		{Name: "skip-auth-path-post", Method: "POST", Target: "/open/y", Body: "a=b"},
		{Name: "preflight-anon", Method: "OPTIONS", Target: "/app/x", Hdr: []string{"Origin", "https://app.example.org", "Access-Control-Request-Method", "POST"}},
		{Name: "auth-only-anon", Method: "GET", Target: "/oauth2/auth"},
		{Name: "auth-only-auth", Method: "GET", Target: "/oauth2/auth", Auth: true},
		{Name: "start-rd", Method: "GET", Target: "/oauth2/start?rd=%2Ffoo%3Fa%3D1"},
		{Name: "start-no-rd", Method: "GET", Target: "/oauth2/start"},
		{Name: "start-rd-absolute", Method: "GET", Target: "/oauth2/start?rd=https%3A%2F%2Fallowed.example.org%2Fp"},
		{Name: "start-rd-foreign", Method: "GET", Target: "/oauth2/start?rd=https%3A%2F%2Fevil.test%2Fp"},
		{Name: "sign-in-get-rd", Method: "GET", Target: "/oauth2/sign_in?rd=%2Ffoo"},
		{Name: "sign-in-get-no-rd", Method: "GET", Target: "/oauth2/sign_in"},
		{Name: "sign-in-post", Method: "POST", Target: "/oauth2/sign_in", Body: "username=u&password=p&rd=%2Ffoo"},
		{Name: "sign-out-rd", Method: "GET", Target: "/oauth2/sign_out?rd=%2Fbye", Auth: true},
		{Name: "sign-out-no-rd", Method: "GET", Target: "/oauth2/sign_out", Auth: true},
		{Name: "sign-out-rd-absolute", Method: "GET", Target: "/oauth2/sign_out?rd=https%3A%2F%2Fallowed.example.org%2Fbye"},
		{Name: "callback-invalid-state", Method: "GET", Target: "/oauth2/callback?code=nope&state=bogus%3A%2Ffoo"},
		{Name: "callback-provider-error", Method: "GET", Target: "/oauth2/callback?error=access_denied&error_description=no"},
		{Name: "callback-valid", Method: "GET", Flow: "callback-valid"},
		{Name: "static", Method: "GET", Target: "/oauth2/static/css/bulma.min.css"},
		{Name: "userinfo-anon", Method: "GET", Target: "/oauth2/userinfo"},
		{Name: "userinfo-auth", Method: "GET", Target: "/oauth2/userinfo", Auth: true},
		{Name: "ping", Method: "GET", Target: "/ping"},
		{Name: "robots", Method: "GET", Target: "/robots.txt"},
	}
}

// ---------------------------------------------------------------------------------------------------------
// normalised observation

type c16Obs struct {
	Fields map[string]string
}

var c16HrefRe = regexp.MustCompile(`href="[^"]*"`)

func c16IsFwd(name string) bool {
	for _, n := range append(append([]string{}, c16FwdNames...), c16OtherIP...) {
		if strings.EqualFold(n, name) {
			return true
		}
	}
	return false
}

func c16Observe(w *vfWorld, resp *vfResp, id string) c16Obs {
	f := map[string]string{}
	f["status"] = fmt.Sprint(resp.Code)
	if resp.Panic != "" {
		f["status"] = "panic"
	}
	if resp.Err != "" {
		f["status"] = "error:" + resp.Err
	}
	// Location
	if loc := resp.Header.Get("Location"); loc != "" {
		u, err := url.Parse(loc)
		if err != nil {
			f["location"] = "unparsable:" + loc
		} else {
			f["location"] = u.Scheme + "://" + u.Host + u.EscapedPath() + "#" + u.Fragment
			q := u.Query()
			keys := make([]string, 0, len(q))
			for k := range q {
				keys = append(keys, k)
			}
			sort.Strings(keys)
			for _, k := range keys {
				v := strings.Join(q[k], "\x00")
				switch k {
				case "nonce", "code_challenge":
					v = fmt.Sprintf("(random, %d values)", len(q[k]))
				case "state":
					// "<random>:<redirect>"; the redirect suffix is compared
					if i := strings.IndexByte(v, ':'); i >= 0 {
						f["state-redirect"] = v[i+1:]
						v = "(random):…"
					} else {
						f["state-redirect"] = "(no separator)"
						v = "(opaque)"
					}
				case "redirect_uri":
					f["oauth-redirect-uri"] = v
				}
				f["location-query:"+k] = v
			}
		}
	}
	// cookies
	var cs []string
	for _, line := range resp.SetCookies() {
		c, err := http.ParseSetCookie(line)
		if err != nil {
			cs = append(cs, "unparsable:"+line)
			continue
		}
		name := c.Name
		if i := strings.Index(name, "_csrf"); i >= 0 {
			// "<cookie>_<state prefix>_csrf" when per-request CSRF cookies are on: keep "<cookie>…_csrf"
			name = name[:strings.Index(name, "_")+1] + "…" + name[i:]
		}
		exp := "none"
		if !c.Expires.IsZero() {
			exp = "future"
			if c.Expires.Year() < 2000 || c.MaxAge < 0 {
				exp = "past"
			}
		}
		cs = append(cs, fmt.Sprintf("%s|domain=%s|path=%s|secure=%v|httponly=%v|samesite=%d|maxage=%d|expires=%s|empty=%v", name, c.Domain, c.Path, c.Secure, c.HttpOnly, c.SameSite, c.MaxAge, exp, c.Value == ""))
	}
	f["set-cookie"] = strings.Join(cs, "\n")
	// other response headers
	var hs []string
	for k, vv := range resp.Header {
		switch k {
		case "Date", "Content-Length", "Set-Cookie", "Location":
			continue
		}
		hs = append(hs, k+": "+strings.Join(vv, "\x00"))
	}
	sort.Strings(hs)
	f["response-headers"] = strings.Join(hs, "\n")
	body := string(resp.Body)
	if resp.Code >= 300 && resp.Code < 400 {
		body = c16HrefRe.ReplaceAllString(body, `href="*"`)
	}
	f["body"] = body
	hits := w.Up.FindHit(id)
	f["upstream-hit"] = fmt.Sprint(len(hits))
	if len(hits) > 0 {
		h := hits[0]
		var us []string
		for k, vv := range h.Header {
			if c16IsFwd(k) || k == "X-Vf-Id" {
				continue // the forwarding headers themselves are legitimately passed through
			}
			us = append(us, k+": "+strings.Join(vv, "\x00"))
		}
		sort.Strings(us)
		f["upstream-request"] = h.Method + " " + h.RequestURI + " host=" + h.Host + " body=" + string(h.Body) + "\n" + strings.Join(us, "\n")
	}
	return c16Obs{Fields: f}
}

// c16Diff returns the differing fields, most significant first.
func c16Diff(a, b c16Obs) []string {
	order := []string{"upstream-hit", "status", "oauth-redirect-uri", "state-redirect", "location", "set-cookie", "body", "upstream-request", "response-headers"}
	seen := map[string]bool{}
	var out []string
	for _, k := range order {
		seen[k] = true
		if a.Fields[k] != b.Fields[k] {
			out = append(out, k)
		}
	}
	var rest []string
	for k := range a.Fields {
		if !seen[k] && a.Fields[k] != b.Fields[k] {
			rest = append(rest, k)
		}
	}
	for k := range b.Fields {
		if _, ok := a.Fields[k]; !ok && !seen[k] {
			rest = append(rest, k)
		}
	}
	sort.Strings(rest)
	return append(out, rest...)
}

func c16Sig(field string) string {
	switch {
	case field == "upstream-hit":
		return "c16:bypass-outcome-differs"
	case field == "status":
		return "c16:status-differs"
	case field == "oauth-redirect-uri" || field == "location-query:redirect_uri":
		return "c16:oauth-redirect-uri-differs"
	case field == "state-redirect" || field == "location" || strings.HasPrefix(field, "location-query:"):
		return "c16:redirect-target-differs"
	case field == "set-cookie":
		return "c16:cookie-attributes-differ"
	case field == "body":
		return "c16:body-differs"
	case field == "upstream-request":
		return "c16:upstream-request-differs"
	}
	return "c16:response-header-differs"
}

// ---------------------------------------------------------------------------------------------------------

type c16Exec struct {
	Cfg    *c16Cfg
	P      *vfProxy
	W      *vfWorld
	Cookie string
}

func (x *c16Exec) send(r *vfReq) *vfResp {
	switch {
	case x.Cfg.HTTP10:
		return c16WireHTTP10(x.P, r)
	case x.Cfg.OverTLS:
		return x.P.WireTLS(r)
	case x.Cfg.Wire:
		return x.P.Wire(r)
	}
	return x.P.Do(r)
}

// c16WireHTTP10 writes the request by hand as HTTP/1.0 without a Host header (origin-form target) over a fresh connection
// to the instance's plain wire server and parses one response.
func c16WireHTTP10(p *vfProxy, r *vfReq) *vfResp {
	var b strings.Builder
	m := r.Method
	if m == "" {
		m = "GET"
	}
	fmt.Fprintf(&b, "%s %s HTTP/1.0\r\n", m, r.Target)
	for _, h := range r.Headers {
		if !strings.EqualFold(h[0], "Host") {
			fmt.Fprintf(&b, "%s: %s\r\n", h[0], h[1])
		}
	}
	if len(r.Body) > 0 || m == "POST" {
		fmt.Fprintf(&b, "Content-Length: %d\r\n", len(r.Body))
	}
	b.WriteString("\r\n")
	b.Write(r.Body)
	c, err := net.DialTimeout("tcp", strings.TrimPrefix(p.Server().URL, "http://"), 5*time.Second)
	if err != nil {
		return &vfResp{Err: "dial: " + err.Error(), Header: http.Header{}}
	}
	defer c.Close()
	_ = c.SetDeadline(time.Now().Add(60 * time.Second))
	if _, err := c.Write([]byte(b.String())); err != nil {
		return &vfResp{Err: "write: " + err.Error(), Header: http.Header{}}
	}
	res, err := http.ReadResponse(bufio.NewReader(c), &http.Request{Method: m})
	if err != nil {
		return &vfResp{Err: "read: " + err.Error(), Header: http.Header{}}
	}
	defer res.Body.Close()
	body, _ := io.ReadAll(res.Body)
	return &vfResp{Code: res.StatusCode, Header: res.Header, Body: body}
}

// startLoginTLS: GET /oauth2/start over TLS (no forwarding headers), code from the IdP; returns the browser (CSRF cookie
// in its jar) and the callback target.
func (x *c16Exec) startLoginTLS(rd string) (*vfBrowser, string, error) {
	b := vfNewBrowser(x.Cfg.Host)
	b.HTTPS = true
	resp := x.P.WireTLS(vfGET("/oauth2/start?rd=" + vfQueryEscape(rd)).WithHost(x.Cfg.Host))
	if resp.Code != 302 {
		return b, "", fmt.Errorf("start over TLS: status %d %s", resp.Code, resp.Err)
	}
	b.Jar.Apply(x.Cfg.Host, "/oauth2/start", resp.SetCookies())
	code, ar, err := x.W.IdP.Authorize(resp.Location(), vfStdIdentity)
	if err != nil {
		return b, "", err
	}
	return b, "/oauth2/callback?code=" + vfQueryEscape(code) + "&state=" + vfQueryEscape(ar.Params.Get("state")), nil
}

// c16CookiePairs: name=value of every non-deleting Set-Cookie line, regardless of Domain / Secure (see c16Cfg.Lenient).
func c16CookiePairs(resp *vfResp) string {
	var parts []string
	for _, line := range resp.SetCookies() {
		if c, err := http.ParseSetCookie(line); err == nil && c.Value != "" && c.MaxAge >= 0 {
			parts = append(parts, c.Name+"="+c.Value)
		}
	}
	return strings.Join(parts, "; ")
}

// startLoginLenient: GET /oauth2/start (no forwarding headers, default peer), code from the IdP; returns the Cookie
// header to present on the callback and the callback target.
func (x *c16Exec) startLoginLenient(rd string) (string, string, error) {
	resp := x.send(vfGET("/oauth2/start?rd=" + vfQueryEscape(rd)).WithHost(x.Cfg.Host))
	if resp.Code != 302 {
		return "", "", fmt.Errorf("start: status %d %s", resp.Code, resp.Err)
	}
	code, ar, err := x.W.IdP.Authorize(resp.Location(), vfStdIdentity)
	if err != nil {
		return "", "", err
	}
	return c16CookiePairs(resp), "/oauth2/callback?code=" + vfQueryEscape(code) + "&state=" + vfQueryEscape(ar.Params.Get("state")), nil
}

// run one execution of endpoint ep with the extra headers hdr from peer.
func (x *c16Exec) do(ep c16Endpoint, peer string, hdr [][2]string, id string) (*vfReq, *vfResp) {
	send := x.send
	if ep.Flow == "callback-valid" && x.Cfg.OverTLS {
		b, target, err := x.startLoginTLS("/after?login=1")
		if err != nil {
			return nil, &vfResp{Err: "start failed: " + err.Error(), Header: http.Header{}}
		}
		req := vfNewReq("GET", target, "X-Vf-Id", id, "X-Request-Id", "c16-fixed-request-id").WithHost(x.Cfg.Host)
		if cs := b.Jar.For(x.Cfg.Host, "/oauth2/callback", true); len(cs) > 0 {
			req.H("Cookie", vfCookieHeader(cs))
		}
		req.Headers = append(req.Headers, hdr...)
		return req, send(req)
	}
	if ep.Flow == "callback-valid" && x.Cfg.Lenient {
		cookie, target, err := x.startLoginLenient("/after?login=1")
		if err != nil {
			return nil, &vfResp{Err: "start failed: " + err.Error(), Header: http.Header{}}
		}
		req := vfNewReq("GET", target, "X-Vf-Id", id, "X-Request-Id", "c16-fixed-request-id", "Cookie", cookie).WithHost(x.Cfg.Host).From(peer)
		req.Headers = append(req.Headers, hdr...)
		return req, send(req)
	}
	if ep.Flow == "callback-valid" {
		// a fresh browser starts a login WITHOUT forwarding headers; only the callback request carries them
		b := vfNewBrowser(x.Cfg.Host)
		b.Wire, b.HTTPS = x.Cfg.Wire, x.Cfg.HTTPS
		l, err := b.StartLogin(x.P, vfStdIdentity, "/after?login=1")
		if err != nil {
			return nil, &vfResp{Err: "start failed: " + err.Error(), Header: http.Header{}}
		}
		req := vfNewReq("GET", l.CallbackTarget(x.P), "X-Vf-Id", id, "X-Request-Id", "c16-fixed-request-id").WithHost(x.Cfg.Host).From(peer)
		if cs := b.Jar.For(x.Cfg.Host, "/oauth2/callback", x.Cfg.HTTPS); len(cs) > 0 {
			req.H("Cookie", vfCookieHeader(cs))
		}
		req.Headers = append(req.Headers, hdr...)
		return req, send(req)
	}
	req := vfNewReq(ep.Method, ep.Target, "X-Vf-Id", id, "X-Request-Id", "c16-fixed-request-id").WithHost(x.Cfg.Host).From(peer)
	for k := 0; k+1 < len(ep.Hdr); k += 2 {
		req.H(ep.Hdr[k], ep.Hdr[k+1])
	}
	if ep.Auth && x.Cookie != "" {
		req.H("Cookie", x.Cookie)
	}
	if ep.Body != "" {
		req.WithBody("application/x-www-form-urlencoded", []byte(ep.Body))
	}
	req.Headers = append(req.Headers, hdr...)
	return req, send(req)
}

func c16Headers(mask int, vs c16ValueSet, salt int) [][2]string {
	var out [][2]string
	for k := 0; k < 5; k++ {
		if mask&(1<<uint(k)) != 0 {
			out = append(out, [2]string{c16FwdNames[k], vs.V[k]})
		}
	}
	if mask&(1<<5) != 0 {
		out = append(out, [2]string{c16OtherIP[(mask+salt)%3], vs.V[5]})
	}
	return out
}

func c16PEM(t *testing.T, w *vfWorld) (string, string) {
	cert, key, err := util.GenerateCert("127.0.0.1")
	if err != nil {
		t.Fatalf("GenerateCert: %v", err)
	}
	c := w.File("c16-cert.pem", string(pem.EncodeToMemory(&pem.Block{Type: "CERTIFICATE", Bytes: cert})))
	k := w.File("c16-key.pem", string(pem.EncodeToMemory(&pem.Block{Type: "PRIVATE KEY", Bytes: key})))
	return c, k
}

type c16Witness struct {
	Config       string              `json:"config"`
	Flags        []string            `json:"flags"`
	Endpoint     string              `json:"endpoint"`
	Peer         string              `json:"peer,omitempty"`
	Driver       string              `json:"driver"`
	Added        [][2]string         `json:"forwarding_headers_added"`
	BaseRequest  *vfReq              `json:"base_request"`
	Request      *vfReq              `json:"request_with_headers"`
	RawRequest   string              `json:"raw_request_with_headers"`
	Differing    []string            `json:"differing_fields"`
	Without      map[string]string   `json:"observed_without"`
	With         map[string]string   `json:"observed_with"`
	Note         string              `json:"note,omitempty"`
}

func c16PeerNote(peer string) string {
	if peer == "" {
		return ""
	}
	return " (peer " + peer + ")"
}

func c16Pick(f map[string]string, keys []string) map[string]string {
	out := map[string]string{}
	for _, k := range keys {
		out[k] = vfTrunc(html.UnescapeString(f[k]), 1500)
	}
	out["status"] = f["status"]
	return out
}

func TestVerif_C16(t *testing.T) {
	run := vfNewRun(t, "C16", "exploration")
	run.SetRule("reverse-proxy off: 27 base requests (protected, skip-auth path, api route, preflight, auth-only, start, sign_in GET/POST, sign_out, callback invalid/error/valid, static, userinfo, ping, robots; anonymous and with session) " +
		"x all 2^6 subsets of {X-Forwarded-Host,-Proto,-Uri,-For, X-Real-IP, one other client-IP header} x value sets (hosts on/off the whitelist, addresses, URIs; plus 15 degenerate values — only separators, empty, white space, very long, non-ASCII, garbage — per single header and all together on a thinner slice) x 13 configurations (wire driver with hand-written HTTP/1.0 requests WITHOUT Host header, several cookie domains with a Host outside all of them (IP literal / internal name), trusted IPs, skip-auth/api routes, whitelist + cookie domains, relative/absolute redirect-url, cookie-secure, skip-provider-button, wire driver, force-https over plain HTTP, force-https with every request over a real TLS listener) x peers (untrusted, trusted, '@' = unix-socket listener, 'unix', v6 loopback); " +
		"reverse-proxy on: 5 configured real-client-IP headers x value of that header x subsets of all other forwarding headers, and 14 sibling client-address headers that cannot be configured (CF-Connecting-IPv6, True-Client-IP, Forwarded, ...) alone and together. cell = (config, endpoint, header subset, value set) / (rp-on, configured header, its value class, endpoint)")
	run.Assume("forwarding headers received by the upstream are excluded from the comparison (legitimately passed through; the proxy appends the peer to X-Forwarded-For)",
		"random parts are masked: nonce, code_challenge, the random half of state, cookie values, href of redirect bodies",
		"--cookie-secure instance is driven over plain HTTP by a harness that presents the Secure cookies anyway")
	w := vfNewWorld(t)
	defer w.Close()

	cfgs := c16Configs(w, run)
	eps := c16Endpoints()
	vsets := c16ValueSets(run.Env.Thorough())
	var execs []*c16Exec
	for k := range cfgs {
		cfg := &cfgs[k]
		flags := append([]string{}, cfg.Flags...)
		if cfg.TLS {
			c, key := c16PEM(t, w)
			flags = append(flags, "--tls-cert-file="+c, "--tls-key-file="+key)
		}
		p, err := w.NewProxy(flags...)
		if err != nil {
			t.Fatalf("config %s: %v", cfg.Name, err)
		}
		x := &c16Exec{Cfg: cfg, P: p, W: w}
		if cfg.Wire {
			p.Server()
		}
		if cfg.OverTLS {
			p.ServerTLS()
			b, target, err := x.startLoginTLS("/")
			if err != nil {
				t.Fatalf("config %s: %v", cfg.Name, err)
			}
			r := p.WireTLS(vfGET(target, "Cookie", vfCookieHeader(b.Jar.For(cfg.Host, "/oauth2/callback", true))).WithHost(cfg.Host))
			b.Jar.Apply(cfg.Host, "/oauth2/callback", r.SetCookies())
			cs := b.Jar.For(cfg.Host, "/", true)
			if r.Code != 302 || len(cs) == 0 {
				t.Fatalf("config %s: login over TLS: status %d, %d cookies", cfg.Name, r.Code, len(cs))
			}
			x.Cookie = vfCookieHeader(cs)
		} else if cfg.Lenient {
			cookie, target, err := x.startLoginLenient("/")
			if err != nil {
				t.Fatalf("config %s: %v", cfg.Name, err)
			}
			r := x.send(vfGET(target, "Cookie", cookie).WithHost(cfg.Host))
			x.Cookie = c16CookiePairs(r)
			if r.Code != 302 || x.Cookie == "" {
				t.Fatalf("config %s: login: status %d, cookies %q", cfg.Name, r.Code, x.Cookie)
			}
		} else if !cfg.NoAuth {
			b := vfNewBrowser(cfg.Host)
			b.HTTPS = cfg.HTTPS
			if _, _, err := b.Login(p, vfStdIdentity, "/"); err != nil {
				t.Fatalf("config %s: login: %v", cfg.Name, err)
			}
			cs := b.Jar.For(cfg.Host, "/", true)
			if len(cs) == 0 {
				t.Fatalf("config %s: no session cookie after login", cfg.Name)
			}
			x.Cookie = vfCookieHeader(cs)
		}
		execs = append(execs, x)
	}

	// every instance is built before the first request is served: option validation reconfigures the package-level
	// logger, which must not overlap with handler goroutines still finishing on the wire servers
	rpOn := c16BuildReverseProxyOn(run, w)
	// The repository's logger is package-level state configured by the LAST validated option set. Production runs with
	// request logging on (the default), and the request logger consults the request host for every request; the instance
	// built last therefore turns request logging on for the whole process (output is discarded by the rig).
	if _, err := w.NewProxy("--request-logging=true"); err != nil {
		t.Fatalf("logging instance: %v", err)
	}

	// ---- part 1: reverse-proxy off, pairs ---------------------------------------------------------------
	type job struct {
		x    *c16Exec
		ep   c16Endpoint
		peer string
	}
	var jobs []job
	for _, x := range execs {
		peers := x.Cfg.Peers
		if len(peers) == 0 {
			peers = []string{""}
		}
		for _, peer := range peers {
			for _, ep := range eps {
				if x.Cfg.NoAuth && (ep.Auth || ep.Flow != "") {
					continue
				}
				jobs = append(jobs, job{x, ep, peer})
			}
		}
	}
	seq := 0
	vfParallel(len(jobs), 16, func(ji int) {
		j := jobs[ji]
		cfg := j.x.Cfg
		idp := fmt.Sprintf("c16-%d", ji)
		baseReq, r0 := j.x.do(j.ep, j.peer, nil, idp+"-b0")
		base := c16Observe(w, r0, idp+"-b0")
		_, r1 := j.x.do(j.ep, j.peer, nil, idp+"-b1")
		again := c16Observe(w, r1, idp+"-b1")
		if d := c16Diff(base, again); len(d) > 0 {
			run.Inconclusive(fmt.Sprintf("base request not reproducible (%s %s: %v)", cfg.Name, j.ep.Name, d))
			return
		}
		if strings.HasPrefix(base.Fields["status"], "error") || base.Fields["status"] == "panic" {
			run.Inconclusive(fmt.Sprintf("base request failed (%s %s: %s)", cfg.Name, j.ep.Name, base.Fields["status"]))
			return
		}
		run.Count("base_requests", 1)
		run.Count("base_status_"+base.Fields["status"], 1)
		judge := func(hdr [][2]string, id, cell string) {
			req, resp := j.x.do(j.ep, j.peer, hdr, id)
			// "dial: ..." = the rig's own client could not connect to the instance's loopback listener (starved box): the proxy
			// never saw the request — a rig failure, not behaviour of the code under test. Retried; still failing = inconclusive.
			for try := 0; try < 2 && strings.HasPrefix(resp.Err, "dial:"); try++ {
				run.Count("rig_dial_failures_retried", 1)
				time.Sleep(200 * time.Millisecond)
				req, resp = j.x.do(j.ep, j.peer, hdr, fmt.Sprintf("%s-r%d", id, try))
			}
			if strings.HasPrefix(resp.Err, "dial:") {
				run.Inconclusive("rig: could not connect to the instance's listener (" + vfTrunc(resp.Err, 60) + ")")
				return
			}
			obs := c16Observe(w, resp, id)
			if j.peer == "@" {
				run.Count("pairs_with_unix_socket_peer", 1)
			}
			if cfg.Lenient && !cfg.HTTP10 {
				run.Count("pairs_with_host_outside_cookie_domains", 1)
			}
			if cfg.HTTP10 {
				run.Count("pairs_http10_without_host", 1)
			}
			run.Eval(cell)
			run.Count("pairs", 1)
			if cfg.OverTLS {
				run.Count("pairs_over_tls", 1)
				if obs.Fields["status"] != "308" {
					run.Count("pairs_over_tls_served_not_redirected", 1)
				}
			}
			if obs.Fields["upstream-hit"] != "0" {
				run.Count("pairs_reaching_upstream", 1)
			}
			if obs.Fields["location"] != "" {
				run.Count("pairs_with_redirect", 1)
			}
			if obs.Fields["set-cookie"] != "" {
				run.Count("pairs_with_set_cookie", 1)
			}
			d := c16Diff(base, obs)
			if len(d) == 0 {
				run.SampleEvery(3001, func() interface{} {
					return map[string]interface{}{"config": cfg.Name, "endpoint": j.ep.Name, "added": hdr, "status": obs.Fields["status"], "location": obs.Fields["location"], "state_redirect": obs.Fields["state-redirect"], "redirect_uri": obs.Fields["oauth-redirect-uri"], "set_cookie": obs.Fields["set-cookie"]}
				})
				return
			}
			raw := ""
			if req != nil {
				raw = string(req.Bytes())
			}
			driver := "direct"
			if cfg.Wire {
				driver = "wire"
			}
			if cfg.OverTLS {
				driver = "wire-tls"
			}
			if cfg.HTTP10 {
				driver = "wire, hand-written HTTP/1.0 request without Host header"
			}
			sig := c16Sig(d[0])
			note := ""
			if st := obs.Fields["status"]; st == "panic" || strings.HasPrefix(st, "error:") {
				// the handler panicked (direct driver) or the connection was dropped without a response (wire drivers)
				sig = "c16:panic-or-no-response-with-header"
				note = vfTrunc(resp.Panic+"\n"+resp.Stack, 4000)
			}
			shown := make([][2]string, len(hdr))
			for k, h := range hdr {
				shown[k] = [2]string{h[0], vfTrunc(h[1], 60)}
			}
			run.Violation(sig, fmt.Sprintf("reverse-proxy off, config %q, %s%s: adding %q changes %v (%q -> %q)", cfg.Name, j.ep.Name, c16PeerNote(j.peer), shown, d, vfTrunc(base.Fields[d[0]], 160), vfTrunc(obs.Fields[d[0]], 160)),
				c16Witness{Config: cfg.Name, Flags: j.x.P.Flags, Endpoint: j.ep.Name, Peer: j.peer, Driver: driver, Added: hdr, BaseRequest: baseReq, Request: req, RawRequest: vfTrunc(raw, 6000),
					Differing: d, Without: c16Pick(base.Fields, d), With: c16Pick(obs.Fields, d), Note: note})
		}
		for mask := 1; mask < 64; mask++ {
			for vi, vs := range vsets {
				// quick tier: one rotating value set per (subset, job) — every subset meets every value set across endpoints; the
				// expensive login flow gets every 4th subset (all single headers included)
				if !run.Env.Thorough() {
					if (mask+ji+int(run.Env.Seed))%len(vsets) != vi {
						continue
					}
					if j.ep.Flow != "" && mask&(mask-1) != 0 && mask%4 != 3 {
						continue
					}
				}
				judge(c16Headers(mask, vs, ji), fmt.Sprintf("%s-m%d-v%d", idp, mask, vi), fmt.Sprintf("%s|%s|peer=%s|subset=%02x|%s", cfg.Name, j.ep.Name, j.peer, mask, vs.Name))
			}
		}
		// degenerate VALUES (only separators, empty, white space, very long, non-ASCII, garbage) for every forwarding header
		// alone and for all of them together, on a thinner slice of base requests: first peer of the configuration and, in
		// the quick tier, the endpoint classes that consult host / scheme / URI / client address plus half of the values
		firstPeer := len(cfg.Peers) == 0 || j.peer == cfg.Peers[0]
		if !firstPeer || j.ep.Flow != "" || (!run.Env.Thorough() && !c16DegenerateEndpoint[j.ep.Name]) {
			return
		}
		for di, dv := range c16DegenerateValues {
			if !run.Env.Thorough() && (di+ji+int(run.Env.Seed))%2 != 0 {
				continue
			}
			for _, mask := range []int{1, 2, 4, 8, 16, 32, 63} {
				vs := c16ValueSet{Name: "degenerate:" + dv.Name, V: [6]string{dv.V, dv.V, dv.V, dv.V, dv.V, dv.V}}
				run.Count("pairs_with_degenerate_value", 1)
				judge(c16Headers(mask, vs, ji+di), fmt.Sprintf("%s-d%d-m%d", idp, di, mask), fmt.Sprintf("%s|%s|peer=%s|subset=%02x|%s", cfg.Name, j.ep.Name, j.peer, mask, vs.Name))
			}
		}
	})
	_ = seq
	w.Up.Reset()

	// ---- part 2: reverse-proxy on: only the configured client-IP header may move the trusted-IP decision ------------
	c16ReverseProxyOn(run, w, rpOn)

	if run.Counter("pairs_over_tls_served_not_redirected") < 800 {
		fmt.Printf("INCONCLUSIVE property=C16 reason=too few pairs over the TLS listener (%d served of %d)\n", run.Counter("pairs_over_tls_served_not_redirected"), run.Counter("pairs_over_tls"))
		t.Fail()
	}
	if run.Counter("pairs_http10_without_host") < 1000 || run.Counter("rp_on_sibling_pairs") < int64(run.Env.Pick(2000, 4000)) {
		fmt.Printf("INCONCLUSIVE property=C16 reason=too few HTTP/1.0 pairs without Host (%d) or reverse-proxy-on pairs with sibling client-address headers (%d)\n", run.Counter("pairs_http10_without_host"), run.Counter("rp_on_sibling_pairs"))
		t.Fail()
	}
	if run.Counter("pairs_with_degenerate_value") < int64(run.Env.Pick(3000, 20000)) {
		fmt.Printf("INCONCLUSIVE property=C16 reason=too few pairs with degenerate header values (%d)\n", run.Counter("pairs_with_degenerate_value"))
		t.Fail()
	}
	if run.Counter("pairs_with_unix_socket_peer") < 2000 || run.Counter("pairs_with_host_outside_cookie_domains") < 2000 {
		fmt.Printf("INCONCLUSIVE property=C16 reason=too few pairs with a unix-socket peer (%d) or a Host outside the cookie domains (%d)\n", run.Counter("pairs_with_unix_socket_peer"), run.Counter("pairs_with_host_outside_cookie_domains"))
		t.Fail()
	}
	if run.Counter("pairs_reaching_upstream") < 200 || run.Counter("pairs_with_redirect") < 500 || run.Counter("pairs_with_set_cookie") < 300 || run.Counter("rp_on_pairs") < 500 {
		fmt.Printf("INCONCLUSIVE property=C16 reason=too few observations of a kind (upstream %d, redirects %d, cookies %d, rp-on %d)\n",
			run.Counter("pairs_reaching_upstream"), run.Counter("pairs_with_redirect"), run.Counter("pairs_with_set_cookie"), run.Counter("rp_on_pairs"))
		t.Fail()
	}
	run.Finish(int64(run.Env.Pick(6000, 25000)), run.Env.Pick(3000, 12000))
}

// client-address headers other products use, none of which oauth2-proxy can be configured to read
var c16SiblingIPHeaders = []string{"CF-Connecting-IPv6", "True-Client-IP", "X-Client-IP", "X-Cluster-Client-IP", "Forwarded", "X-Original-Forwarded-For", "Fastly-Client-IP",
	"X-Forwarded", "Forwarded-For", "X-Real-IPv6", "X-Envoy-Internal-Address", "X-ProxyUser-IPv6", "X-Appengine-User-IP", "X-Azure-ClientIP"}

type c16RPInst struct {
	hdr string
	p   *vfProxy
}

func c16ClientIPHeaders() []string {
	return append(append([]string{}, c16FwdNames[3:]...), c16OtherIP...) // the five supported client-IP headers
}

func c16BuildReverseProxyOn(run *vfRun, w *vfWorld) []c16RPInst {
	var insts []c16RPInst
	for _, h := range c16ClientIPHeaders() {
		p, err := w.NewProxy("--reverse-proxy=true", "--real-client-ip-header="+h, "--trusted-ip=10.0.0.0/8", "--trusted-ip=2001:db8::/32")
		if err != nil {
			run.T.Fatalf("rp-on %s: %v", h, err)
		}
		insts = append(insts, c16RPInst{h, p})
	}
	return insts
}

func c16ReverseProxyOn(run *vfRun, w *vfWorld, insts []c16RPInst) {
	all := c16ClientIPHeaders()
	type inst = c16RPInst
	own := []struct{ Class, V string }{{"absent", ""}, {"trusted", "10.1.2.3"}, {"untrusted", "198.51.100.77"}, {"trusted-v6", "2001:db8::7"}, {"garbage", "not-an-ip"}, {"untrusted-then-trusted-list", "198.51.100.77, 10.1.2.3"},
		// RFC 7239 placeholders and other non-addresses a front proxy may put into the configured header (round 9)
		{"garbage-unknown", "unknown"}, {"garbage-unknown-upper", "UNKNOWN"}, {"garbage-obfuscated", "_hidden"}, {"garbage-blank", " "}, {"garbage-dash", "-"}}
	otherVals := []string{"10.1.2.3", "198.51.100.77", "10.9.9.9, 198.51.100.1", "2001:db8::1"}
	eps := []struct{ Name, Target string }{{"protected", "/app/x"}, {"auth-only", "/oauth2/auth"}}
	peers := []string{"203.0.113.9:1", "10.5.5.5:2"}
	type job struct {
		in   inst
		own  int
		ep   int
		peer int
	}
	var jobs []job
	for _, in := range insts {
		for o := range own {
			for e := range eps {
				for p := range peers {
					jobs = append(jobs, job{in, o, e, p})
				}
			}
		}
	}
	outcome := func(p *vfProxy, target, peer, id string, hdr [][2]string) (bool, *vfReq, int) {
		req := vfNewReq("GET", target, "X-Vf-Id", id).From(peer)
		req.Headers = append(req.Headers, hdr...)
		resp := p.Do(req)
		if target == "/oauth2/auth" {
			return resp.Code == 202, req, resp.Code
		}
		return len(w.Up.FindHit(id)) > 0, req, resp.Code
	}
	vfParallel(len(jobs), 16, func(ji int) {
		j := jobs[ji]
		var ownHdr [][2]string
		if own[j.own].V != "" {
			ownHdr = [][2]string{{j.in.hdr, own[j.own].V}}
		}
		id := fmt.Sprintf("c16rp-%d", ji)
		base, baseReq, baseCode := outcome(j.in.p, eps[j.ep].Target, peers[j.peer], id+"-b", ownHdr)
		// the probe must not be vacuous: the configured header decides
		switch own[j.own].Class {
		case "trusted", "trusted-v6":
			if !base {
				run.Inconclusive("rp-on: trusted address in the configured header is not exempted")
			}
			run.Count("rp_on_base_exempt", 1)
		case "untrusted", "absent", "garbage", "garbage-unknown", "garbage-unknown-upper", "garbage-obfuscated", "garbage-blank", "garbage-dash":
			if base {
				run.Inconclusive("rp-on: request without trusted address in the configured header is exempted")
			}
			run.Count("rp_on_base_not_exempt", 1)
		}
		// the others: the four other client-IP headers + X-Forwarded-Host/-Proto/-Uri
		var others []string
		for _, h := range all {
			if h != j.in.hdr {
				others = append(others, h)
			}
		}
		others = append(others, c16FwdNames[:3]...)
		// look-alike / sibling client-address headers that are NOT among the configurable ones: alone and all together, with
		// trusted and untrusted values, while the configured header stays fixed
		sibVals := append(append([]string{}, otherVals...), "198.51.100.9", "::ffff:10.1.2.3")
		for si := 0; si <= len(c16SiblingIPHeaders); si++ {
			for vi, sv := range sibVals {
				if !run.Env.Thorough() && si < len(c16SiblingIPHeaders) && (si+vi+ji+int(run.Env.Seed))%2 != 0 {
					continue
				}
				hdr := append([][2]string{}, ownHdr...)
				add := func(h string) {
					v := sv
					if h == "Forwarded" {
						v = "for=\"" + sv + "\";proto=https;host=trusted.internal"
					}
					if (si+vi)%2 == 0 {
						hdr = append([][2]string{{h, v}}, hdr...)
					} else {
						hdr = append(hdr, [2]string{h, v})
					}
				}
				label := "all-siblings"
				if si < len(c16SiblingIPHeaders) {
					add(c16SiblingIPHeaders[si])
					label = c16SiblingIPHeaders[si]
				} else {
					for _, h := range c16SiblingIPHeaders {
						add(h)
					}
				}
				got, req, code := outcome(j.in.p, eps[j.ep].Target, peers[j.peer], fmt.Sprintf("%s-s%d-v%d", id, si, vi), hdr)
				run.Eval(fmt.Sprintf("rp-on|configured=%s|own=%s|%s|peer=%d|sibling=%s|v%d", j.in.hdr, own[j.own].Class, eps[j.ep].Name, j.peer, label, vi))
				run.Count("rp_on_pairs", 1)
				run.Count("rp_on_sibling_pairs", 1)
				if got != base {
					run.Violation("c16:unconfigured-header-moves-trusted-ip-decision", fmt.Sprintf("reverse-proxy on, --real-client-ip-header=%s (%s: %q), %s: adding %v changes the trusted-IP outcome %v -> %v", j.in.hdr, own[j.own].Class, own[j.own].V, eps[j.ep].Name, hdr, base, got),
						map[string]interface{}{"flags": j.in.p.Flags, "base_request": baseReq, "base_status": baseCode, "base_exempt": base, "request": req, "raw_request": string(req.Bytes()), "status": code, "exempt": got})
				}
			}
		}
		step := run.Env.Pick(5, 1)
		for mask := 1; mask < 128; mask++ {
			if mask&(mask-1) != 0 && (mask+ji+int(run.Env.Seed))%step != 0 { // singles always, the rest sampled in quick (by seed)
				continue
			}
			for vi, ov := range otherVals {
				if !run.Env.Thorough() && (mask+ji+vi)%2 != 0 {
					continue
				}
				hdr := append([][2]string{}, ownHdr...)
				for k, h := range others {
					if mask&(1<<uint(k)) == 0 {
						continue
					}
					v := ov
					switch h {
					case "X-Forwarded-Host":
						v = "trusted.internal"
					case "X-Forwarded-Proto":
						v = "https"
					case "X-Forwarded-Uri":
						v = "/oauth2/sign_in"
					}
					// position: before or after the configured header
					if (mask+k)%2 == 0 {
						hdr = append([][2]string{{h, v}}, hdr...)
					} else {
						hdr = append(hdr, [2]string{h, v})
					}
				}
				got, req, code := outcome(j.in.p, eps[j.ep].Target, peers[j.peer], fmt.Sprintf("%s-m%d-v%d", id, mask, vi), hdr)
				run.Eval(fmt.Sprintf("rp-on|configured=%s|own=%s|%s|peer=%d|others=%02x", j.in.hdr, own[j.own].Class, eps[j.ep].Name, j.peer, mask))
				run.Count("rp_on_pairs", 1)
				if got != base {
					run.Violation("c16:unconfigured-header-moves-trusted-ip-decision", fmt.Sprintf("reverse-proxy on, --real-client-ip-header=%s (%s: %q), %s: adding %v changes the trusted-IP outcome %v -> %v", j.in.hdr, own[j.own].Class, own[j.own].V, eps[j.ep].Name, hdr, base, got),
						map[string]interface{}{"flags": j.in.p.Flags, "base_request": baseReq, "base_status": baseCode, "base_exempt": base, "request": req, "raw_request": string(req.Bytes()), "status": code, "exempt": got})
				}
			}
		}
	})
	w.Up.Reset()
}
