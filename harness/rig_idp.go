//go:build verif

package main

// rig_idp: a fake OpenID Connect provider on loopback with real RSA signatures.
//  - discovery, JWKS, token endpoint (authorization_code with PKCE verification like a real provider;
//    refresh_token with rotating single-use tokens and family revocation on reuse), userinfo
//  - /authorize is "called" by the harness acting as the browser: Authorize(loginURL, identity) -> code
//  - every call is recorded (events), and a per-call hook can gate (block) or script a reply (faults)
//  - token minting API for hostile tokens

import (
	"crypto"
	"crypto/ecdsa"
	"crypto/elliptic"
	"crypto/hmac"
	"crypto/rand"
	"crypto/rsa"
	"crypto/sha256"
	"crypto/x509"
	"encoding/base64"
	"encoding/json"
	"encoding/pem"
	"fmt"
	"net"
	"net/http"
	"net/http/httptest"
	"net/url"
	"strings"
	"sync"
	"sync/atomic"
	"time"

	jose "github.com/go-jose/go-jose/v3"
)

var (
	vfKeysOnce sync.Once
	vfKeyA     *rsa.PrivateKey // the issuer's key, kid "k1"
	vfKeyB     *rsa.PrivateKey // a foreign key
	vfKeyEC    *ecdsa.PrivateKey
)

func vfKeys() {
	vfKeysOnce.Do(func() {
		var err error
		if vfKeyA, err = rsa.GenerateKey(rand.Reader, 2048); err != nil {
			panic(err)
		}
		if vfKeyB, err = rsa.GenerateKey(rand.Reader, 2048); err != nil {
			panic(err)
		}
		if vfKeyEC, err = ecdsa.GenerateKey(elliptic.P256(), rand.Reader); err != nil {
			panic(err)
		}
	})
}

type vfIdentity struct {
	Sub               string
	Email             string
	EmailVerified     *bool
	Groups            []string
	PreferredUsername string
	Extra             map[string]interface{} // extra / overriding ID-token claims (nil value deletes the claim)
	Profile           map[string]interface{} // what /userinfo returns (default: distinct "profile-*" values)
	NoRefreshToken    bool
}

type vfIdPEvent struct {
	Seq    int
	Kind   string // discovery | jwks | authorize | token.code | token.refresh | userinfo | other
	Path   string
	Params url.Values
	Auth   string // Authorization header
	// outcome (filled after handling)
	Status int
	Note   string
}

// vfIdPReply scripts a response instead of the default behaviour.
type vfIdPReply struct {
	Status      int
	ContentType string
	Body        []byte
	Raw         []byte        // written verbatim on the hijacked connection, which is then closed (hostile framing)
	Reset       bool          // close the connection without a response
	Stall       time.Duration // wait before answering (or before resetting)
}

type vfAuthReq struct {
	Seq      int
	Params   url.Values // the authorization request as the browser delivered it
	Identity vfIdentity
	Code     string
	Redeemed int
}

type vfRefreshTok struct {
	Family string
	Ident  vfIdentity
	Used   bool
	Nonce  string
}

type vfIdP struct {
	Srv    *httptest.Server
	Issuer string

	mu       sync.Mutex
	events   []*vfIdPEvent
	seq      int
	codes    map[string]*vfAuthReq
	authReqs []*vfAuthReq
	refresh  map[string]*vfRefreshTok
	revoked  map[string]bool // families
	liveAT   map[string]string // access token -> sub   (live ones)
	deadAT   map[string]bool
	atIdent  map[string]vfIdentity
	famAT    map[string]string // refresh-token family -> access token currently live for it
	ctr      int
	openConns int64

	cfg vfIdPCfg
}

// vfIdPCfg holds everything a property may script; it is read and written under the IdP mutex (Set / conf)
// so that the rig itself is race-free.
type vfIdPCfg struct {
	// Hook is consulted first for every call; it may block (gate) and may return a scripted reply.
	Hook func(ev *vfIdPEvent) *vfIdPReply
	// MutateIDClaims lets a property alter the claims of the ID token issued by the token endpoint.
	MutateIDClaims func(grant string, ar *vfAuthReq, claims map[string]interface{})
	// MintOverride, when set, replaces the ID token issued by the token endpoint (return "",true to omit id_token).
	MintOverride func(grant string, claims map[string]interface{}) (string, bool)
	// TokenResponseMutate lets a property alter the JSON token response.
	TokenResponseMutate func(grant string, resp map[string]interface{})
	IDTokenTTL          time.Duration
	ExtraJWKS           []jose.JSONWebKey
	NoRefreshRotation   bool
	RefreshFails        bool // refresh grant answers 400 invalid_grant
	ChallengeMethods    []string // code_challenge_methods_supported in the discovery document (nil: S256 and plain); read when an instance is built
	RefreshOmitsNonce   bool // ID tokens from refresh grants carry no nonce (default: the original nonce is echoed, as OIDC Core 12.2 permits)
	ClientID            string
	Audience            interface{} // default: ClientID
}

func (i *vfIdP) Set(f func(c *vfIdPCfg)) { i.mu.Lock(); f(&i.cfg); i.mu.Unlock() }
func (i *vfIdP) conf() vfIdPCfg          { i.mu.Lock(); defer i.mu.Unlock(); return i.cfg }

func vfNewIdP() *vfIdP {
	vfKeys()
	i := &vfIdP{codes: map[string]*vfAuthReq{}, refresh: map[string]*vfRefreshTok{}, revoked: map[string]bool{}, liveAT: map[string]string{},
		deadAT: map[string]bool{}, atIdent: map[string]vfIdentity{}, famAT: map[string]string{}, cfg: vfIdPCfg{IDTokenTTL: time.Hour, ClientID: "cid"}}
	mux := http.NewServeMux()
	mux.HandleFunc("/", i.serve)
	i.Srv = httptest.NewUnstartedServer(mux)
	i.Srv.Config.ConnState = func(c net.Conn, st http.ConnState) { // open-connection gauge (leak monitor for C14)
		switch st {
		case http.StateNew:
			atomic.AddInt64(&i.openConns, 1)
		case http.StateClosed, http.StateHijacked:
			atomic.AddInt64(&i.openConns, -1)
		}
	}
	i.Srv.Start()
	i.Issuer = i.Srv.URL
	return i
}

// OpenConns: connections currently open at the IdP's server (accepted and not yet closed).
func (i *vfIdP) OpenConns() int64 { return atomic.LoadInt64(&i.openConns) }

func (i *vfIdP) Close() { i.Srv.CloseClientConnections(); i.Srv.Close() }

func (i *vfIdP) record(kind string, r *http.Request) *vfIdPEvent {
	_ = r.ParseForm()
	i.mu.Lock()
	i.seq++
	ev := &vfIdPEvent{Seq: i.seq, Kind: kind, Path: r.URL.Path, Params: r.Form, Auth: r.Header.Get("Authorization")}
	i.events = append(i.events, ev)
	i.mu.Unlock()
	return ev
}

func (i *vfIdP) evSet(ev *vfIdPEvent, f func()) { i.mu.Lock(); f(); i.mu.Unlock() }

func (i *vfIdP) Events() []vfIdPEvent {
	i.mu.Lock()
	defer i.mu.Unlock()
	out := make([]vfIdPEvent, len(i.events))
	for k, e := range i.events {
		out[k] = *e
	}
	return out
}

func (i *vfIdP) EventCount(kind string) int {
	i.mu.Lock()
	defer i.mu.Unlock()
	n := 0
	for _, e := range i.events {
		if e.Kind == kind {
			n++
		}
	}
	return n
}

func (i *vfIdP) AuthReqs() []vfAuthReq {
	i.mu.Lock()
	defer i.mu.Unlock()
	out := make([]vfAuthReq, len(i.authReqs))
	for k, e := range i.authReqs {
		out[k] = *e
	}
	return out
}

func (i *vfIdP) serve(w http.ResponseWriter, r *http.Request) {
	kind := "other"
	switch {
	case r.URL.Path == "/.well-known/openid-configuration":
		kind = "discovery"
	case r.URL.Path == "/jwks":
		kind = "jwks"
	case r.URL.Path == "/token" || strings.HasPrefix(r.URL.Path, "/token/"):
		_ = r.ParseForm()
		if r.Form.Get("grant_type") == "refresh_token" {
			kind = "token.refresh"
		} else {
			kind = "token.code"
		}
	case r.URL.Path == "/userinfo" || strings.HasPrefix(r.URL.Path, "/userinfo/"):
		kind = "userinfo"
	}
	ev := i.record(kind, r)
	if h := i.conf().Hook; h != nil {
		if rep := h(ev); rep != nil {
			i.scripted(w, r, ev, rep)
			return
		}
	}
	switch kind {
	case "discovery":
		methods := i.conf().ChallengeMethods
		if methods == nil {
			methods = []string{"S256", "plain"}
		}
		i.writeJSON(w, ev, 200, map[string]interface{}{
			"issuer": i.Issuer, "authorization_endpoint": i.Issuer + "/authorize", "token_endpoint": i.Issuer + "/token",
			"jwks_uri": i.Issuer + "/jwks", "userinfo_endpoint": i.Issuer + "/userinfo",
			"id_token_signing_alg_values_supported": []string{"RS256"}, "code_challenge_methods_supported": methods,
		})
	case "jwks":
		keys := []jose.JSONWebKey{{Key: &vfKeyA.PublicKey, KeyID: "k1", Algorithm: "RS256", Use: "sig"}}
		keys = append(keys, i.conf().ExtraJWKS...)
		i.writeJSON(w, ev, 200, jose.JSONWebKeySet{Keys: keys})
	case "token.code":
		i.tokenCode(w, r, ev)
	case "token.refresh":
		i.tokenRefresh(w, r, ev)
	case "userinfo":
		i.userinfo(w, r, ev)
	default:
		i.evSet(ev, func() { ev.Status = 404 })
		http.NotFound(w, r)
	}
}

func (i *vfIdP) scripted(w http.ResponseWriter, r *http.Request, ev *vfIdPEvent, rep *vfIdPReply) {
	if rep.Stall > 0 {
		select {
		case <-time.After(rep.Stall):
		case <-r.Context().Done():
		}
	}
	if rep.Raw != nil {
		i.evSet(ev, func() { ev.Status = -2; ev.Note = "raw" })
		if hj, ok := w.(http.Hijacker); ok {
			if c, _, err := hj.Hijack(); err == nil {
				_, _ = c.Write(rep.Raw)
				_ = c.Close()
			}
		}
		return
	}
	if rep.Reset {
		i.evSet(ev, func() { ev.Status = -1 })
		if hj, ok := w.(http.Hijacker); ok {
			c, _, err := hj.Hijack()
			if err == nil {
				if tc, ok := c.(*net.TCPConn); ok {
					_ = tc.SetLinger(0)
				}
				_ = c.Close()
			}
		}
		return
	}
	ct := rep.ContentType
	if ct == "" {
		ct = "application/json"
	}
	w.Header().Set("Content-Type", ct)
	st := rep.Status
	if st == 0 {
		st = 200
	}
	i.evSet(ev, func() { ev.Status = st })
	i.evSet(ev, func() { ev.Note = "scripted" })
	w.WriteHeader(st)
	_, _ = w.Write(rep.Body)
}

func (i *vfIdP) writeJSON(w http.ResponseWriter, ev *vfIdPEvent, status int, v interface{}) {
	w.Header().Set("Content-Type", "application/json")
	i.evSet(ev, func() { ev.Status = status })
	w.WriteHeader(status)
	_ = json.NewEncoder(w).Encode(v)
}

func (i *vfIdP) oauthErr(w http.ResponseWriter, ev *vfIdPEvent, code, desc string) {
	i.evSet(ev, func() { ev.Note = code + ": " + desc })
	i.writeJSON(w, ev, 400, map[string]string{"error": code, "error_description": desc})
}

// Authorize plays the provider's authorization endpoint for the browser: it takes the Location the proxy
// redirected to, records the request and returns an authorization code bound to it.
func (i *vfIdP) Authorize(loginURL string, id vfIdentity) (code string, ar *vfAuthReq, err error) {
	u, err := url.Parse(loginURL)
	if err != nil {
		return "", nil, err
	}
	if !strings.HasPrefix(loginURL, i.Issuer+"/authorize") {
		return "", nil, fmt.Errorf("login URL %q is not the authorization endpoint", loginURL)
	}
	q := u.Query()
	i.mu.Lock()
	defer i.mu.Unlock()
	i.seq++
	i.ctr++
	code = fmt.Sprintf("code-%d-%s", i.ctr, vfRandHex(6))
	ar = &vfAuthReq{Seq: i.seq, Params: q, Identity: id, Code: code}
	i.codes[code] = ar
	i.authReqs = append(i.authReqs, ar)
	i.events = append(i.events, &vfIdPEvent{Seq: i.seq, Kind: "authorize", Path: u.Path, Params: q, Status: 302})
	return code, ar, nil
}

func vfRandHex(n int) string {
	b := make([]byte, n)
	_, _ = rand.Read(b)
	return fmt.Sprintf("%x", b)
}

func (i *vfIdP) claimsFor(id vfIdentity, nonce string) map[string]interface{} {
	now := time.Now()
	cf := i.conf()
	aud := cf.Audience
	if aud == nil {
		aud = cf.ClientID
	}
	c := map[string]interface{}{"iss": i.Issuer, "aud": aud, "sub": id.Sub, "exp": now.Add(cf.IDTokenTTL).Unix(), "iat": now.Unix(), "jti": vfRandHex(6)}
	if id.Email != "" {
		c["email"] = id.Email
	}
	if id.EmailVerified != nil {
		c["email_verified"] = *id.EmailVerified
	}
	if id.Groups != nil {
		c["groups"] = id.Groups
	}
	if id.PreferredUsername != "" {
		c["preferred_username"] = id.PreferredUsername
	}
	if nonce != "" {
		c["nonce"] = nonce
	}
	for k, v := range id.Extra {
		if v == nil {
			delete(c, k)
		} else {
			c[k] = v
		}
	}
	return c
}

func (i *vfIdP) issue(w http.ResponseWriter, ev *vfIdPEvent, grant string, ar *vfAuthReq, id vfIdentity, nonce, family string) {
	claims := i.claimsFor(id, nonce)
	cf := i.conf()
	if f := cf.MutateIDClaims; f != nil {
		f(grant, ar, claims)
	}
	var idTok string
	omit := false
	if f := cf.MintOverride; f != nil {
		if t, ok := f(grant, claims); ok {
			idTok = t
			omit = t == ""
		}
	}
	if idTok == "" && !omit {
		idTok = vfMint(claims, vfMintOpts{})
	}
	i.mu.Lock()
	i.ctr++
	at := fmt.Sprintf("at-%d-%s", i.ctr, vfRandHex(8))
	i.liveAT[at] = id.Sub
	i.atIdent[at] = id
	resp := map[string]interface{}{"access_token": at, "token_type": "Bearer", "expires_in": 3600}
	if !omit {
		resp["id_token"] = idTok
	}
	if !id.NoRefreshToken {
		rt := fmt.Sprintf("rt-%d-%s", i.ctr, vfRandHex(8))
		if family == "" {
			family = "fam-" + vfRandHex(4)
		}
		i.refresh[rt] = &vfRefreshTok{Family: family, Ident: id, Nonce: nonce}
		resp["refresh_token"] = rt
		if prev := i.famAT[family]; prev != "" {
			delete(i.liveAT, prev) // a refresh supersedes the family's previous access token
			i.deadAT[prev] = true
		}
		i.famAT[family] = at
	}
	i.mu.Unlock()
	if f := cf.TokenResponseMutate; f != nil {
		f(grant, resp)
	}
	i.evSet(ev, func() { ev.Note = "issued " + at })
	i.writeJSON(w, ev, 200, resp)
}

func (i *vfIdP) tokenCode(w http.ResponseWriter, r *http.Request, ev *vfIdPEvent) {
	code := r.Form.Get("code")
	i.mu.Lock()
	ar := i.codes[code]
	if ar != nil {
		ar.Redeemed++
	}
	i.mu.Unlock()
	if ar == nil {
		i.oauthErr(w, ev, "invalid_grant", "unknown code")
		return
	}
	if ar.Redeemed > 1 {
		i.oauthErr(w, ev, "invalid_grant", "code already used")
		return
	}
	// redirect_uri must equal the one of the authorization request
	if got, want := r.Form.Get("redirect_uri"), ar.Params.Get("redirect_uri"); got != want {
		i.oauthErr(w, ev, "invalid_grant", fmt.Sprintf("redirect_uri mismatch %q vs %q", got, want))
		return
	}
	// PKCE as a real provider does it
	if ch := ar.Params.Get("code_challenge"); ch != "" {
		ver := r.Form.Get("code_verifier")
		okPKCE := false
		switch ar.Params.Get("code_challenge_method") {
		case "S256":
			s := sha256.Sum256([]byte(ver))
			okPKCE = base64.RawURLEncoding.EncodeToString(s[:]) == ch
		case "plain", "":
			okPKCE = ver == ch
		}
		if !okPKCE {
			i.oauthErr(w, ev, "invalid_grant", "PKCE verification failed")
			return
		}
	}
	i.issue(w, ev, "code", ar, ar.Identity, ar.Params.Get("nonce"), "")
}

func (i *vfIdP) tokenRefresh(w http.ResponseWriter, r *http.Request, ev *vfIdPEvent) {
	rt := r.Form.Get("refresh_token")
	cf := i.conf()
	i.mu.Lock()
	if cf.RefreshFails {
		i.mu.Unlock()
		i.oauthErr(w, ev, "invalid_grant", "refresh disabled by script")
		return
	}
	tok := i.refresh[rt]
	if tok == nil {
		i.mu.Unlock()
		i.oauthErr(w, ev, "invalid_grant", "unknown refresh token")
		return
	}
	if i.revoked[tok.Family] {
		i.mu.Unlock()
		i.oauthErr(w, ev, "invalid_grant", "token family revoked")
		return
	}
	if tok.Used && !cf.NoRefreshRotation {
		// reuse of a rotated token: revoke the whole family including its access tokens
		i.revoked[tok.Family] = true
		i.mu.Unlock()
		i.oauthErr(w, ev, "invalid_grant", "refresh token reuse detected; family revoked")
		return
	}
	tok.Used = true
	id, fam, nonce := tok.Ident, tok.Family, tok.Nonce
	i.mu.Unlock()
	if cf.RefreshOmitsNonce {
		nonce = ""
	}
	i.issue(w, ev, "refresh", nil, id, nonce, fam)
}

func (i *vfIdP) userinfo(w http.ResponseWriter, r *http.Request, ev *vfIdPEvent) {
	at := strings.TrimPrefix(r.Header.Get("Authorization"), "Bearer ")
	i.mu.Lock()
	id, ok := i.atIdent[at]
	i.mu.Unlock()
	if !ok {
		i.evSet(ev, func() { ev.Note = "unknown access token" })
		i.writeJSON(w, ev, 401, map[string]string{"error": "invalid_token"})
		return
	}
	prof := id.Profile
	if prof == nil {
		// deliberately different from the ID token's values so a wrong precedence is visible
		prof = map[string]interface{}{"sub": "profile-" + id.Sub, "email": "profile-" + id.Sub + "@profile.test", "groups": []string{"profile-group"}, "preferred_username": "profile-" + id.Sub + "-pu"}
	}
	i.writeJSON(w, ev, 200, prof)
}

// ATState tells whether the provider considers an access token live, superseded/revoked ("dead") or never issued.
func (i *vfIdP) ATState(at string) string {
	i.mu.Lock()
	defer i.mu.Unlock()
	if _, ok := i.liveAT[at]; ok {
		for fam, cur := range i.famAT {
			if cur == at && i.revoked[fam] {
				return "dead"
			}
		}
		return "live"
	}
	if i.deadAT[at] {
		return "dead"
	}
	return "unknown"
}

// RefreshGrants counts refresh grants that were received (attempted), and those that succeeded.
func (i *vfIdP) RefreshGrants() (attempted, ok int) {
	i.mu.Lock()
	defer i.mu.Unlock()
	for _, e := range i.events {
		if e.Kind == "token.refresh" {
			attempted++
			if e.Status == 200 {
				ok++
			}
		}
	}
	return
}

// ---------------------------------------------------------------------------------------------------------
// minting

type vfMintOpts struct {
	Alg     string      // RS256 (default) | none | HS256 | ES256
	Key     interface{} // signing key; default vfKeyA
	Kid     string      // default k1; "-" = no kid
	HMACKey []byte
	BadSig  bool // replace the signature by that of another payload
}

func vfB64(b []byte) string { return base64.RawURLEncoding.EncodeToString(b) }

func vfMint(claims map[string]interface{}, o vfMintOpts) string {
	vfKeys()
	alg := o.Alg
	if alg == "" {
		alg = "RS256"
	}
	kid := o.Kid
	if kid == "" {
		kid = "k1"
	}
	hdr := map[string]interface{}{"alg": alg, "typ": "JWT"}
	if kid != "-" {
		hdr["kid"] = kid
	}
	hb, _ := json.Marshal(hdr)
	pb, _ := json.Marshal(claims)
	signing := vfB64(hb) + "." + vfB64(pb)
	var sig []byte
	switch alg {
	case "none":
		sig = nil
	case "HS256":
		m := hmac.New(sha256.New, o.HMACKey)
		m.Write([]byte(signing))
		sig = m.Sum(nil)
	case "ES256":
		h := sha256.Sum256([]byte(signing))
		r, s, _ := ecdsa.Sign(rand.Reader, vfKeyEC, h[:])
		sig = append(r.FillBytes(make([]byte, 32)), s.FillBytes(make([]byte, 32))...)
	default:
		k := vfKeyA
		if kk, ok := o.Key.(*rsa.PrivateKey); ok && kk != nil {
			k = kk
		}
		h := sha256.Sum256([]byte(signing))
		sig, _ = rsa.SignPKCS1v15(rand.Reader, k, crypto.SHA256, h[:])
	}
	if o.BadSig && len(sig) > 0 {
		sig[len(sig)/2] ^= 0x55
	}
	return signing + "." + vfB64(sig)
}

func vfPubPEM(k *rsa.PublicKey) []byte {
	b, _ := x509.MarshalPKIXPublicKey(k)
	return pem.EncodeToMemory(&pem.Block{Type: "PUBLIC KEY", Bytes: b})
}

func vfPubDER(k *rsa.PublicKey) []byte {
	b, _ := x509.MarshalPKIXPublicKey(k)
	return b
}

func vfJWTClaims(tok string) map[string]interface{} {
	parts := strings.Split(tok, ".")
	if len(parts) < 2 {
		return nil
	}
	b, err := base64.RawURLEncoding.DecodeString(parts[1])
	if err != nil {
		return nil
	}
	var m map[string]interface{}
	if json.Unmarshal(b, &m) != nil {
		return nil
	}
	return m
}

func vfBoolPtr(b bool) *bool { return &b }
