//go:build verif

package main

// rig_world: builds real proxy instances through the same path as main() and drives them
//   (a) directly: ServeHTTP on a request parsed by net/http from raw bytes, inside recover()
//   (b) over the wire: real http.Server on loopback + raw socket client
// plus fake upstreams and a miniredis server.

import (
	"bufio"
	"bytes"
	"context"
	"crypto/sha1"
	"crypto/tls"
	"encoding/base64"
	"fmt"
	"io"
	"log"
	"net"
	"net/http"
	"net/http/httptest"
	"os"
	"path/filepath"
	"runtime/debug"
	"sort"
	"strings"
	"sync"
	"sync/atomic"
	"testing"
	"time"

	"github.com/alicebob/miniredis/v2"
	"github.com/oauth2-proxy/oauth2-proxy/v7/pkg/apis/options"
	"github.com/oauth2-proxy/oauth2-proxy/v7/pkg/validation"
	"github.com/spf13/pflag"
	"golang.org/x/net/http/httpguts"
)

const vfSecret32 = "0123456789abcdef0123456789abcdef"

// ---------------------------------------------------------------------------------------------------------
// upstream

type vfUpHit struct {
	Seq        int64
	Upstream   string
	Method     string
	RequestURI string
	Host       string
	Header     http.Header
	Body       []byte
}

type vfUpstream struct {
	Name string
	Srv  *httptest.Server
	mu   sync.Mutex
	hits []vfUpHit
	byID map[string][]int
	// Respond may script the response; default "upstream-<name>" 200
	respond func(w http.ResponseWriter, r *http.Request, body []byte)
}

var vfUpSeq int64

func vfNewUpstream(name string) *vfUpstream {
	u := &vfUpstream{Name: name}
	u.Srv = httptest.NewServer(http.HandlerFunc(func(w http.ResponseWriter, r *http.Request) {
		body, _ := io.ReadAll(r.Body)
		h := vfUpHit{Seq: atomic.AddInt64(&vfUpSeq, 1), Upstream: name, Method: r.Method, RequestURI: r.RequestURI, Host: r.Host, Header: r.Header.Clone(), Body: body}
		u.mu.Lock()
		u.hits = append(u.hits, h)
		if id := h.Header.Get("X-Vf-Id"); id != "" {
			if u.byID == nil {
				u.byID = map[string][]int{}
			}
			u.byID[id] = append(u.byID[id], len(u.hits)-1)
		}
		f := u.respond
		u.mu.Unlock()
		if f != nil {
			f(w, r, body)
			return
		}
		w.Header().Set("X-Upstream", name)
		_, _ = w.Write([]byte("upstream-" + name))
	}))
	return u
}

func (u *vfUpstream) SetRespond(f func(w http.ResponseWriter, r *http.Request, body []byte)) {
	u.mu.Lock()
	u.respond = f
	u.mu.Unlock()
}
func (u *vfUpstream) URL() string { return u.Srv.URL }
func (u *vfUpstream) Hits() []vfUpHit {
	u.mu.Lock()
	defer u.mu.Unlock()
	return append([]vfUpHit{}, u.hits...)
}
func (u *vfUpstream) HitCount() int { u.mu.Lock(); defer u.mu.Unlock(); return len(u.hits) }
func (u *vfUpstream) Reset()        { u.mu.Lock(); u.hits = nil; u.byID = nil; u.mu.Unlock() }

// FindHit returns the hits whose header X-Vf-Id equals id.
func (u *vfUpstream) FindHit(id string) []vfUpHit {
	u.mu.Lock()
	defer u.mu.Unlock()
	var out []vfUpHit
	for _, k := range u.byID[id] {
		out = append(out, u.hits[k])
	}
	return out
}
func (u *vfUpstream) Close() { u.Srv.CloseClientConnections(); u.Srv.Close() }

// ---------------------------------------------------------------------------------------------------------
// world

type vfWorld struct {
	T    testing.TB
	Dir  string
	IdP  *vfIdP
	Up   *vfUpstream // default upstream "main"
	Ups  map[string]*vfUpstream
	MR   *miniredis.Miniredis
	mu   sync.Mutex
	ctr  int
	cleanup []func()
}

func vfNewWorld(t testing.TB) *vfWorld {
	vfQuiet()
	e := vfEnv()
	_ = os.MkdirAll(e.WorkDir, 0o755)
	dir, err := os.MkdirTemp(e.WorkDir, "w")
	if err != nil {
		t.Fatalf("workdir: %v", err)
	}
	w := &vfWorld{T: t, Dir: dir, IdP: vfNewIdP(), Ups: map[string]*vfUpstream{}}
	w.Up = w.Upstream("main")
	return w
}

func (w *vfWorld) Upstream(name string) *vfUpstream {
	w.mu.Lock()
	defer w.mu.Unlock()
	if u, ok := w.Ups[name]; ok {
		return u
	}
	u := vfNewUpstream(name)
	w.Ups[name] = u
	return u
}

func (w *vfWorld) Redis() *miniredis.Miniredis {
	w.mu.Lock()
	defer w.mu.Unlock()
	if w.MR == nil {
		mr, err := miniredis.Run()
		if err != nil {
			w.T.Fatalf("miniredis: %v", err)
		}
		w.MR = mr
	}
	return w.MR
}

func (w *vfWorld) RedisURL() string { return "redis://" + w.Redis().Addr() + "/0?protocol=2" }

// RedisModeFlags: flags selecting the world's miniredis through the standalone, cluster or sentinel client of oauth2-proxy
// (miniredis answers CLUSTER SLOTS with its own address; for "sentinel" a fake sentinel names miniredis as the master).
func (w *vfWorld) RedisModeFlags(mode string) []string {
	switch mode {
	case "cluster":
		return []string{"--redis-use-cluster=true", "--redis-cluster-connection-urls=redis://" + w.Redis().Addr()}
	case "sentinel":
		s := vfNewSentinel("vfmaster", w.Redis().Addr()) // stays up until the process ends (abandoned failover clients would re-dial in a loop)
		return []string{"--redis-use-sentinel=true", "--redis-sentinel-master-name=vfmaster", "--redis-sentinel-connection-urls=redis://" + s.Addr()}
	}
	return []string{"--redis-connection-url=" + w.RedisURL()}
}

func (w *vfWorld) OnClose(f func()) { w.mu.Lock(); w.cleanup = append(w.cleanup, f); w.mu.Unlock() }

func (w *vfWorld) Close() {
	w.mu.Lock()
	cl := w.cleanup
	w.cleanup = nil
	w.mu.Unlock()
	for k := len(cl) - 1; k >= 0; k-- {
		cl[k]()
	}
	w.IdP.Close()
	for _, u := range w.Ups {
		u.Close()
	}
	if w.MR != nil {
		w.MR.Close()
	}
	_ = os.RemoveAll(w.Dir)
}

func (w *vfWorld) File(name, content string) string {
	p := filepath.Join(w.Dir, name)
	if err := os.WriteFile(p, []byte(content), 0o600); err != nil {
		w.T.Fatalf("write %s: %v", p, err)
	}
	return p
}

// BaseFlags: a generic-OIDC proxy against the world's IdP and default upstream, cookie store, http (no TLS).
func (w *vfWorld) BaseFlags() []string {
	return []string{
		"--provider=oidc", "--oidc-issuer-url=" + w.IdP.Issuer, "--client-id=cid", "--client-secret=sec",
		"--cookie-secret=" + vfSecret32, "--email-domain=*", "--upstream=" + w.Up.URL() + "/",
		"--cookie-secure=false", "--insecure-oidc-skip-nonce=false", "--http-address=-",
		"--standard-logging=false", "--auth-logging=false", "--request-logging=false",
	}
}

type vfProxy struct {
	W       *vfWorld
	P       *OAuthProxy
	Opts    *options.Options
	Flags   []string
	Alpha   string
	Handler http.Handler
	srvOnce sync.Once
	srv     *httptest.Server
	tlsOnce sync.Once
	tlsSrv  *httptest.Server
	srvLog  *vfLogBuf
	// OnResp, when set (before any request is served), sees every request/response pair of the direct driver —
	// including those issued inside Login/StartLogin
	OnResp func(r *vfReq, resp *vfResp)
}

// vfMergeFlags: later flags override earlier single-valued ones with the same name; flags listed in multi are kept.
func vfMergeFlags(base []string, extra ...string) []string {
	multi := map[string]bool{"--upstream": true, "--skip-auth-route": true, "--skip-auth-regex": true, "--trusted-ip": true, "--whitelist-domain": true,
		"--cookie-domain": true, "--email-domain": true, "--allowed-group": true, "--extra-jwt-issuers": true, "--oidc-extra-audience": true,
		"--oidc-audience-claim": true, "--api-route": true, "--oidc-public-key-file": true, "--htpasswd-user-group": true}
	name := func(f string) string {
		if k := strings.IndexByte(f, '='); k >= 0 {
			return f[:k]
		}
		return f
	}
	over := map[string]bool{}
	for _, f := range extra {
		over[name(f)] = true
	}
	var out []string
	for _, f := range base {
		if over[name(f)] {
			continue // an extra flag of that name replaces the base ones (multi flags too: the caller restates them)
		}
		out = append(out, f)
	}
	_ = multi
	return append(out, extra...)
}

// NewProxy builds an instance exactly like main(): flag parsing -> loadConfiguration -> validation.Validate ->
// NewValidator -> NewOAuthProxy. flags are merged over BaseFlags.
func (w *vfWorld) NewProxy(flags ...string) (*vfProxy, error) {
	return w.NewProxyAlpha("", flags...)
}

// Option loading and validation use package-level state (viper/pflag, and validation.Validate reconfigures the global
// logger): instances are built one at a time and never while a request is being served (a real process configures
// once before serving, so overlapping the two would manufacture races the program cannot have). Drivers hold the
// read side for the duration of a request.
var vfBuildMu sync.RWMutex

func (w *vfWorld) NewProxyAlpha(alphaYAML string, flags ...string) (*vfProxy, error) {
	return w.NewProxyRaw(alphaYAML, vfMergeFlags(w.BaseFlags(), flags...))
}

// AlphaBaseFlags: the legacy flags that remain legal next to an alpha config (providers, upstreams, injected
// headers and server settings then live in the YAML; see AlphaYAML for a matching skeleton).
func (w *vfWorld) AlphaBaseFlags() []string {
	return []string{"--cookie-secret=" + vfSecret32, "--email-domain=*", "--cookie-secure=false",
		"--standard-logging=false", "--auth-logging=false", "--request-logging=false"}
}

// AlphaYAML renders a minimal alpha configuration for the world's IdP; upstreams / extra are YAML fragments
// (top-level keys) supplied by the caller, e.g. upstreams = "upstreamConfig:\n  upstreams:\n  - id: main\n    path: /\n    uri: http://…\n".
// NB: the file is environment-substituted by the loader: write a regexp capture reference as $$1.
func (w *vfWorld) AlphaYAML(upstreams, extra string) string {
	if upstreams == "" {
		upstreams = "upstreamConfig:\n  upstreams:\n  - id: main\n    path: /\n    uri: " + w.Up.URL() + "\n"
	}
	return upstreams + `server:
  BindAddress: "-"
providers:
- id: oidc
  provider: oidc
  clientID: cid
  clientSecret: sec
  loginURLParameters: []
  oidcConfig:
    issuerURL: ` + w.IdP.Issuer + `
    insecureSkipNonce: false
    audienceClaims: [aud]
    emailClaim: email
    groupsClaim: groups
    userIDClaim: email
` + extra
}

// NewProxyRaw builds an instance from exactly the given arguments (no BaseFlags merged in).
func (w *vfWorld) NewProxyRaw(alphaYAML string, args []string) (*vfProxy, error) {
	vfBuildMu.Lock()
	defer vfBuildMu.Unlock()
	args = append([]string{}, args...)
	alphaPath := ""
	if alphaYAML != "" {
		w.mu.Lock()
		w.ctr++
		n := w.ctr
		w.mu.Unlock()
		alphaPath = w.File(fmt.Sprintf("alpha-%d.yaml", n), alphaYAML)
		args = append(args, "--alpha-config="+alphaPath)
	}
	fs := pflag.NewFlagSet("oauth2-proxy", pflag.ContinueOnError)
	fs.ParseErrorsWhitelist.UnknownFlags = true
	fs.SetOutput(io.Discard)
	cfg := fs.String("config", "", "")
	alpha := fs.String("alpha-config", "", "")
	fs.Bool("convert-config-to-alpha", false, "")
	fs.Bool("version", false, "")
	_ = fs.Parse(args)
	opts, err := loadConfiguration(*cfg, *alpha, fs, args)
	if err != nil {
		return nil, fmt.Errorf("loadConfiguration: %w", err)
	}
	if err := validation.Validate(opts); err != nil {
		return nil, fmt.Errorf("validate: %w", err)
	}
	vfQuiet()
	p, err := NewOAuthProxy(opts, NewValidator(opts.EmailDomains, opts.AuthenticatedEmailsFile))
	if err != nil {
		return nil, fmt.Errorf("NewOAuthProxy: %w", err)
	}
	vp := &vfProxy{W: w, P: p, Opts: opts, Flags: args, Alpha: alphaYAML, Handler: p}
	if opts.AllowQuerySemicolons {
		vp.Handler = http.AllowQuerySemicolons(p) // as setupServer does
	}
	return vp, nil
}

func (w *vfWorld) MustProxy(flags ...string) *vfProxy {
	p, err := w.NewProxy(flags...)
	if err != nil {
		w.T.Fatalf("building proxy %v: %v", flags, err)
	}
	return p
}

// ---------------------------------------------------------------------------------------------------------
// requests

type vfReq struct {
	Method     string      `json:"method"`
	Target     string      `json:"target"` // request target, verbatim
	Host       string      `json:"host"`
	Headers    [][2]string `json:"headers,omitempty"`
	Body       []byte      `json:"body,omitempty"`
	RemoteAddr string      `json:"remote_addr,omitempty"` // direct driver only
	GiveUpAfter time.Duration `json:"give_up_after,omitempty"` // direct driver: the client gives up (request context cancelled) after this long; 0 = 60 s
	HTTPS      bool        `json:"https,omitempty"`       // direct driver: pretend TLS (req.TLS != nil is not modelled; sets URL.Scheme only via X-F-P when proxied)
}

func vfGET(target string, hdr ...string) *vfReq { return vfNewReq("GET", target, hdr...) }

func vfNewReq(method, target string, hdr ...string) *vfReq {
	r := &vfReq{Method: method, Target: target, Host: "proxy.test"}
	for k := 0; k+1 < len(hdr); k += 2 {
		r.Headers = append(r.Headers, [2]string{hdr[k], hdr[k+1]})
	}
	return r
}

func (r *vfReq) H(k, v string) *vfReq   { r.Headers = append(r.Headers, [2]string{k, v}); return r }
func (r *vfReq) WithHost(h string) *vfReq { r.Host = h; return r }
func (r *vfReq) WithBody(ct string, b []byte) *vfReq {
	r.Body = b
	if ct != "" {
		r.Headers = append(r.Headers, [2]string{"Content-Type", ct})
	}
	return r
}
func (r *vfReq) From(addr string) *vfReq { r.RemoteAddr = addr; return r }
func (r *vfReq) Cookie(name, value string) *vfReq {
	for k := range r.Headers {
		if strings.EqualFold(r.Headers[k][0], "Cookie") {
			r.Headers[k][1] += "; " + name + "=" + value
			return r
		}
	}
	return r.H("Cookie", name+"="+value)
}
func (r *vfReq) Clone() *vfReq {
	c := *r
	c.Headers = append([][2]string{}, r.Headers...)
	c.Body = append([]byte{}, r.Body...)
	return &c
}
func (r *vfReq) Get(name string) string {
	for _, h := range r.Headers {
		if strings.EqualFold(h[0], name) {
			return h[1]
		}
	}
	return ""
}

// Bytes renders the request as it goes over the wire.
func (r *vfReq) Bytes() []byte {
	var b bytes.Buffer
	m := r.Method
	if m == "" {
		m = "GET"
	}
	fmt.Fprintf(&b, "%s %s HTTP/1.1\r\n", m, r.Target)
	if r.Host != "" {
		fmt.Fprintf(&b, "Host: %s\r\n", r.Host)
	}
	hasCL := false
	for _, h := range r.Headers {
		fmt.Fprintf(&b, "%s: %s\r\n", h[0], h[1])
		if strings.EqualFold(h[0], "Content-Length") || strings.EqualFold(h[0], "Transfer-Encoding") {
			hasCL = true
		}
	}
	if !hasCL && (len(r.Body) > 0 || m == "POST" || m == "PUT" || m == "PATCH") {
		fmt.Fprintf(&b, "Content-Length: %d\r\n", len(r.Body))
	}
	b.WriteString("\r\n")
	b.Write(r.Body)
	return b.Bytes()
}

type vfResp struct {
	Code    int         `json:"code"`
	Header  http.Header `json:"header"`
	Body    []byte      `json:"-"`
	BodyStr string      `json:"body,omitempty"`
	Panic   string      `json:"panic,omitempty"`
	Stack   string      `json:"stack,omitempty"`
	Invalid string      `json:"invalid,omitempty"` // the request never reaches the handler behind net/http (400 by the server)
	Err     string      `json:"err,omitempty"`
}

func (r *vfResp) SetCookies() []string { return r.Header.Values("Set-Cookie") }
func (r *vfResp) Location() string     { return r.Header.Get("Location") }

// parse applies the same admission checks as net/http's server before a handler sees the request.
func (r *vfReq) parse() (*http.Request, string) {
	req, err := http.ReadRequest(bufio.NewReader(bytes.NewReader(r.Bytes())))
	if err != nil {
		return nil, "unparsable: " + err.Error()
	}
	nHost := 0
	for _, h := range r.Headers {
		if strings.EqualFold(h[0], "Host") {
			nHost++
		}
	}
	if r.Host != "" {
		nHost++
	}
	if nHost == 0 {
		return nil, "missing Host"
	}
	if nHost > 1 {
		return nil, "too many Host headers"
	}
	if !httpguts.ValidHostHeader(req.Host) {
		return nil, "malformed Host header"
	}
	for k, vv := range req.Header {
		if !httpguts.ValidHeaderFieldName(k) {
			return nil, "invalid header name"
		}
		for _, v := range vv {
			if !httpguts.ValidHeaderFieldValue(v) {
				return nil, "invalid header value"
			}
		}
	}
	req.RemoteAddr = r.RemoteAddr
	if req.RemoteAddr == "" {
		req.RemoteAddr = "203.0.113.9:54321"
	}
	return req, ""
}

// Do serves the request directly (driver a). A panic is captured, never propagated.
func (p *vfProxy) Do(r *vfReq) (resp *vfResp) {
	req, bad := r.parse()
	if req == nil {
		return &vfResp{Code: 400, Header: http.Header{}, Invalid: bad}
	}
	resp = p.serve(req, r.GiveUpAfter)
	if p.OnResp != nil {
		p.OnResp(r, resp)
	}
	return resp
}

func (p *vfProxy) serve(req *http.Request, giveUp time.Duration) (resp *vfResp) {
	vfBuildMu.RLock()
	defer vfBuildMu.RUnlock()
	rw := httptest.NewRecorder()
	resp = &vfResp{}
	func() {
		defer func() {
			if x := recover(); x != nil {
				if x == http.ErrAbortHandler {
					resp.Err = "ErrAbortHandler"
					return
				}
				resp.Panic = fmt.Sprint(x)
				resp.Stack = string(debug.Stack())
			}
		}()
		if giveUp <= 0 {
			giveUp = 60 * time.Second
		}
		// as net/http does when the client's connection goes away: the context is CANCELLED (not "deadline exceeded")
		ctx, cancel := context.WithCancel(req.Context())
		defer cancel()
		timer := time.AfterFunc(giveUp, cancel)
		defer timer.Stop()
		p.Handler.ServeHTTP(rw, req.WithContext(ctx))
	}()
	resp.Code = rw.Code
	resp.Header = rw.Header().Clone()
	resp.Body = rw.Body.Bytes()
	return resp
}

// ---------------------------------------------------------------------------------------------------------
// wire driver

type vfLogBuf struct {
	mu sync.Mutex
	b  bytes.Buffer
}

func (l *vfLogBuf) Write(p []byte) (int, error) { l.mu.Lock(); defer l.mu.Unlock(); return l.b.Write(p) }
func (l *vfLogBuf) String() string              { l.mu.Lock(); defer l.mu.Unlock(); return l.b.String() }
func (l *vfLogBuf) Reset()                      { l.mu.Lock(); l.b.Reset(); l.mu.Unlock() }

// Server starts (once) a real http.Server with the proxy as handler, as pkg/http's server does.
func (p *vfProxy) Server() *httptest.Server {
	p.srvOnce.Do(func() {
		p.srvLog = &vfLogBuf{}
		// the handler side holds the build lock (it may still be logging after the client has read the response)
		p.srv = httptest.NewUnstartedServer(http.HandlerFunc(func(w http.ResponseWriter, r *http.Request) {
			vfBuildMu.RLock()
			defer vfBuildMu.RUnlock()
			p.Handler.ServeHTTP(w, r)
		}))
		p.srv.Config.ErrorLog = log.New(p.srvLog, "", 0)
		p.srv.Start()
		p.W.OnClose(func() { p.srv.CloseClientConnections(); p.srv.Close() })
	})
	return p.srv
}

// ServerTLS starts (once) a real TLS http.Server with the proxy as handler: requests arrive with req.TLS != nil,
// as behind --https-address (needed e.g. for --force-https behaviour on already-secure requests).
func (p *vfProxy) ServerTLS() *httptest.Server {
	p.tlsOnce.Do(func() {
		p.tlsSrv = httptest.NewUnstartedServer(http.HandlerFunc(func(w http.ResponseWriter, r *http.Request) {
			vfBuildMu.RLock()
			defer vfBuildMu.RUnlock()
			p.Handler.ServeHTTP(w, r)
		}))
		p.tlsSrv.Config.ErrorLog = log.New(io.Discard, "", 0)
		p.tlsSrv.StartTLS()
		p.W.OnClose(func() { p.tlsSrv.CloseClientConnections(); p.tlsSrv.Close() })
	})
	return p.tlsSrv
}

// WireTLS is Wire over TLS (certificate not verified).
func (p *vfProxy) WireTLS(r *vfReq) *vfResp {
	srv := p.ServerTLS()
	addr := strings.TrimPrefix(srv.URL, "https://")
	c, err := tls.DialWithDialer(&net.Dialer{Timeout: 5 * time.Second}, "tcp", addr, &tls.Config{InsecureSkipVerify: true}) // #nosec G402 -- loopback test server
	if err != nil {
		return &vfResp{Err: "dial: " + err.Error(), Header: http.Header{}}
	}
	defer c.Close()
	_ = c.SetDeadline(time.Now().Add(60 * time.Second))
	rr := r.Clone()
	rr.Headers = append(rr.Headers, [2]string{"Connection", "close"})
	if _, err := c.Write(rr.Bytes()); err != nil {
		return &vfResp{Err: "write: " + err.Error(), Header: http.Header{}}
	}
	br := bufio.NewReader(c)
	res, err := http.ReadResponse(br, &http.Request{Method: r.Method})
	for n := 0; err == nil && res.StatusCode >= 100 && res.StatusCode < 200 && res.StatusCode != 101 && n < 10; n++ {
		res, err = http.ReadResponse(br, &http.Request{Method: r.Method})
	}
	if err != nil {
		return &vfResp{Err: "read: " + err.Error(), Header: http.Header{}}
	}
	defer res.Body.Close()
	body, _ := io.ReadAll(res.Body)
	return &vfResp{Code: res.StatusCode, Header: res.Header, Body: body}
}

// Wire sends the raw bytes of r over a fresh connection and parses one response. The upstream sees the real
// loopback client address; r.RemoteAddr is ignored.
func (p *vfProxy) Wire(r *vfReq) *vfResp {
	srv := p.Server()
	addr := strings.TrimPrefix(srv.URL, "http://")
	c, err := net.DialTimeout("tcp", addr, 5*time.Second)
	if err != nil {
		return &vfResp{Err: "dial: " + err.Error(), Header: http.Header{}}
	}
	defer c.Close()
	_ = c.SetDeadline(time.Now().Add(60 * time.Second))
	rr := r.Clone()
	rr.Headers = append(rr.Headers, [2]string{"Connection", "close"})
	if _, err := c.Write(rr.Bytes()); err != nil {
		return &vfResp{Err: "write: " + err.Error(), Header: http.Header{}}
	}
	br := bufio.NewReader(c)
	res, err := http.ReadResponse(br, &http.Request{Method: r.Method})
	informational := 0
	for err == nil && res.StatusCode >= 100 && res.StatusCode < 200 && res.StatusCode != 101 && informational < 10 {
		informational++ // 1xx interim responses (100 Continue, 103 Early Hints): the final response follows on the same connection
		res, err = http.ReadResponse(br, &http.Request{Method: r.Method})
	}
	if err != nil {
		out := &vfResp{Err: "read: " + err.Error(), Header: http.Header{}}
		if strings.Contains(p.srvLog.String(), "panic serving") {
			out.Panic = p.srvLog.String()
		}
		return out
	}
	defer res.Body.Close()
	body, _ := io.ReadAll(res.Body)
	return &vfResp{Code: res.StatusCode, Header: res.Header, Body: body}
}

// ---------------------------------------------------------------------------------------------------------
// browser: RFC 6265 cookie jar + archive of every cookie ever received

type vfCookie struct {
	Name, Value, Domain, Path string
	HostOnly                  bool
	Secure, HTTPOnly          bool
	SameSite                  http.SameSite
	MaxAge                    int
	Raw                       string
	Seq                       int
}

type vfJar struct {
	mu      sync.Mutex
	entries []*vfCookie
	Archive []*vfCookie // every non-deleting cookie ever received
	seq     int
}

func vfHostOnly(hostport string) string {
	h := strings.ToLower(hostport)
	if hh, _, err := net.SplitHostPort(h); err == nil {
		h = hh
	}
	return strings.TrimSuffix(h, ".")
}

func vfDomainMatch(host, domain string) bool {
	if host == domain {
		return true
	}
	return strings.HasSuffix(host, "."+domain) && net.ParseIP(host) == nil
}

func vfDefaultPath(p string) string {
	if p == "" || p[0] != '/' {
		return "/"
	}
	k := strings.LastIndexByte(p, '/')
	if k == 0 {
		return "/"
	}
	return p[:k]
}

func vfPathMatch(reqPath, cookiePath string) bool {
	if reqPath == cookiePath {
		return true
	}
	if strings.HasPrefix(reqPath, cookiePath) {
		return strings.HasSuffix(cookiePath, "/") || reqPath[len(cookiePath)] == '/'
	}
	return false
}

// Apply stores the Set-Cookie lines of a response to a request for (host, path) as a browser would.
// It returns, per line, what happened: "set", "deleted:<n>", "deleted:0" (deletion that matched nothing) or "ignored:<why>".
func (j *vfJar) Apply(hostport, reqPath string, lines []string) []string {
	j.mu.Lock()
	defer j.mu.Unlock()
	host := vfHostOnly(hostport)
	var res []string
	for _, line := range lines {
		c, err := http.ParseSetCookie(line)
		if err != nil {
			res = append(res, "ignored:unparsable")
			continue
		}
		vc := &vfCookie{Name: c.Name, Value: c.Value, Secure: c.Secure, HTTPOnly: c.HttpOnly, SameSite: c.SameSite, MaxAge: c.MaxAge, Raw: line}
		if c.Domain != "" {
			d := strings.ToLower(strings.TrimPrefix(c.Domain, "."))
			if !vfDomainMatch(host, d) {
				res = append(res, "ignored:domain-mismatch")
				continue
			}
			vc.Domain = d
		} else {
			vc.Domain, vc.HostOnly = host, true
		}
		if c.Path == "" || c.Path[0] != '/' {
			vc.Path = vfDefaultPath(reqPath)
		} else {
			vc.Path = c.Path
		}
		del := c.MaxAge < 0 || (c.MaxAge == 0 && !c.Expires.IsZero() && c.Expires.Before(time.Now()))
		n := 0
		kept := j.entries[:0]
		for _, e := range j.entries {
			if e.Name == vc.Name && e.Domain == vc.Domain && e.Path == vc.Path && e.HostOnly == vc.HostOnly {
				n++
				continue
			}
			kept = append(kept, e)
		}
		j.entries = kept
		if del {
			res = append(res, fmt.Sprintf("deleted:%d", n))
			continue
		}
		j.seq++
		vc.Seq = j.seq
		j.entries = append(j.entries, vc)
		j.Archive = append(j.Archive, vc)
		res = append(res, "set")
	}
	return res
}

// For returns the cookies a browser would send to (host, path), longest path first then oldest first.
func (j *vfJar) For(hostport, reqPath string, https bool) []*vfCookie {
	j.mu.Lock()
	defer j.mu.Unlock()
	host := vfHostOnly(hostport)
	if k := strings.IndexAny(reqPath, "?#"); k >= 0 {
		reqPath = reqPath[:k]
	}
	var out []*vfCookie
	for _, e := range j.entries {
		if e.HostOnly && e.Domain != host {
			continue
		}
		if !e.HostOnly && !vfDomainMatch(host, e.Domain) {
			continue
		}
		if !vfPathMatch(reqPath, e.Path) {
			continue
		}
		if e.Secure && !https {
			continue
		}
		out = append(out, e)
	}
	sort.SliceStable(out, func(a, b int) bool {
		if len(out[a].Path) != len(out[b].Path) {
			return len(out[a].Path) > len(out[b].Path)
		}
		return out[a].Seq < out[b].Seq
	})
	return out
}

func (j *vfJar) All() []*vfCookie {
	j.mu.Lock()
	defer j.mu.Unlock()
	return append([]*vfCookie{}, j.entries...)
}

func (j *vfJar) Clear() { j.mu.Lock(); j.entries = nil; j.mu.Unlock() }

func vfCookieHeader(cs []*vfCookie) string {
	parts := make([]string, 0, len(cs))
	for _, c := range cs {
		parts = append(parts, c.Name+"="+c.Value)
	}
	return strings.Join(parts, "; ")
}

type vfBrowser struct {
	Jar   *vfJar
	Host  string // host (with optional port) the browser addresses the proxy by
	HTTPS bool
	Wire  bool // use the wire driver
	Extra [][2]string // headers added to every request
}

func vfNewBrowser(host string) *vfBrowser {
	if host == "" {
		host = "proxy.test"
	}
	return &vfBrowser{Jar: &vfJar{}, Host: host}
}

// Send attaches the jar's cookies, serves the request, and applies the response's Set-Cookie lines.
func (b *vfBrowser) Send(p *vfProxy, r *vfReq) *vfResp {
	rr := r.Clone()
	rr.Host = b.Host
	path := rr.Target
	if cs := b.Jar.For(b.Host, path, b.HTTPS); len(cs) > 0 {
		rr.Headers = append(rr.Headers, [2]string{"Cookie", vfCookieHeader(cs)})
	}
	rr.Headers = append(rr.Headers, b.Extra...)
	var resp *vfResp
	if b.Wire {
		resp = p.Wire(rr)
	} else {
		resp = p.Do(rr)
	}
	if k := strings.IndexAny(path, "?#"); k >= 0 {
		path = path[:k]
	}
	b.Jar.Apply(b.Host, path, resp.SetCookies())
	return resp
}

func (b *vfBrowser) Get(p *vfProxy, target string, hdr ...string) *vfResp {
	return b.Send(p, vfGET(target, hdr...))
}

// ---------------------------------------------------------------------------------------------------------
// login flow

type vfLogin struct {
	StartResp *vfResp
	LoginURL  string
	State     string
	Code      string
	AuthReq   *vfAuthReq
	CSRFNames []string
}

// StartLogin: GET /oauth2/start?rd=<rd> and obtain a code from the IdP for identity id.
func (b *vfBrowser) StartLogin(p *vfProxy, id vfIdentity, rd string) (*vfLogin, error) {
	target := p.Opts.ProxyPrefix + "/start"
	if rd != "" {
		target += "?rd=" + vfQueryEscape(rd)
	}
	resp := b.Get(p, target)
	if resp.Code != 302 {
		return &vfLogin{StartResp: resp}, fmt.Errorf("start: status %d", resp.Code)
	}
	return b.continueLogin(p, id, resp)
}

func (b *vfBrowser) continueLogin(p *vfProxy, id vfIdentity, resp *vfResp) (*vfLogin, error) {
	l := &vfLogin{StartResp: resp, LoginURL: resp.Location()}
	for _, sc := range resp.SetCookies() {
		if c, err := http.ParseSetCookie(sc); err == nil && strings.HasSuffix(c.Name, "_csrf") {
			l.CSRFNames = append(l.CSRFNames, c.Name)
		}
	}
	code, ar, err := p.W.IdP.Authorize(l.LoginURL, id)
	if err != nil {
		return l, err
	}
	l.Code, l.AuthReq, l.State = code, ar, ar.Params.Get("state")
	return l, nil
}

func (l *vfLogin) CallbackTarget(p *vfProxy) string {
	return p.Opts.ProxyPrefix + "/callback?code=" + vfQueryEscape(l.Code) + "&state=" + vfQueryEscape(l.State)
}

// Login runs a complete login; on success the browser's jar holds the session.
func (b *vfBrowser) Login(p *vfProxy, id vfIdentity, rd string) (*vfLogin, *vfResp, error) {
	l, err := b.StartLogin(p, id, rd)
	if err != nil {
		return l, nil, err
	}
	resp := b.Get(p, l.CallbackTarget(p))
	if resp.Code != 302 {
		return l, resp, fmt.Errorf("callback: status %d: %s", resp.Code, vfTrunc(vfErrText(resp.Body), 300))
	}
	return l, resp, nil
}

func vfErrText(body []byte) string {
	s := string(body)
	if k := strings.Index(s, "<section"); k >= 0 {
		s = s[k:]
	}
	if k := strings.Index(s, "</section>"); k >= 0 {
		s = s[:k]
	}
	return strings.Join(strings.Fields(s), " ")
}

func vfQueryEscape(s string) string {
	const hexd = "0123456789ABCDEF"
	var b strings.Builder
	for i := 0; i < len(s); i++ {
		c := s[i]
		if (c >= 'a' && c <= 'z') || (c >= 'A' && c <= 'Z') || (c >= '0' && c <= '9') || c == '-' || c == '_' || c == '.' || c == '~' {
			b.WriteByte(c)
		} else {
			b.WriteByte('%')
			b.WriteByte(hexd[c>>4])
			b.WriteByte(hexd[c&15])
		}
	}
	return b.String()
}

// vfHtpasswdSHA renders an htpasswd {SHA} entry value for a password.
func vfHtpasswdSHA(pw string) string {
	h := sha1.Sum([]byte(pw))
	return "{SHA}" + base64.StdEncoding.EncodeToString(h[:])
}

var vfStdIdentity = vfIdentity{Sub: "u-alice", Email: "alice@example.com", Groups: []string{"g1", "g2"}, PreferredUsername: "alice-pu"}
