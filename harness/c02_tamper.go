//go:build verif

package main

// C02 — Session credentials are opaque and tamper-evident.
//
// Oracle (relational, written from the property statement; the repository's own validation code is never called):
//   every credential is issued by a REAL login at a real instance; the harness keeps books on who issued what, when,
//   under which secret / cookie name / store. For every altered, recombined, transplanted or re-signed variant V
//   presented to instance T:
//        outcome(V at T)  ∈  {rejected}  ∪  { identity of S | S a source of V, S issued by T itself and still inside its lifetime }
//   "rejected" = no identity anywhere (/oauth2/auth not 2xx and no identity headers, /oauth2/userinfo not 200,
//   protected path not proxied); "identity of S" = ALL of e-mail, user, groups, preferred username, access token, ID token
//   equal to what the unmodified S yields. Hence: a variant of an expired session, anything presented to an instance
//   with another secret / another cookie name / another store kind, and any forged signature must be rejected
//   ("nothing that the proxy did not itself produce is ever accepted"); a variant of live sessions may at most decode
//   to exactly one of them. CSRF-cookie variants go to /oauth2/callback with the matching state and a fresh code:
//   a session cookie may only result for a variant of the live CSRF cookie of that very login, and then for the
//   identity the code was issued to (the IdP independently verifies the PKCE verifier the cookie carried).
//   Opacity: see c02_opacity.go.

import (
	"encoding/base64"
	"encoding/json"
	"fmt"
	"math/rand"
	"net/http"
	"net/http/httptest"
	"sort"
	"strconv"
	"strings"
	"sync"
	"sync/atomic"
	"testing"
	"time"

	sessionsapi "github.com/oauth2-proxy/oauth2-proxy/v7/pkg/apis/sessions"
	"github.com/oauth2-proxy/oauth2-proxy/v7/pkg/clock"
)

// ---------------------------------------------------------------------------------------------------------
// instances, credentials

type c02Inst struct {
	Role   string // issuer | other-secret | other-name | other-store | name-shift
	P      *vfProxy
	Name   string // cookie name
	Secret string
	Store  string
}

func (in *c02Inst) isSessionCookie(name string) bool {
	if name == in.Name {
		return true
	}
	if !strings.HasPrefix(name, in.Name+"_") {
		return false
	}
	_, err := strconv.Atoi(name[len(in.Name)+1:])
	return err == nil
}

type c02Ident struct {
	Email, User, Groups, PrefUser, AccessToken, IDToken string
}

func (a c02Ident) short() map[string]string {
	return map[string]string{"email": a.Email, "user": a.User, "groups": vfTrunc(a.Groups, 60), "preferred_username": a.PrefUser, "access_token": a.AccessToken, "id_token": vfTrunc(a.IDToken, 40)}
}

type c02Tokens struct{ Access, ID, Refresh string }

type c02Cred struct {
	Label    string
	Kind     string // session | ticket | csrf
	Owner    *c02Inst
	Parts    []c02CK
	Full     string
	Expired  bool
	Unusable bool // expired credential that is nevertheless honoured unmodified: lifetime enforcement (C09) is broken, variants are not judged
	Who      vfIdentity
	Tok      c02Tokens
	Base     c02Ident // what the unmodified credential yields at its issuer (sessions / tickets)
	RedisKey string
	RedisVal string
	// csrf only
	LoginURL, State string
}

func (c *c02Cred) kindCell() string {
	if c.Kind == "session" && len(c.Parts) > 1 {
		return fmt.Sprintf("session-split%d", len(c.Parts))
	}
	return c.Kind
}

type c02Outcome struct {
	Accepted bool
	Id       c02Ident
	Via      string // endpoint that disclosed the identity
	Status   map[string]int
	Conflict string
}

var c02ReqSeq int64

// c02Probe presents cookies to an instance. /oauth2/auth (with --set-xauthrequest etc.) exposes all six identity
// fields in one cheap request; when it accepts — or when full is set — /oauth2/userinfo and a protected path
// (identity and tokens as received by the upstream) are probed as well and must tell the same story.
func c02Probe(w *vfWorld, in *c02Inst, cks []c02CK, full bool) c02Outcome {
	hdr := c02Header(cks)
	out := c02Outcome{Status: map[string]int{}}
	note := func(via string, id c02Ident) {
		if !out.Accepted {
			out.Accepted, out.Id, out.Via = true, id, via
			return
		}
		// userinfo has no tokens: compare the fields it has
		a, b := out.Id, id
		if via == "userinfo" {
			b.AccessToken, b.IDToken = a.AccessToken, a.IDToken
		}
		if out.Via == "userinfo" {
			a.AccessToken, a.IDToken = b.AccessToken, b.IDToken
			out.Id = a
		}
		if a != b && out.Conflict == "" {
			out.Conflict = fmt.Sprintf("%s says %v, %s says %v", out.Via, a.short(), via, b.short())
		}
	}
	req := vfGET("/oauth2/auth")
	if hdr != "" {
		req.H("Cookie", hdr)
	}
	r := in.P.Do(req)
	out.Status["auth"] = r.Code
	h := r.Header
	id := c02Ident{Email: h.Get("X-Auth-Request-Email"), User: h.Get("X-Auth-Request-User"), Groups: h.Get("X-Auth-Request-Groups"),
		PrefUser: h.Get("X-Auth-Request-Preferred-Username"), AccessToken: h.Get("X-Auth-Request-Access-Token"), IDToken: strings.TrimPrefix(h.Get("Authorization"), "Bearer ")}
	if r.Code/100 == 2 || id != (c02Ident{}) {
		note("auth", id)
	}
	if !out.Accepted && !full {
		return out
	}
	req = vfGET("/oauth2/userinfo")
	if hdr != "" {
		req.H("Cookie", hdr)
	}
	r = in.P.Do(req)
	out.Status["userinfo"] = r.Code
	if r.Code == 200 {
		var u struct {
			User              string   `json:"user"`
			Email             string   `json:"email"`
			Groups            []string `json:"groups"`
			PreferredUsername string   `json:"preferredUsername"`
		}
		if json.Unmarshal(r.Body, &u) == nil && (u.User != "" || u.Email != "" || len(u.Groups) > 0 || u.PreferredUsername != "") {
			note("userinfo", c02Ident{Email: u.Email, User: u.User, Groups: strings.Join(u.Groups, ","), PrefUser: u.PreferredUsername})
		}
	}
	vid := fmt.Sprintf("c02-%d", atomic.AddInt64(&c02ReqSeq, 1))
	req = vfGET("/c02/protected?x=1", "X-Vf-Id", vid)
	if hdr != "" {
		req.H("Cookie", hdr)
	}
	r = in.P.Do(req)
	out.Status["protected"] = r.Code
	if hits := w.Up.FindHit(vid); len(hits) > 0 {
		uh := hits[0].Header
		note("upstream", c02Ident{Email: uh.Get("X-Forwarded-Email"), User: uh.Get("X-Forwarded-User"), Groups: uh.Get("X-Forwarded-Groups"),
			PrefUser: uh.Get("X-Forwarded-Preferred-Username"), AccessToken: uh.Get("X-Forwarded-Access-Token"), IDToken: strings.TrimPrefix(uh.Get("Authorization"), "Bearer ")})
	}
	return out
}

// ---------------------------------------------------------------------------------------------------------
// configuration space

type c02SecretForm struct {
	Name string
	// Make returns a secret and a sibling secret of the same form that differs from it in its LAST byte only
	// (a key that is silently shortened makes the two equivalent).
	Make func(r *rand.Rand) (secret, sibling string)
}

func c02RandBytes(r *rand.Rand, n int) []byte {
	b := make([]byte, n)
	for i := range b {
		b[i] = byte(r.Intn(256))
	}
	return b
}

func c02RandStr(r *rand.Rand, n int, alphabet string) string {
	b := make([]byte, n)
	for i := range b {
		b[i] = alphabet[r.Intn(len(alphabet))]
	}
	return string(b)
}

const c02Alnum = "abcdefghijklmnopqrstuvwxyzABCDEFGHIJKLMNOPQRSTUVWXYZ0123456789"

// raw secrets carry a '#' so that they cannot be mistaken for base64; "raw32-alnum" is the documented quirk: 32
// base64url characters decode to 24 bytes, which the proxy then uses as the AES key (the HMAC key stays the string).
func c02SecretForms() []c02SecretForm {
	other := func(c byte, r *rand.Rand) byte {
		for {
			if x := c02Alnum[r.Intn(len(c02Alnum))]; x != c {
				return x
			}
		}
	}
	raw := func(n int, hash bool) func(r *rand.Rand) (string, string) {
		return func(r *rand.Rand) (string, string) {
			s := []byte(c02RandStr(r, n, c02Alnum))
			if hash {
				s[r.Intn(n-1)] = '#'
			}
			t := append([]byte{}, s...)
			t[n-1] = other(s[n-1], r)
			return string(s), string(t)
		}
	}
	b64 := func(n int, enc *base64.Encoding) func(r *rand.Rand) (string, string) {
		return func(r *rand.Rand) (string, string) {
			b := c02RandBytes(r, n)
			t := append([]byte{}, b...)
			t[n-1] ^= 0x5a
			return enc.EncodeToString(b), enc.EncodeToString(t)
		}
	}
	return []c02SecretForm{
		{"raw16", raw(16, true)}, {"raw24", raw(24, true)}, {"raw32", raw(32, true)}, {"raw32-alnum", raw(32, false)},
		{"b64url16-padded", b64(16, base64.URLEncoding)}, {"b64url16-unpadded", b64(16, base64.RawURLEncoding)}, {"b64url24", b64(24, base64.URLEncoding)},
		{"b64url32-padded", b64(32, base64.URLEncoding)}, {"b64url32-unpadded", b64(32, base64.RawURLEncoding)},
	}
}

type c02Size struct {
	Name   string
	Parts  int // number of cookies the cookie store needs (1 = unsplit)
	Lo, Hi int // target length of the joined signed value
}

var c02Sizes = map[string]c02Size{
	"small":  {"small", 1, 1000, 3600},
	"2parts": {"2parts", 2, 4100, 5200},
	"3parts": {"3parts", 3, 8000, 8900},
	"4parts": {"4parts", 4, 11950, 12800},
}

type c02Group struct {
	Store       string
	Form        c02SecretForm
	Sizes       []string
	CookieName  string
	Expire      time.Duration
	CSRFPerReq  bool
	ShiftWidths []int
}

func c02Groups(run *vfRun) []c02Group {
	forms := c02SecretForms()
	seed := int(run.Env.Seed)
	names := []string{"_oauth2_proxy", "sess", "my.app-session", "_oauth2_proxy", "SID"}
	// 0 = browser-session cookies: a supported configuration in which the timestamp window is not checked at all
	expires := []time.Duration{168 * time.Hour, 24 * time.Hour, 3 * time.Hour, 0}
	var gs []c02Group
	if !run.Env.Thorough() {
		// 8 issuing configurations (store x secret form x size) in 6 instance groups; the seed rotates which secret
		// form meets which store / size.
		plan := []struct {
			store string
			sizes []string
		}{{"cookie", []string{"small", "2parts"}}, {"cookie", []string{"3parts"}}, {"cookie", []string{"4parts"}}, {"cookie", []string{"small"}}, {"redis", []string{"small", "3parts"}}, {"redis", []string{"small"}}}
		for i, p := range plan {
			g := c02Group{Store: p.store, Form: forms[(i*2+seed)%len(forms)], Sizes: p.sizes, CookieName: names[(i+seed)%len(names)],
				Expire: expires[(i+seed)%3], CSRFPerReq: (i+seed)%2 == 0, ShiftWidths: []int{4}}
			if i == 3 || i == 5 { // one cookie-store and one Redis group without a lifetime (--cookie-expire=0)
				g.Expire = 0
			}
			gs = append(gs, g)
		}
		return gs
	}
	for i, f := range forms {
		// every secret form meets unsplit and 2-part cookies; 3- and 4-part cookies alternate over the forms (which one: by seed)
		sizes := []string{"small", "2parts", []string{"3parts", "4parts"}[(i+seed)%2]}
		gs = append(gs, c02Group{Store: "cookie", Form: f, Sizes: sizes, CookieName: names[(i+seed)%len(names)],
			Expire: expires[(i+seed)%len(expires)], CSRFPerReq: (i+seed)%2 == 0, ShiftWidths: []int{1, 2, 3, 4, 8}})
		gs = append(gs, c02Group{Store: "redis", Form: f, Sizes: []string{"small", "3parts"}, CookieName: names[(i+1+seed)%len(names)],
			Expire: expires[(i+1+seed)%len(expires)], CSRFPerReq: (i+seed)%2 == 1, ShiftWidths: []int{1, 4}})
	}
	return gs
}

// c02Identity draws a user with content of about `bulk` incompressible characters spread over groups and extra claims.
func c02Identity(r *rand.Rand, tag string, bulk int) vfIdentity {
	hexs := func(n int) string { return c02RandStr(r, n, "0123456789abcdef") }
	blob := func(n int) string { return c02RandStr(r, n, c02Alnum) } // incompressible for LZ4 (no repeats), not mistakable for hex ids
	user := c02RandStr(r, 6+r.Intn(10), c02Alnum)
	id := vfIdentity{
		Sub:               "u-" + tag + "-" + hexs(10+r.Intn(12)),
		Email:             user + "." + tag + "@" + c02RandStr(r, 4+r.Intn(8), "abcdefghijklmnopqrstuvwxyz") + ".example",
		PreferredUsername: "pu-" + user + "-" + hexs(6),
		Groups:            []string{"grp-" + hexs(4)},
	}
	for k := r.Intn(4); k > 0; k-- {
		id.Groups = append(id.Groups, c02RandStr(r, 3+r.Intn(20), c02Alnum+"-_:/"))
	}
	if bulk > 0 {
		id.Extra = map[string]interface{}{}
		// a share goes into group names (stored twice: session field + ID token), the rest into long claims
		share := bulk * r.Intn(30) / 100
		for share > 0 {
			n := 20 + r.Intn(60)
			id.Groups = append(id.Groups, "team-"+blob(n))
			share -= n * 7 / 4
			bulk -= n * 7 / 4
		}
		k := 0
		for bulk > 0 {
			n := bulk
			if n > 900 && r.Intn(2) == 0 {
				n = 300 + r.Intn(600)
			}
			id.Extra[fmt.Sprintf("claim_%d", k)] = blob(n)
			bulk -= n
			k++
		}
	}
	return id
}

// ---------------------------------------------------------------------------------------------------------
// one instance group at work

type c02Cell struct {
	run   *vfRun
	w     *vfWorld
	g     c02Group
	rng   *rand.Rand
	inst  map[string]*c02Inst // by role
	sec   *c02Secrets

	tokMu     sync.Mutex
	lastTok   c02Tokens
	longLived bool

	histories []*c02History // versions of one store entry / one session's cookies over several saves
	payloads  []c02Payload        // everything encrypted under the cookie secret that the proxy issued (joined values)
	tokBySub  map[string]c02Tokens // tokens the IdP issued, by subject (concurrent logins)
	storeObs  map[string][]string // store key -> every distinct raw value observed under it, in order

	seenMu      sync.Mutex
	seenCookies map[string]bool // every cookie value received from the proxy (name=value), for the opacity scan
}

func (c *c02Cell) flagsFor(store, secret, name string) []string {
	f := []string{"--session-store-type=" + store, "--cookie-secret=" + secret, "--cookie-name=" + name, "--cookie-expire=" + c.g.Expire.String(),
		"--pass-access-token=true", "--pass-authorization-header=true", "--set-xauthrequest=true", "--set-authorization-header=true",
		"--code-challenge-method=S256", fmt.Sprintf("--cookie-csrf-per-request=%v", c.g.CSRFPerReq)}
	if store == "redis" {
		f = append(f, "--redis-connection-url="+c.w.RedisURL())
	}
	return f
}

func (c *c02Cell) newInst(role, store, secret, name string, extra ...string) *c02Inst {
	p, err := c.w.NewProxy(append(c.flagsFor(store, secret, name), extra...)...)
	if err != nil {
		c.run.T.Fatalf("C02 rig: instance %s (%s, secret form %s, name %q): %v", role, store, c.g.Form.Name, name, err)
	}
	in := &c02Inst{Role: role, P: p, Name: name, Secret: secret, Store: store}
	c.inst[role] = in
	return in
}

func (c *c02Cell) detail(in *c02Inst, cks []c02CK, extra map[string]interface{}) map[string]interface{} {
	m := map[string]interface{}{"instance_role": in.Role, "flags": in.P.Flags, "cookie_header": c02Header(cks), "secret_form": c.g.Form.Name}
	for k, v := range extra {
		m[k] = v
	}
	return m
}

// login runs one real login; at != zero sets the proxy's clock around the step that stamps the credential
// (callback for sessions) so that the credential is issued in the past.
func (c *c02Cell) login(label string, who vfIdentity, at time.Time) *c02Cred {
	return c.loginAt(c.inst["issuer"], label, who, at)
}

func (c *c02Cell) loginAt(in *c02Inst, label string, who vfIdentity, at time.Time) *c02Cred {
	b := vfNewBrowser("")
	var before map[string]bool
	if in.Store == "redis" {
		before = map[string]bool{}
		for _, k := range c.w.Redis().Keys() {
			before[k] = true
		}
	}
	l, err := b.StartLogin(in.P, who, "/")
	if err != nil {
		c.run.T.Fatalf("C02 rig: start login %s: %v", label, err)
	}
	if !at.IsZero() {
		clock.Set(at)
	}
	resp := b.Get(in.P, l.CallbackTarget(in.P))
	if !at.IsZero() {
		clock.Reset()
	}
	if resp.Code != 302 {
		c.run.T.Fatalf("C02 rig: callback %s: status %d %s", label, resp.Code, vfTrunc(vfErrText(resp.Body), 200))
	}
	c.tokMu.Lock()
	tok := c.lastTok
	c.tokMu.Unlock()
	cr := &c02Cred{Label: label, Kind: "session", Owner: in, Expired: !at.IsZero(), Who: who, Tok: tok}
	if in.Store == "redis" {
		cr.Kind = "ticket"
	}
	for _, ck := range b.Jar.All() {
		if in.isSessionCookie(ck.Name) {
			cr.Parts = append(cr.Parts, c02CK{ck.Name, ck.Value})
		}
	}
	sort.Slice(cr.Parts, func(i, j int) bool { return len(cr.Parts[i].Name) < len(cr.Parts[j].Name) || (len(cr.Parts[i].Name) == len(cr.Parts[j].Name) && cr.Parts[i].Name < cr.Parts[j].Name) })
	cr.Full = c02Join(cr.Parts)
	if len(cr.Parts) == 0 || !c02Split3(cr.Full).OK {
		c.run.T.Fatalf("C02 rig: login %s produced no session cookie of the documented value|timestamp|signature form: %v", label, cr.Parts)
	}
	c.collectCookies(b)
	if in.Store == "cookie" {
		c.notePayload("session", label, cr.Full, who.Email)
	}
	if in.Store == "redis" {
		for _, k := range c.w.Redis().Keys() {
			if !before[k] {
				cr.RedisKey = k
				cr.RedisVal, _ = c.w.Redis().Get(k)
				c.observeStore(k, cr.RedisVal)
			}
		}
		if cr.RedisKey == "" {
			c.run.T.Fatalf("C02 rig: login %s left no new Redis entry", label)
		}
	}
	// the secrets an observer must not be able to recover
	c.sec.Add("e-mail of "+label, who.Email)
	c.sec.Add("user of "+label, who.Sub)
	c.sec.Add("preferred username of "+label, who.PreferredUsername)
	c.sec.Add("access token of "+label, tok.Access)
	c.sec.Add("refresh token of "+label, tok.Refresh)
	c.sec.Add("ID token of "+label, tok.ID)
	return cr
}

// collectCookies remembers every cookie value the browser ever received (the opacity scan runs over them at the end).
func (c *c02Cell) collectCookies(b *vfBrowser) {
	b.Jar.mu.Lock()
	arch := append([]*vfCookie{}, b.Jar.Archive...)
	b.Jar.mu.Unlock()
	c.seenMu.Lock()
	defer c.seenMu.Unlock()
	for _, ck := range arch {
		if ck.Value != "" {
			c.seenCookies[ck.Name+"="+ck.Value] = true
		}
	}
}

// baseline establishes what the unmodified credential yields at its issuer and checks it against the books.
func (c *c02Cell) baseline(cr *c02Cred) {
	out := c02Probe(c.w, cr.Owner, cr.Parts, true)
	if cr.Expired {
		if out.Accepted {
			// lifetime enforcement is C09's subject: not a C02 verdict, but this base cannot serve as "must reject"
			cr.Unusable = true
			c.run.Count("expired_base_honoured_unmodified", 1)
			fmt.Printf("NOTE property=C02 %s %s issued two lifetimes ago is honoured unmodified (C09's subject); its variants are not judged\n", cr.Kind, cr.Label)
		}
		return
	}
	want := c02Ident{Email: cr.Who.Email, User: cr.Who.Sub, Groups: strings.Join(cr.Who.Groups, ","), PrefUser: cr.Who.PreferredUsername, AccessToken: cr.Tok.Access, IDToken: cr.Tok.ID}
	if !out.Accepted || out.Conflict != "" || out.Id != want || out.Status["userinfo"] != 200 || out.Status["protected"] != 200 {
		c.run.T.Fatalf("C02 rig: unmodified session %s is not honoured as issued: %+v (conflict %q)\n got  %v\n want %v", cr.Label, out.Status, out.Conflict, out.Id.short(), want.short())
	}
	cr.Base = out.Id
	c.sec.Add("e-mail of "+cr.Label, out.Id.Email)
	c.sec.Add("user of "+cr.Label, out.Id.User)
}

// startCSRF starts a login and keeps the CSRF cookie (at != zero: issued in the past).
func (c *c02Cell) startCSRF(label string, who vfIdentity, at time.Time) *c02Cred {
	in := c.inst["issuer"]
	b := vfNewBrowser("")
	if !at.IsZero() {
		clock.Set(at)
	}
	l, err := b.StartLogin(in.P, who, "/")
	if !at.IsZero() {
		clock.Reset()
	}
	if err != nil {
		c.run.T.Fatalf("C02 rig: start %s: %v", label, err)
	}
	cr := &c02Cred{Label: label, Kind: "csrf", Owner: in, Expired: !at.IsZero(), Who: who, LoginURL: l.LoginURL, State: l.State}
	for _, ck := range b.Jar.All() {
		if strings.HasSuffix(ck.Name, "_csrf") {
			cr.Parts = append(cr.Parts, c02CK{ck.Name, ck.Value})
		}
	}
	cr.Full = c02Join(cr.Parts)
	if len(cr.Parts) != 1 || !c02Split3(cr.Full).OK {
		c.run.T.Fatalf("C02 rig: start %s: expected one CSRF cookie of the documented form, got %v", label, cr.Parts)
	}
	wantName := in.Name + "_csrf"
	if c.g.CSRFPerReq && cr.Parts[0].Name == wantName || !c.g.CSRFPerReq && cr.Parts[0].Name != wantName {
		c.run.T.Fatalf("C02 rig: CSRF cookie name %q does not fit --cookie-csrf-per-request=%v", cr.Parts[0].Name, c.g.CSRFPerReq)
	}
	c.collectCookies(b)
	c.notePayload("csrf", label, cr.Full, "")
	return cr
}

// presentCSRF: callback with the matching state, a fresh code for the same authorization request, and the given cookies.
func (c *c02Cell) presentCSRF(in *c02Inst, base *c02Cred, cks []c02CK) (c02Outcome, *vfReq) {
	code, _, err := c.w.IdP.Authorize(base.LoginURL, base.Who)
	if err != nil {
		c.run.T.Fatalf("C02 rig: authorize: %v", err)
	}
	req := vfGET(in.P.Opts.ProxyPrefix + "/callback?code=" + vfQueryEscape(code) + "&state=" + vfQueryEscape(base.State))
	if h := c02Header(cks); h != "" {
		req.H("Cookie", h)
	}
	r := in.P.Do(req)
	out := c02Outcome{Status: map[string]int{"callback": r.Code}}
	var sess []c02CK
	for _, line := range r.SetCookies() {
		if ck, err := http.ParseSetCookie(line); err == nil && in.isSessionCookie(ck.Name) && ck.Value != "" {
			sess = append(sess, c02CK{ck.Name, ck.Value})
		}
	}
	if len(sess) == 0 {
		return out, req
	}
	out.Accepted = true
	c.seenMu.Lock()
	for _, ck := range sess {
		c.seenCookies[ck.Name+"="+ck.Value] = true
	}
	c.seenMu.Unlock()
	if p := c02Probe(c.w, in, sess, false); p.Accepted {
		out.Id = p.Id
	}
	return out, req
}

// ---------------------------------------------------------------------------------------------------------
// judging

type c02Job struct {
	V       c02Variant
	Target  *c02Inst
	Srcs    []*c02Cred // the issued credentials the variant was derived from
	CSRF    *c02Cred   // != nil: present to /oauth2/callback of this login
	Kind    string
	fullRow bool
}

// allowed returns the identities the oracle permits for this job (empty = must be rejected).
func (j *c02Job) allowed() []c02Ident {
	var out []c02Ident
	if j.V.Must {
		return nil
	}
	for _, s := range j.Srcs {
		if s.Owner == j.Target && !s.Expired {
			if j.CSRF != nil {
				if s == j.CSRF { // only a variant of the CSRF cookie of this very login may complete it
					out = append(out, c02Ident{Email: s.Who.Email, User: s.Who.Sub, Groups: strings.Join(s.Who.Groups, ","), PrefUser: s.Who.PreferredUsername})
				}
				continue
			}
			out = append(out, s.Base)
		}
	}
	return out
}

func (c *c02Cell) runJobs(jobs []c02Job) {
	run := c.run
	var restored int64
	sampleFull := int64(run.Env.Pick(16, 4))
	vfParallel(len(jobs), 16, func(i int) {
		j := &jobs[i]
		cks := j.V.Build()
		var out c02Outcome
		var req *vfReq
		if j.CSRF != nil {
			out, req = c.presentCSRF(j.Target, j.CSRF, cks)
		} else {
			out = c02Probe(c.w, j.Target, cks, j.fullRow || int64(i)%sampleFull == 0)
		}
		allowed := j.allowed()
		store := c.g.Store
		if c.g.Expire == 0 {
			store += "(expire=0)"
		}
		cell := fmt.Sprintf("%s|%s|%s|%s|%s|%s", store, c.g.Form.Name, j.Kind, j.Target.Role, j.V.Class, j.V.Bucket)
		if strings.HasPrefix(j.V.Class, "forged-signature") || strings.HasPrefix(j.V.Bucket, "part") {
			cell = fmt.Sprintf("%s|%s|%s|%s|%s", store, c.g.Form.Name, j.Kind, j.Target.Role, j.V.Class)
		}
		run.Eval(cell)
		run.Count("variants_"+j.V.Class, 1)
		if len(allowed) == 0 {
			run.Count("must_reject_variants", 1)
		}
		var srcs []string
		for _, s := range j.Srcs {
			l := s.Label + " (" + s.Kind + " issued by " + s.Owner.Role
			if s.Expired {
				l += ", 2 lifetimes ago"
			}
			srcs = append(srcs, l+")")
		}
		extra := map[string]interface{}{"mutation_class": j.V.Class, "position": j.V.Bucket, "note": j.V.Note, "derived_from": srcs, "observed_status": out.Status}
		if out.Accepted { // only needed for witnesses: the unmodified credentials the variant was made from, and who issued them
			orig := map[string]interface{}{}
			for _, s := range j.Srcs {
				orig[s.Label] = map[string]interface{}{"cookie_header": c02Header(s.Parts), "issued_by_flags": s.Owner.P.Flags, "issued_to": s.Who.Email, "issued_two_lifetimes_ago": s.Expired}
			}
			extra["unmodified_sources"] = orig
		}
		if req != nil {
			extra["request"] = req
			extra["note_csrf"] = "state of login " + j.CSRF.Label + " with a fresh authorization code for the same authorization request"
		} else {
			extra["requests"] = "GET /oauth2/auth, GET /oauth2/userinfo, GET /c02/protected?x=1 with the Cookie header below"
		}
		switch {
		case !out.Accepted:
			run.Count("rejected", 1)
		default:
			ok := false
			for _, a := range allowed {
				o := out.Id
				if j.CSRF != nil || out.Via == "userinfo" { // a new login has new tokens; /oauth2/userinfo shows none
					o.AccessToken, o.IDToken, a.AccessToken, a.IDToken = "", "", "", ""
				}
				ok = ok || o == a
			}
			extra["observed_identity"] = out.Id.short()
			switch {
			case ok:
				run.Count("accepted_identical", 1)
				run.Count("accepted_identical_"+j.V.Class, 1)
				c02NoteAccepted(run, fmt.Sprintf("%s %s (%s) [%s, %s at %s]", j.V.Class, j.V.Bucket, j.V.Note, c.g.Store, j.Kind, j.Target.Role))
			case len(allowed) == 0 && j.CSRF != nil:
				run.Violation("c02:csrf-cookie-not-issued-accepted", fmt.Sprintf("[%s/%s] login completed (session cookie set) with a CSRF cookie this instance never produced: %s %s at %s instance (%s)",
					c.g.Store, c.g.Form.Name, j.V.Class, j.V.Bucket, j.Target.Role, j.V.Note), c.detail(j.Target, cks, extra))
			case j.CSRF != nil:
				run.Violation("c02:csrf-variant-wrong-identity", fmt.Sprintf("[%s/%s] altered CSRF cookie (%s %s) completed a login as somebody else than the code's user", c.g.Store, c.g.Form.Name, j.V.Class, j.V.Bucket), c.detail(j.Target, cks, extra))
			case len(allowed) == 0:
				run.Violation("c02:credential-not-issued-accepted", fmt.Sprintf("[%s/%s/%s] accepted as %s via %s although this instance never produced it / it is expired: %s %s at %s instance (%s)",
					c.g.Store, c.g.Form.Name, j.Kind, out.Id.Email, out.Via, j.V.Class, j.V.Bucket, j.Target.Role, j.V.Note), c.detail(j.Target, cks, extra))
			default:
				var want []map[string]string
				for _, a := range allowed {
					want = append(want, a.short())
				}
				extra["permitted_identities"] = want
				run.Violation("c02:altered-credential-decodes-differently", fmt.Sprintf("[%s/%s/%s] %s %s (%s) authenticates, but not as exactly the session that was issued (%s via %s)",
					c.g.Store, c.g.Form.Name, j.Kind, j.V.Class, j.V.Bucket, j.V.Note, out.Id.Email, out.Via), c.detail(j.Target, cks, extra))
			}
		}
		if out.Conflict != "" {
			extra["conflict"] = out.Conflict
			run.Violation("c02:endpoints-disagree-on-identity", fmt.Sprintf("[%s/%s/%s] %s %s: %s", c.g.Store, c.g.Form.Name, j.Kind, j.V.Class, j.V.Bucket, out.Conflict), c.detail(j.Target, cks, extra))
		}
		// a rejected ticket makes the proxy clear "the session": never let one variant starve the following ones
		for _, s := range j.Srcs {
			if s.RedisKey != "" && !c.w.Redis().Exists(s.RedisKey) {
				_ = c.w.Redis().Set(s.RedisKey, s.RedisVal)
				atomic.AddInt64(&restored, 1)
			}
		}
		run.SampleEvery(9973, func() interface{} {
			return map[string]interface{}{"store": c.g.Store, "secret_form": c.g.Form.Name, "kind": j.Kind, "class": j.V.Class, "position": j.V.Bucket, "note": j.V.Note,
				"target": j.Target.Role, "accepted": out.Accepted, "status": out.Status, "cookie_header": vfTrunc(c02Header(cks), 160)}
		})
	})
	run.Count("redis_entries_restored_after_clear", restored)
	c.w.Up.Reset()
}

// ---------------------------------------------------------------------------------------------------------
// the workload of one group

func (c *c02Cell) work() {
	run, g := c.run, c.g
	secret, other := g.Form.Make(c.rng)
	otherStore := map[string]string{"cookie": "redis", "redis": "cookie"}[g.Store]
	P := c.newInst("issuer", g.Store, secret, g.CookieName)
	S := c.newInst("other-secret", g.Store, other, g.CookieName)
	N := c.newInst("other-name", g.Store, secret, g.CookieName+"x")
	K := c.newInst("other-store", otherStore, secret, g.CookieName)
	c.w.IdP.Set(func(cf *vfIdPCfg) {
		cf.TokenResponseMutate = func(grant string, resp map[string]interface{}) {
			s := func(k string) string { v, _ := resp[k].(string); return v }
			c.tokMu.Lock()
			if c.longLived { // save histories run the proxy's clock hours ahead: the tokens must outlive that
				resp["expires_in"] = 86400
			}
			if cl := vfJWTClaims(s("id_token")); cl != nil {
				if sub, _ := cl["sub"].(string); sub != "" {
					if c.tokBySub == nil {
						c.tokBySub = map[string]c02Tokens{}
					}
					c.tokBySub[sub] = c02Tokens{Access: s("access_token"), ID: s("id_token"), Refresh: s("refresh_token")}
				}
			}
			c.lastTok = c02Tokens{Access: s("access_token"), ID: s("id_token"), Refresh: s("refresh_token")}
			c.tokMu.Unlock()
		}
	})
	R := c.newInst("issuer-with-refresh", g.Store, secret, g.CookieName, "--cookie-refresh=1h", "--insecure-oidc-skip-nonce=true") // same deployment as the issuer, used for the save histories only
	// (skip-nonce: the fake IdP, like most providers, issues refreshed ID tokens without a nonce claim, which the nonce check of a refreshed session rejects)
	lifetime := int64(g.Expire / time.Second)
	noExpiry := g.Expire == 0 // no credential can be "expired": the expired must-reject bases do not exist in this group
	past := func() time.Time { return time.Now().Add(-2 * g.Expire) }
	otherKeys := map[string]string{"secret of the sibling instance": other, "empty key": "", "cookie name as key": g.CookieName, "secret reversed": c02Reverse(secret)}
	if b, err := base64.RawURLEncoding.DecodeString(strings.TrimRight(secret, "=")); err == nil {
		otherKeys["decoded bytes of the base64 secret"] = string(b)
	} else {
		otherKeys["base64 of the raw secret"] = base64.URLEncoding.EncodeToString([]byte(secret))
	}

	for _, sizeName := range g.Sizes {
		size := c02Sizes[sizeName]
		userA, userB := c02Identity(c.rng, "a", 0), c02Identity(c.rng, "b", 0)
		// calibrate the bulk so that the cookie store needs exactly size.Parts cookies
		bulk := c.rng.Intn(500)
		if size.Parts > 1 {
			bulk = (size.Lo+size.Hi)/2*100/178 - 720
		}
		var A1 *c02Cred
		for try := 0; ; try++ {
			userA = c02Identity(c.rng, "a", bulk)
			A1 = c.login("A1", userA, time.Time{})
			total := len(A1.Full)
			if g.Store == "redis" {
				// ticket cookies are always small; the size class governs the Redis value
				if size.Parts == 1 || len(A1.RedisVal) > 4000 {
					break
				}
			} else if len(A1.Parts) == size.Parts && (size.Parts == 1 || (total >= size.Lo && total <= size.Hi)) {
				break
			}
			if try > 12 {
				run.T.Fatalf("C02 rig: cannot calibrate a %s session (last: %d cookies, %d chars, bulk %d)", size.Name, len(A1.Parts), total, bulk)
			}
			bulk += ((size.Lo+size.Hi)/2 - total) * 100 / 178
			if bulk < 0 {
				bulk = 0
			}
		}
		userB = c02Identity(c.rng, "b", bulk)
		A2 := c.login("A2", userA, time.Time{}) // same user, second session
		B := c.login("B", userB, time.Time{})
		var X, csrfX *c02Cred
		if !noExpiry {
			X = c.login("X", userA, past()) // same user as A, issued two lifetimes ago
			c.baseline(X)
		}
		for _, cr := range []*c02Cred{A1, A2, B} {
			c.baseline(cr)
		}
		if A1.Base == A2.Base || A1.Base.AccessToken == A2.Base.AccessToken {
			run.T.Fatalf("C02 rig: two sessions of one user are indistinguishable")
		}
		csrf1 := c.startCSRF("csrf-1", userA, time.Time{})
		csrf2 := c.startCSRF("csrf-2", userB, time.Time{})
		if !noExpiry {
			csrfX = c.startCSRF("csrf-X", userA, past())
		}
		kind := A1.kindCell()
		run.Count("issued_"+g.Store+"_"+kind, 1)
		if noExpiry {
			run.Count("issued_without_lifetime_"+g.Store, 1)
		}
		run.Count(fmt.Sprintf("issued_parts_%d", len(A1.Parts)), 1)
		nowS := time.Now().Unix()

		var jobs []c02Job
		add := func(target *c02Inst, srcs []*c02Cred, csrf *c02Cred, vs ...c02Variant) {
			k := srcs[0].kindCell()
			for _, v := range vs {
				jobs = append(jobs, c02Job{V: v, Target: target, Srcs: srcs, CSRF: csrf, Kind: k})
			}
		}
		thin := 1
		if !run.Env.Thorough() && len(A1.Full) > 3600 {
			thin = len(A1.Parts) + 1
		}
		// --- altered in place, presented to the issuer
		add(P, []*c02Cred{A1}, nil, c02PositionVariants(A1, thin, run.Env.Seed, true)...)
		add(P, []*c02Cred{A1}, nil, c02EditVariants(A1, lifetime, nowS)...)
		add(P, []*c02Cred{A1}, nil, c02ResignVariants(A1, P.Name, otherKeys)...)
		// --- recombined
		add(P, []*c02Cred{A1, A2}, nil, c02SpliceVariants(A1, A2, "same-user")...)
		add(P, []*c02Cred{A1, B}, nil, c02SpliceVariants(A1, B, "two-users")...)
		add(P, []*c02Cred{B, A1}, nil, c02SpliceVariants(B, A1, "two-users")...)
		if !noExpiry {
			add(P, []*c02Cred{X}, nil, c02EditVariants(X, lifetime, nowS)...)
			add(P, []*c02Cred{X, A1}, nil, c02SpliceVariants(X, A1, "expired-live")...)
			add(P, []*c02Cred{A1, X}, nil, c02SpliceVariants(A1, X, "live-expired")...)
			add(P, []*c02Cred{A1, A2, B, X}, nil, c02PartVariants(A1, []*c02Cred{A2, B, X})...)
			add(P, []*c02Cred{X, A1}, nil, c02PartVariants(X, []*c02Cred{A1})...)
			add(P, []*c02Cred{X}, nil, c.forged(X, P, nowS, true, otherKeys)...)
			add(P, []*c02Cred{X}, nil, c.unparsable(X, P)...)
			add(P, []*c02Cred{X}, nil, c.publicForged(X, P, nowS, true, "", true)...)
		} else {
			add(P, []*c02Cred{A1, A2, B}, nil, c02PartVariants(A1, []*c02Cred{A2, B})...)
		}
		// --- built from public knowledge only (no secret): payload of a live session (same and new timestamp), random payloads
		add(P, []*c02Cred{A1}, nil, c.publicForged(A1, P, nowS, true, "", false)...)
		add(P, []*c02Cred{A1}, nil, c.publicForged(A1, P, nowS, false, "", false)...)
		{
			pr := rand.New(rand.NewSource(run.Env.Seed*7919 + int64(len(A1.Full))))
			f := c02Split3(A1.Full)
			for _, n := range []int{32, len(f.Value) * 3 / 4} {
				add(P, []*c02Cred{A1}, nil, c.publicForged(A1, P, nowS, true, base64.URLEncoding.EncodeToString(c02RandBytes(pr, n)), false)...)
			}
		}
		// --- moved to another name
		add(P, []*c02Cred{A1, csrf1}, nil, c.transplants(A1, csrf1, P, N)...)
		// --- presented to instances that never produced it: unmodified, re-signed, forged signatures
		for _, t := range []*c02Inst{S, N, K} {
			renamed := c.renamed(A1, t)
			add(t, []*c02Cred{A1}, nil, c02Variant{Class: "foreign-instance", Bucket: "unmodified", Note: "cookie of the issuer presented under the target's cookie name", Build: func() []c02CK { return renamed.Parts }})
			add(t, []*c02Cred{A1}, nil, c.forged(renamed, t, nowS, false, otherKeys)...)
			add(t, []*c02Cred{A1}, nil, c.publicForged(renamed, t, nowS, true, "", false)...)
			if t.Name != P.Name {
				add(t, []*c02Cred{A1}, nil, c02Variant{Class: "foreign-instance", Bucket: "issuer-names", Note: "cookie of the issuer under the issuer's names", Build: func() []c02CK { return A1.Parts }})
			}
		}
		// re-signed with the TARGET's secret: still encrypted under the issuer's key (cookie store) — must not decode
		if g.Store == "cookie" {
			f := c02Split3(A1.Full)
			add(S, []*c02Cred{A1}, nil, c02Mut("resign-target-key", "other-secret", "value encrypted by the issuer, MAC of the sibling's secret", A1, func() string {
				return c02Fields{f.Value, f.TS, c02Sig(S.Secret, S.Name, f.Value, f.TS), true}.String()
			}))
		}
		add(P, []*c02Cred{A1}, nil, c.unparsable(A1, P)...)
		add(P, []*c02Cred{csrf1}, csrf1, c.unparsable(csrf1, P)...)
		// --- cookie names that swallow the head of the value (the MAC input has no delimiters)
		for _, k := range g.ShiftWidths {
			k := k
			if k >= len(A1.Parts[0].Value) {
				continue
			}
			head := A1.Parts[0].Value[:k]
			NS := c.newInst(fmt.Sprintf("name-shift-%d", k), g.Store, secret, g.CookieName+head)
			add(NS, []*c02Cred{A1}, nil, c02Variant{Class: "name-boundary-shift", Bucket: fmt.Sprintf("%d-chars", k), Note: "cookie name = issuer's name + first characters of the value; value without them", Build: func() []c02CK {
				return c02Like(A1.Parts, NS.Name, A1.Full[k:])
			}})
			add(NS, []*c02Cred{A1}, nil, c02Variant{Class: "name-boundary-shift", Bucket: fmt.Sprintf("%d-chars", k), Note: "same, unpadded value", Build: func() []c02CK {
				f := c02Split3(A1.Full)
				return c02Like(A1.Parts, NS.Name, strings.TrimRight(f.Value[k:], "=")+"|"+f.TS+"|"+f.Sig)
			}})
		}
		// --- CSRF cookies at the callback
		add(P, []*c02Cred{csrf1}, csrf1, c02PositionVariants(csrf1, 1, run.Env.Seed, false)...)
		add(P, []*c02Cred{csrf1}, csrf1, c02EditVariants(csrf1, lifetime, nowS)...)
		add(P, []*c02Cred{csrf1}, csrf1, c02ResignVariants(csrf1, csrf1.Parts[0].Name, otherKeys)...)
		add(P, []*c02Cred{csrf1, csrf2}, csrf1, c02SpliceVariants(csrf1, csrf2, "two-logins")...)
		if !noExpiry {
			add(P, []*c02Cred{csrfX}, csrfX, c02EditVariants(csrfX, lifetime, nowS)...)
			add(P, []*c02Cred{csrf1, csrfX}, csrf1, c02SpliceVariants(csrf1, csrfX, "live-expired")...)
			add(P, []*c02Cred{csrfX, csrf1}, csrfX, c02SpliceVariants(csrfX, csrf1, "expired-live")...)
			add(P, []*c02Cred{csrfX}, csrfX, c.forged(csrfX, P, nowS, true, otherKeys)...)
			add(P, []*c02Cred{csrfX}, csrfX, c.publicForged(csrfX, P, nowS, true, "", false)...)
		}
		add(P, []*c02Cred{csrf1}, csrf1, c.publicForged(csrf1, P, nowS, true, "", false)...)
		add(P, []*c02Cred{csrf1, csrf2, A1}, csrf1, c.csrfTransplants(csrf1, csrf2, A1)...)
		for _, t := range []*c02Inst{S, N} {
			renamed := c.renamedCSRF(csrf1, t)
			add(t, []*c02Cred{csrf1}, csrf1, c02Variant{Class: "foreign-instance", Bucket: "unmodified", Build: func() []c02CK { return renamed.Parts }})
			add(t, []*c02Cred{csrf1}, csrf1, c.forged(renamed, t, nowS, false, otherKeys)...)
		}
		// baselines of the CSRF cookies (unmodified): live must complete, expired must not
		if out, _ := c.presentCSRF(P, csrf1, csrf1.Parts); !out.Accepted || out.Id.Email != userA.Email {
			run.T.Fatalf("C02 rig: unmodified CSRF cookie does not complete its login: %+v", out)
		}
		if csrfX == nil {
		} else if out, _ := c.presentCSRF(P, csrfX, csrfX.Parts); out.Accepted {
			csrfX.Unusable = true
			run.Count("expired_base_honoured_unmodified", 1)
			fmt.Printf("NOTE property=C02 CSRF cookie issued two lifetimes ago still completes a login unmodified (C09's subject); its variants are not judged\n")
		}
		kept := jobs[:0]
		for _, j := range jobs {
			skip := false
			for _, s := range j.Srcs {
				skip = skip || s.Unusable
			}
			if !skip {
				kept = append(kept, j)
			}
		}
		jobs = kept
		for i := range jobs {
			jobs[i].fullRow = jobs[i].V.Class != "subst-alphabet" && jobs[i].V.Class != "subst-separator" && jobs[i].V.Class != "subst-foreign" &&
				jobs[i].V.Class != "truncate-part" && jobs[i].V.Class != "truncate-joined" && jobs[i].V.Class != "forged-signature"
		}
		tJobs := time.Now()
		c.runJobs(jobs)
		if testing.Verbose() {
			fmt.Printf("NOTE c02 %s/%s/%s: %d jobs in %v (cookie %d chars, %d parts)\n", g.Store, g.Form.Name, size.Name, len(jobs), time.Since(tJobs).Round(time.Millisecond), len(A1.Full), len(A1.Parts))
		}
		if g.Store == "cookie" {
			c.resave(P, A1)
		}
		// the issued sessions must have survived the bombardment unchanged (else later variants were judged against nothing)
		for _, cr := range []*c02Cred{A1, A2, B} {
			out := c02Probe(c.w, cr.Owner, cr.Parts, false)
			if !out.Accepted || out.Id != cr.Base {
				run.T.Fatalf("C02 rig: session %s no longer honoured after the variants were presented: %+v", cr.Label, out)
			}
		}
	}
	c.loginFixation(P, S, secret)
	tCo := time.Now()
	c.concurrentIssue(P)
	if testing.Verbose() {
		fmt.Printf("NOTE c02 %s/%s: concurrent issuing in %v\n", g.Store, g.Form.Name, time.Since(tCo).Round(time.Millisecond))
	}
	c.saveHistory(R, 3)
	tOp := time.Now()
	c.opacity()
	if testing.Verbose() {
		fmt.Printf("NOTE c02 %s/%s: opacity in %v\n", g.Store, g.Form.Name, time.Since(tOp).Round(time.Millisecond))
	}
	_ = K
}

var (
	c02AccMu  sync.Mutex
	c02AccEx  = map[string][]string{}
	c02AccAll = map[string]int{}
)

// c02NoteAccepted keeps examples of altered credentials that were accepted as exactly the issued session
// (evidence: these are the cases in which the relational half of the oracle actually compared identities).
func c02NoteAccepted(run *vfRun, what string) {
	c02AccMu.Lock()
	defer c02AccMu.Unlock()
	k := what
	if i := strings.IndexByte(what, '('); i > 0 {
		k = strings.TrimSpace(what[:i])
	}
	c02AccAll[k]++
	if len(c02AccEx[k]) < 2 {
		c02AccEx[k] = append(c02AccEx[k], what)
	}
}

func c02Reverse(s string) string {
	b := []byte(s)
	for i, j := 0, len(b)-1; i < j; i, j = i+1, j-1 {
		b[i], b[j] = b[j], b[i]
	}
	return string(b)
}

// renamed: the credential as an attacker would present it to instance t — same values under t's cookie names.
func (c *c02Cell) renamed(cr *c02Cred, t *c02Inst) *c02Cred {
	n := *cr
	n.Parts = c02Like(cr.Parts, t.Name, cr.Full)
	if len(cr.Parts) == 1 {
		n.Parts = []c02CK{{t.Name, cr.Full}}
	}
	return &n
}

func (c *c02Cell) renamedCSRF(cr *c02Cred, t *c02Inst) *c02Cred {
	n := *cr
	name := t.Name + strings.TrimPrefix(cr.Parts[0].Name, cr.Owner.Name)
	n.Parts = []c02CK{{name, cr.Full}}
	return &n
}

// forged: the value of cr (under the names it carries now) with signatures that are not the correct complete MAC of
// target t. retime: stamp it with the current time first (for credentials that are rejected only because of their age).
func (c *c02Cell) forged(cr *c02Cred, t *c02Inst, nowS int64, retime bool, otherKeys map[string]string) []c02Variant {
	f := c02Split3(cr.Full)
	if !f.OK {
		return nil
	}
	ts := f.TS
	if retime {
		ts = strconv.FormatInt(nowS, 10)
	}
	macName := t.Name
	if cr.Kind == "csrf" {
		macName = cr.Parts[0].Name
	}
	var out []c02Variant
	names := cr.Parts
	foreign := map[string]string{}
	for kn, k := range otherKeys {
		if k != t.Secret { // a key that IS the target's secret signs legitimately — not a forgery
			foreign[kn] = k
		}
	}
	for label, sig := range c02ForgedSigs(t.Secret, macName, f.Value, ts, f.Sig, foreign) {
		s := f.Value + "|" + ts + "|" + sig
		out = append(out, c02Variant{Class: "forged-signature", Bucket: label, Note: fmt.Sprintf("retimed=%v signature=%s", retime, label), Build: func() []c02CK {
			if len(names) == 1 {
				return []c02CK{{names[0].Name, s}}
			}
			return c02Like(names, t.Name, s)
		}})
	}
	if retime {
		// timestamp edits alone (signature kept) on a credential that is only rejected for its age
		for label, e := range map[string]int64{"now": nowS, "now-1": nowS - 1, "now-60": nowS - 60, "now+1": nowS + 1, "now+200": nowS + 200} {
			s := f.Value + "|" + strconv.FormatInt(e, 10) + "|" + f.Sig
			out = append(out, c02Variant{Class: "timestamp", Bucket: "expired-to-" + label, Build: func() []c02CK {
				if len(names) == 1 {
					return []c02CK{{names[0].Name, s}}
				}
				return c02Like(names, t.Name, s)
			}})
		}
	}
	return out
}

// publicForged: credentials built from PUBLIC knowledge only — a payload (the value of an issued credential re-used, or
// random bytes when payload != ""), the current time (or the original timestamp), and a signature anybody can compute
// without the cookie secret (c02PublicSigs). The proxy cannot have produced them: Must be rejected, also when the
// payload is that of a live session. wide=false: the constructions keyed with the name / empty key / unkeyed only.
func (c *c02Cell) publicForged(cr *c02Cred, t *c02Inst, nowS int64, retime bool, payload string, wide bool) []c02Variant {
	f := c02Split3(cr.Full)
	if !f.OK {
		return nil
	}
	ts, value, what := f.TS, f.Value, "issued-value"
	if retime {
		ts = strconv.FormatInt(nowS, 10)
	}
	if payload != "" {
		value, what = payload, "random-value"
	}
	macName := t.Name
	if cr.Kind == "csrf" {
		macName = cr.Parts[0].Name
	}
	names := cr.Parts
	genuine := c02Sig(t.Secret, macName, value, ts)
	var out []c02Variant
	for label, sig := range c02PublicSigs(macName, value, ts, c.run.Env.Thorough()) {
		if sig == genuine || sig == f.Sig {
			continue
		}
		if !wide && !c.run.Env.Thorough() && !(strings.HasSuffix(label, "/b64url") && (strings.Contains(label, "key=name/") || strings.Contains(label, "key=empty/") || strings.Contains(label, "key=unkeyed/"))) {
			continue
		}
		s := value + "|" + ts + "|" + sig
		out = append(out, c02Variant{Must: true, Class: "forged-signature-public-knowledge", Bucket: label, Note: fmt.Sprintf("%s retimed=%v signature computable without the secret: %s", what, retime, label), Build: func() []c02CK {
			if len(names) == 1 {
				return []c02CK{{names[0].Name, s}}
			}
			return c02Like(names, t.Name, s)
		}})
	}
	sort.Slice(out, func(i, j int) bool { return out[i].Bucket < out[j].Bucket })
	return out
}

// unparsable: the value of cr, correctly signed WITH THE INSTANCE'S OWN KEY, but with a timestamp that no reading can
// interpret as a number. The proxy stamps every credential with a decimal Unix time, so it cannot have produced these,
// and a credential whose issue time cannot be read cannot be inside its lifetime: must be rejected.
// (Forms that some lenient number parser would read — leading '+', leading zeros, surrounding blanks, "1e10", "0x..",
// "12.5", "NaN" — are deliberately not included: accepting those would be harmless.)
func (c *c02Cell) unparsable(cr *c02Cred, t *c02Inst) []c02Variant {
	f := c02Split3(cr.Full)
	if !f.OK {
		return nil
	}
	macName := t.Name
	if cr.Kind == "csrf" {
		macName = cr.Parts[0].Name
	}
	var out []c02Variant
	names := cr.Parts
	vt := strings.TrimRight(f.Value, "=")
	for label, ts := range map[string]string{"empty": "", "alpha": "abcdefghij", "digits-then-alpha": f.TS[:5] + "abcde", "minus-only": "-", "inner-space": f.TS[:5] + " " + f.TS[5:],
		"two-numbers": f.TS + "," + f.TS, "value-tail": vt[len(vt)-4:] + "x" + f.TS} {
		s := f.Value + "|" + ts + "|" + c02Sig(t.Secret, macName, f.Value, ts)
		out = append(out, c02Variant{Must: true, Class: "unparsable-timestamp-signed-with-instance-key", Bucket: label, Note: fmt.Sprintf("timestamp %q, complete correct MAC", ts), Build: func() []c02CK {
			if len(names) == 1 {
				return []c02CK{{names[0].Name, s}}
			}
			return c02Like(names, t.Name, s)
		}})
	}
	return out
}

// transplants: values moved to other cookie names, presented to the issuer.
func (c *c02Cell) transplants(s, csrf *c02Cred, P, N *c02Inst) []c02Variant {
	var out []c02Variant
	mk := func(bucket, note string, cks ...c02CK) {
		out = append(out, c02Variant{Class: "transplant", Bucket: bucket, Note: note, Build: func() []c02CK { return cks }})
	}
	nm := func(i int) string { return fmt.Sprintf("%s_%d", P.Name, i) }
	mk("csrf-value-as-session", "CSRF cookie value under the session cookie name", c02CK{P.Name, csrf.Full})
	mk("csrf-value-as-session", "CSRF cookie value under split name _0", c02CK{nm(0), csrf.Full})
	mk("csrf-value-as-session", "CSRF cookie value cut in two split parts", c02CK{nm(0), csrf.Full[:len(csrf.Full)/2]}, c02CK{nm(1), csrf.Full[len(csrf.Full)/2:]})
	mk("session-under-csrf-name", "session value under the CSRF cookie name only", c02CK{csrf.Parts[0].Name, s.Full})
	mk("session-under-other-instance-name", "session value under the name of another instance only", c02CK{N.Name, s.Full})
	mk("session-under-split-name", "whole value under _0", c02CK{nm(0), s.Full})
	mk("session-under-split-name", "whole value under _1", c02CK{nm(1), s.Full})
	mk("session-under-split-name", "whole value under _0 and an empty _1", c02CK{nm(0), s.Full}, c02CK{nm(1), ""})
	mk("session-under-split-name", "value cut in two halves under _0,_1", c02CK{nm(0), s.Full[:len(s.Full)/2]}, c02CK{nm(1), s.Full[len(s.Full)/2:]})
	mk("session-under-split-name", "value cut in three under _0,_1,_2", c02CK{nm(0), s.Full[:len(s.Full)/3]}, c02CK{nm(1), s.Full[len(s.Full)/3 : 2*len(s.Full)/3]}, c02CK{nm(2), s.Full[2*len(s.Full)/3:]})
	mk("session-under-split-name", "value cut at the separators under _0,_1,_2", func() []c02CK {
		f := c02Split3(s.Full)
		return []c02CK{{nm(0), f.Value + "|"}, {nm(1), f.TS + "|"}, {nm(2), f.Sig}}
	}()...)
	mk("session-under-split-name", "parts under names _1.. (shifted by one)", func() []c02CK {
		var o []c02CK
		for i, p := range s.Parts {
			o = append(o, c02CK{nm(i + 1), p.Value})
		}
		return o
	}()...)
	mk("session-name-case", "cookie name upper-cased", c02CK{strings.ToUpper(P.Name), s.Full})
	if len(s.Parts) > 1 {
		mk("split-under-base-name", "part 0 under the unsplit name", c02CK{P.Name, s.Parts[0].Value})
		mk("split-under-base-name", "last part under the unsplit name", c02CK{P.Name, s.Parts[len(s.Parts)-1].Value})
	}
	return out
}

// csrfTransplants: other values under the CSRF cookie name at the callback of login csrf1.
func (c *c02Cell) csrfTransplants(csrf1, csrf2, s *c02Cred) []c02Variant {
	var out []c02Variant
	name := csrf1.Parts[0].Name
	mk := func(bucket, note string, cks ...c02CK) {
		out = append(out, c02Variant{Class: "transplant", Bucket: bucket, Note: note, Build: func() []c02CK { return cks }})
	}
	mk("session-value-as-csrf", "session cookie value under the CSRF cookie name", c02CK{name, s.Full})
	mk("other-login-csrf", "CSRF cookie value of another login under this login's CSRF cookie name", c02CK{name, csrf2.Full})
	mk("other-login-csrf", "CSRF cookie of another login under its own name", csrf2.Parts[0])
	mk("csrf-under-session-name", "CSRF value under the session name only", c02CK{s.Owner.Name, csrf1.Full})
	mk("csrf-under-generic-name", "CSRF value under <name>_csrf and <name>_<x>_csrf", c02CK{s.Owner.Name + "_csrf", csrf1.Full}, c02CK{s.Owner.Name + "_AAAAAAAA_csrf", csrf1.Full})
	mk("no-cookie", "no cookie at all")
	return out
}

// c02Payload: one complete signed value (split parts joined) of a cookie encrypted under the cookie secret.
type c02Payload struct {
	Kind, Label, Full, MustContain string
}

func (c *c02Cell) notePayload(kind, label, full, mustContain string) {
	c.seenMu.Lock()
	c.payloads = append(c.payloads, c02Payload{kind, label, full, mustContain})
	c.seenMu.Unlock()
}

// sessionCookiesOf extracts the (non-empty) session cookies of instance in from Set-Cookie lines, in part order.
func sessionCookiesOf(in *c02Inst, lines []string) []c02CK {
	var out []c02CK
	for _, line := range lines {
		if ck, err := http.ParseSetCookie(line); err == nil && in.isSessionCookie(ck.Name) && ck.Value != "" {
			out = append(out, c02CK{ck.Name, ck.Value})
		}
	}
	sort.SliceStable(out, func(i, j int) bool { return len(out[i].Name) < len(out[j].Name) || (len(out[i].Name) == len(out[j].Name) && out[i].Name < out[j].Name) })
	return out
}

func (c *c02Cell) observeStore(key, val string) {
	c.seenMu.Lock()
	defer c.seenMu.Unlock()
	if c.storeObs == nil {
		c.storeObs = map[string][]string{}
	}
	for _, v := range c.storeObs[key] {
		if v == val {
			return
		}
	}
	c.storeObs[key] = append(c.storeObs[key], val)
}

// resave: the SAME session saved a second time through the proxy's own load / save entry points (what a refresh
// without new tokens does): two encryptions of one plaintext, for the similarity check.
func (c *c02Cell) resave(P *c02Inst, cr *c02Cred) {
	req := httptest.NewRequest("GET", "http://proxy.test/", nil)
	for _, ck := range cr.Parts {
		req.AddCookie(&http.Cookie{Name: ck.Name, Value: ck.Value})
	}
	ss, err := P.P.P.LoadCookiedSession(req)
	if err != nil || ss == nil {
		c.run.T.Fatalf("C02 rig: LoadCookiedSession of unmodified %s: %v", cr.Label, err)
	}
	rw := httptest.NewRecorder()
	if err := P.P.P.SaveSession(rw, req, ss); err != nil {
		c.run.T.Fatalf("C02 rig: SaveSession of %s: %v", cr.Label, err)
	}
	parts := sessionCookiesOf(P, rw.Header().Values("Set-Cookie"))
	if len(parts) == 0 {
		c.run.T.Fatalf("C02 rig: re-saving %s set no session cookie", cr.Label)
	}
	c.seenMu.Lock()
	for _, ck := range parts {
		c.seenCookies[ck.Name+"="+ck.Value] = true
	}
	c.seenMu.Unlock()
	c.notePayload("session", cr.Label+" (saved again)", c02Join(parts), cr.Who.Email)
	c.run.Count("sessions_saved_twice_unchanged", 1)
	if out := c02Probe(c.w, P, parts, false); !out.Accepted || out.Id != cr.Base {
		c.run.Violation("c02:issued-cookie-decodes-to-another-session", fmt.Sprintf("[%s/%s] session %s saved again unchanged: the new cookie does not decode to it", c.g.Store, c.g.Form.Name, cr.Label),
			c.detail(P, parts, map[string]interface{}{"observed": out.Id.short(), "status": out.Status, "expected": cr.Base.short()}))
	}
}

// concurrentIssue: many users are issued credentials AT THE SAME TIME, then every issued cookie is presented
// unmodified: it must decode to exactly the session of the user it was issued to (all six fields).
//  (1) real logins of different users from 16 goroutines;
//  (2) cookie store: thousands of saves of distinct sessions of similar size from 64 goroutines through the proxy's
//      SaveSession entry point (the code path of every login / refresh, without the IdP round trips).
func (c *c02Cell) concurrentIssue(P *c02Inst) {
	run := c.run
	type issued struct {
		who   vfIdentity
		want  c02Ident
		parts []c02CK
		err   string
		via   string
	}
	nG, per := 16, run.Env.Pick(4, 10)
	logins := make([]issued, nG*per)
	for i := range logins {
		logins[i].who = c02Identity(c.rng, fmt.Sprintf("c%d", i), c.rng.Intn(300))
		logins[i].via = "concurrent real login"
	}
	vfParallel(len(logins), nG, func(i int) {
		b := vfNewBrowser("")
		if _, _, err := b.Login(P.P, logins[i].who, "/"); err != nil {
			logins[i].err = err.Error()
			return
		}
		for _, ck := range b.Jar.All() {
			if P.isSessionCookie(ck.Name) {
				logins[i].parts = append(logins[i].parts, c02CK{ck.Name, ck.Value})
			}
		}
		sort.SliceStable(logins[i].parts, func(a, b int) bool { return logins[i].parts[a].Name < logins[i].parts[b].Name })
	})
	c.tokMu.Lock()
	for i := range logins {
		w, t := logins[i].who, c.tokBySub[logins[i].who.Sub]
		logins[i].want = c02Ident{Email: w.Email, User: w.Sub, Groups: strings.Join(w.Groups, ","), PrefUser: w.PreferredUsername, AccessToken: t.Access, IDToken: t.ID}
	}
	c.tokMu.Unlock()
	all := logins
	if P.Store == "cookie" {
		nW, perW := 64, run.Env.Pick(25, 100)
		saves := make([]issued, nW*perW)
		now := time.Now()
		exp := now.Add(time.Hour)
		for i := range saves {
			tag := fmt.Sprintf("%05d", i)
			saves[i].via = "concurrent SaveSession"
			saves[i].want = c02Ident{Email: "syn" + tag + "." + c02RandStr(c.rng, 8, c02Alnum) + "@concurrent.example", User: "u-syn-" + tag + "-" + c02RandStr(c.rng, 12, c02Alnum),
				Groups: "g-" + tag + "," + c02RandStr(c.rng, 24, c02Alnum), PrefUser: "pu-syn-" + tag + c02RandStr(c.rng, 6, c02Alnum),
				AccessToken: "at-syn-" + tag + "-" + c02RandStr(c.rng, 24, c02Alnum), IDToken: "eyJzeW4i" + tag + c02RandStr(c.rng, 1500, c02Alnum)}
		}
		refresh := make([]string, len(saves))
		for i := range refresh {
			refresh[i] = "rt-syn-" + c02RandStr(c.rng, 24, c02Alnum)
		}
		vfParallel(len(saves), nW, func(i int) {
			w := saves[i].want
			created, expires := now, exp
			ss := &sessionsapi.SessionState{CreatedAt: &created, ExpiresOn: &expires, AccessToken: w.AccessToken, IDToken: w.IDToken, RefreshToken: refresh[i],
				Email: w.Email, User: w.User, Groups: strings.Split(w.Groups, ","), PreferredUsername: w.PrefUser}
			rw := httptest.NewRecorder()
			if err := P.P.P.SaveSession(rw, httptest.NewRequest("GET", "http://proxy.test/", nil), ss); err != nil {
				saves[i].err = err.Error()
				return
			}
			saves[i].parts = sessionCookiesOf(P, rw.Header().Values("Set-Cookie"))
		})
		all = append(all, saves...)
	}
	for i := range all {
		if all[i].err != "" || len(all[i].parts) == 0 {
			run.T.Fatalf("C02 rig: %s %d failed: %s (%d cookies)", all[i].via, i, all[i].err, len(all[i].parts))
		}
	}
	vfParallel(len(all), 16, func(i int) {
		it := &all[i]
		out := c02Probe(c.w, P, it.parts, false)
		run.Eval(fmt.Sprintf("%s|%s|concurrent-issue|%s", c.g.Store, c.g.Form.Name, it.via))
		run.Count("concurrently_issued_credentials_checked", 1)
		switch {
		case !out.Accepted:
			run.Violation("c02:issued-cookie-rejected-unmodified", fmt.Sprintf("[%s/%s] a cookie issued to %s (%s) is rejected when presented unmodified", c.g.Store, c.g.Form.Name, it.want.Email, it.via),
				c.detail(P, it.parts, map[string]interface{}{"issued_to": it.want.short(), "status": out.Status, "how": it.via + ", many users at the same time"}))
		case out.Id != it.want:
			run.Violation("c02:issued-cookie-decodes-to-another-session", fmt.Sprintf("[%s/%s] the unmodified cookie issued to %s (%s) decodes to the session of %s", c.g.Store, c.g.Form.Name, it.want.Email, it.via, out.Id.Email),
				c.detail(P, it.parts, map[string]interface{}{"issued_to": it.want.short(), "decodes_to": out.Id.short(), "how": it.via + ", many users at the same time"}))
		}
	})
	// Redis store: distinctness / independence of tickets issued at the same time (c02_unique.go)
	if P.Store == "redis" {
		var tks []c02TicketRec
		for i := range logins {
			if tk := c02TicketOf(c02Join(logins[i].parts)); tk.OK {
				tks = append(tks, c02TicketRec{ID: tk.ID, Secret: tk.Secret, Who: logins[i].who.Email, Via: logins[i].via, Cookie: c02Header(logins[i].parts)})
			}
		}
		c.concurrentTickets(P, tks)
	}
	// a few of them take part in the similarity check
	for i := 0; i < len(all) && i < 24; i++ {
		if P.Store == "cookie" {
			k := i * (len(all) / 24)
			c.notePayload("session", fmt.Sprintf("%s #%d", all[k].via, k), c02Join(all[k].parts), all[k].want.Email)
		}
	}
	c.w.Up.Reset()
}

// c02History: the successive versions of ONE session as an observer of the store / of the browser traffic sees them.
type c02History struct {
	Label    string
	RedisKey string
	Versions []string    // raw store values, in save order (Redis store)
	Tokens   []c02Tokens // the tokens of each version (known to the harness from the IdP's books)
	Who      vfIdentity
	Flags    []string
}

// saveHistory makes the proxy save the SAME session several times through the same cookie / ticket, the way a
// deployment with --cookie-refresh does: one real login, then n requests each an hour later on the proxy's clock, each
// of which refreshes the tokens at the IdP and re-saves the session (Redis: same ticket, same store entry).
func (c *c02Cell) saveHistory(R *c02Inst, n int) {
	who := c02Identity(c.rng, "r", c.rng.Intn(300))
	setLong := func(b bool) { c.tokMu.Lock(); c.longLived = b; c.tokMu.Unlock() }
	setLong(true)
	c.w.IdP.Set(func(cf *vfIdPCfg) { cf.IDTokenTTL = 24 * time.Hour; cf.NoRefreshRotation = true })
	defer func() {
		setLong(false)
		c.w.IdP.Set(func(cf *vfIdPCfg) { cf.IDTokenTTL = time.Hour; cf.NoRefreshRotation = false })
	}()
	cr := c.loginAt(R, "R", who, time.Time{})
	h := &c02History{Label: "R", RedisKey: cr.RedisKey, Tokens: []c02Tokens{cr.Tok}, Who: who, Flags: R.P.Flags}
	if cr.RedisKey != "" {
		h.Versions = append(h.Versions, cr.RedisVal)
	}
	for k := 1; k <= n; k++ {
		clock.Set(time.Now().Add(time.Duration(k) * 61 * time.Minute))
		r := R.P.Do(vfGET("/oauth2/auth", "Cookie", c02Header(cr.Parts)))
		clock.Reset()
		c.tokMu.Lock()
		tok := c.lastTok
		c.tokMu.Unlock()
		if r.Code != 202 || tok.Access == h.Tokens[len(h.Tokens)-1].Access || len(r.SetCookies()) == 0 {
			c.run.T.Fatalf("C02 rig: refresh %d of session R did not re-save the session (status %d, %d Set-Cookie, tokens changed: %v)", k, r.Code, len(r.SetCookies()), tok.Access != h.Tokens[len(h.Tokens)-1].Access)
		}
		h.Tokens = append(h.Tokens, tok)
		label := fmt.Sprintf("R (version %d)", k+1)
		c.sec.Add("access token of "+label, tok.Access)
		c.sec.Add("refresh token of "+label, tok.Refresh)
		c.sec.Add("ID token of "+label, tok.ID)
		c.seenMu.Lock()
		for _, line := range r.SetCookies() {
			if ck, err := http.ParseSetCookie(line); err == nil && ck.Value != "" {
				c.seenCookies[ck.Name+"="+ck.Value] = true
			}
		}
		c.seenMu.Unlock()
		if R.Store == "cookie" {
			c.notePayload("session", label, c02Join(sessionCookiesOf(R, r.SetCookies())), who.Email)
		}
		if cr.RedisKey != "" {
			v, err := c.w.Redis().Get(cr.RedisKey)
			if err != nil || v == h.Versions[len(h.Versions)-1] {
				c.run.T.Fatalf("C02 rig: refresh %d of session R left the store entry %q unchanged (%v)", k, cr.RedisKey, err)
			}
			h.Versions = append(h.Versions, v)
			c.observeStore(cr.RedisKey, v)
		}
		c.run.Count("sessions_resaved_through_same_cookie", 1)
	}
	c.histories = append(c.histories, h)
}

// opacity: every cookie value received during the logins and every raw Redis value, against every secret of the group.
func (c *c02Cell) opacity() {
	run := c.run
	names := make([]string, 0, len(c.seenCookies))
	for k := range c.seenCookies {
		names = append(names, k)
	}
	sort.Strings(names)
	type item struct{ where, key, val string }
	var items []item
	for _, nv := range names {
		k := strings.IndexByte(nv, '=')
		items = append(items, item{"cookie", nv[:k], nv[k+1:]})
	}
	for _, k := range c.w.Redis().Keys() {
		if v, err := c.w.Redis().Get(k); err == nil {
			items = append(items, item{"redis", k, v})
		}
	}
	var stages int64
	vfParallel(len(items), 16, func(i int) {
		it := items[i]
		leak, n := c.sec.Recover(it.val)
		atomic.AddInt64(&stages, int64(n))
		kind := "csrf"
		switch {
		case it.where == "redis":
			kind = "store-value"
		case !strings.HasSuffix(it.key, "_csrf"):
			kind = "session-or-ticket"
		}
		run.Eval(fmt.Sprintf("%s|%s|opacity|%s", c.g.Store, c.g.Form.Name, kind))
		run.Count("opacity_values_"+kind, 1)
		if leak != nil {
			sig := "c02:plaintext-recoverable-from-cookie"
			if it.where == "redis" {
				sig = "c02:plaintext-recoverable-from-store"
			}
			run.Violation(sig, fmt.Sprintf("[%s/%s] %s recoverable without the key from %s %q (%s form, stage %s)", c.g.Store, c.g.Form.Name, leak.Secret, it.where, it.key, leak.Form, leak.Stage),
				map[string]interface{}{"flags": c.inst["issuer"].P.Flags, "where": it.where, "name_or_key": it.key, "value": it.val, "leak": leak})
		}
	})
	run.Count("opacity_stages_searched", stages)
	run.Count("opacity_secrets_known", int64(c.sec.Count()))
	flags := c.inst["issuer"].P.Flags

	// --- IVs of everything encrypted under the cookie secret (cookie-store sessions, CSRF cookies): never twice
	ivSeen := map[string]string{}
	for _, it := range items {
		if it.where != "cookie" {
			continue
		}
		csrf := strings.HasSuffix(it.key, "_csrf")
		first := csrf || it.key == c.g.CookieName || it.key == c.g.CookieName+"_0"
		if !first || (c.g.Store == "redis" && !csrf) { // (a ticket cookie is not a ciphertext)
			continue
		}
		iv, ok := c02CookieIV(it.val)
		if !ok {
			continue
		}
		run.Count("ivs_observed_cookie_secret", 1)
		if prev, dup := ivSeen[iv]; dup {
			run.Violation("c02:iv-or-nonce-reused", fmt.Sprintf("[%s/%s] two different cookies encrypted under the cookie secret carry the same IV %x", c.g.Store, c.g.Form.Name, iv),
				map[string]interface{}{"flags": flags, "iv_hex": fmt.Sprintf("%x", iv), "cookie_1": prev, "cookie_2": it.key + "=" + it.val})
		} else {
			ivSeen[iv] = it.key + "=" + it.val
		}
	}
	run.Eval(fmt.Sprintf("%s|%s|opacity|iv-uniqueness", c.g.Store, c.g.Form.Name))

	// --- known-answer check of the cookie cipher (with the secret) and ciphertext similarity (without)
	key := c02AESKey(c.inst["issuer"].Secret)
	type pl struct {
		c02Payload
		raw []byte
	}
	var pls []pl
	for _, p := range c.payloads {
		run.Count("cookie_cipher_known_answer_checks", 1)
		run.Eval(fmt.Sprintf("%s|%s|opacity|cipher-known-answer-%s", c.g.Store, c.g.Form.Name, p.Kind))
		if err := c02CheckCookieCipher(p.Kind, key, p.Full, p.MustContain); err != nil {
			run.Violation("c02:cookie-cipher-is-not-aes-cfb", fmt.Sprintf("[%s/%s] %s cookie %q is not AES-CFB(IV, documented plaintext) under the cookie secret: %v", c.g.Store, c.g.Form.Name, p.Kind, p.Label, err),
				map[string]interface{}{"flags": flags, "cookie_value": p.Full, "kind": p.Kind, "check": "independent decryption with Go crypto/cipher NewCFBDecrypter(AES(cookie secret), first 16 bytes)"})
		}
		if raw, err := c02PayloadOf(p.Full); err == nil && len(pls) < 96 {
			pls = append(pls, pl{p, raw})
		}
	}
	for i := range pls {
		for j := i + 1; j < len(pls); j++ {
			run.Count("cookie_payload_pairs_compared", 1)
			if r, at := c02EqualRun(pls[i].raw, pls[j].raw, 16); r >= 24 {
				run.Violation("c02:iv-or-nonce-reused", fmt.Sprintf("[%s/%s] cookies %q and %q (different IVs) agree in %d consecutive ciphertext bytes at offset %d: the key stream does not depend on the IV", c.g.Store, c.g.Form.Name,
					pls[i].Label, pls[j].Label, r, at), map[string]interface{}{"flags": flags, "cookie_1": pls[i].Full, "cookie_2": pls[j].Full, "equal_run": r, "offset": at})
			}
		}
	}
	run.Eval(fmt.Sprintf("%s|%s|opacity|ciphertext-similarity", c.g.Store, c.g.Form.Name))

	// --- store entries: every version ever observed under a key
	for _, it := range items {
		if it.where == "redis" {
			c.observeStore(it.key, it.val)
		}
	}
	keys := make([]string, 0, len(c.storeObs))
	for k := range c.storeObs {
		keys = append(keys, k)
	}
	sort.Strings(keys)
	acrossKeys := map[string]string{}
	for _, k := range keys {
		vers := c.storeObs[k]
		run.Count("store_entry_versions_observed", int64(len(vers)))
		// (1) nonce uniqueness among the versions of one entry (= one key)
		nonces := map[string]int{}
		for vi, v := range vers {
			if len(v) < 12 {
				continue
			}
			nc := v[:12]
			if pv, dup := nonces[nc]; dup {
				run.Violation("c02:iv-or-nonce-reused", fmt.Sprintf("[%s/%s] versions %d and %d of store entry %q (same ticket, hence same key) carry the same 12-byte nonce %x", c.g.Store, c.g.Form.Name, pv+1, vi+1, k, nc),
					map[string]interface{}{"flags": flags, "store_key": k, "nonce_hex": fmt.Sprintf("%x", nc), "version_a_hex": fmt.Sprintf("%x", vers[pv]), "version_b_hex": fmt.Sprintf("%x", v),
						"history": "one login at an instance with --cookie-refresh=1h, then requests with the same ticket cookie 61, 122, 183 minutes later (proxy clock): each refreshes the tokens and re-saves the entry"})
			} else {
				nonces[nc] = vi
			}
			if other, dup := acrossKeys[nc]; dup && other != k {
				run.Count("store_nonce_repeats_across_different_entries", 1) // harmless by itself (different keys), recorded
			}
			acrossKeys[nc] = k
		}
		if len(vers) > 1 {
			run.Eval(fmt.Sprintf("%s|%s|opacity|nonce-uniqueness-over-%d-versions", c.g.Store, c.g.Form.Name, len(vers)))
		}
		// (2) does an entry open with key material that is itself in the store?
		for vi, v := range vers {
			from, pt, tried, ok := c02DecryptFromStoreContents(k, []byte(v))
			run.Count("store_derived_keys_tried", int64(tried))
			run.Eval(fmt.Sprintf("%s|%s|opacity|store-derived-keys", c.g.Store, c.g.Form.Name))
			if ok {
				what := "the AES-GCM tag verifies"
				if leak := c.sec.scan("decrypted store value", pt); leak != nil {
					what += "; the plaintext contains the " + leak.Secret
				}
				run.Violation("c02:store-entry-decryptable-from-store-contents", fmt.Sprintf("[%s/%s] store entry %q (version %d) decrypts with a key read from the store itself: %s (%s)", c.g.Store, c.g.Form.Name, k, vi+1, from, what),
					map[string]interface{}{"flags": flags, "store_key": k, "value_hex": fmt.Sprintf("%x", v), "key_taken_from": from, "plaintext_head": vfTrunc(fmt.Sprintf("%q", pt), 300)})
			}
		}
	}
	// (3) two versions of one entry + knowledge of the older one
	for _, h := range c.histories {
		for vi := 0; vi+1 < len(h.Versions); vi++ {
			old := h.Tokens[vi]
			known := map[string]string{"access token of version " + fmt.Sprint(vi+1): old.Access, "refresh token of version " + fmt.Sprint(vi+1): old.Refresh}
			r := c02TwoTimePad([]byte(h.Versions[vi]), []byte(h.Versions[vi+1]), known, c.sec)
			run.Eval(fmt.Sprintf("%s|%s|opacity|two-versions-xor", c.g.Store, c.g.Form.Name))
			run.Count("store_version_pairs_xored", 1)
			det := map[string]interface{}{"flags": h.Flags, "store_key": h.RedisKey, "version_a_hex": fmt.Sprintf("%x", h.Versions[vi]), "version_b_hex": fmt.Sprintf("%x", h.Versions[vi+1]), "longest_equal_run": r.ZeroRun}
			switch {
			case r.Recovered != nil:
				det["recovered"], det["using_known"], det["offset"] = r.Recovered, r.Using, r.Offset
				run.Violation("c02:plaintext-recoverable-from-store", fmt.Sprintf("[%s/%s] %s recovered without any key from versions %d and %d of store entry %q: version XOR version XOR (%s)", c.g.Store, c.g.Form.Name,
					r.Recovered.Secret, vi+1, vi+2, h.RedisKey, r.Using), det)
			case r.ZeroRun >= 24:
				run.Violation("c02:iv-or-nonce-reused", fmt.Sprintf("[%s/%s] versions %d and %d of store entry %q agree in %d consecutive ciphertext bytes: same key stream", c.g.Store, c.g.Form.Name, vi+1, vi+2, h.RedisKey, r.ZeroRun), det)
			}
		}
	}
}

// ---------------------------------------------------------------------------------------------------------

func TestVerif_C02(t *testing.T) {
	run := vfNewRun(t, "C02", "exploration")
	run.SetRule("sessions, tickets and CSRF cookies issued by real logins (cookie & Redis store; 16/24/32-byte secrets raw and base64; 1-4 cookie parts); per credential: every position x substitutes " +
		"(base64url alphabet / one of |=. / foreign), every truncation length, appended & prepended characters, boundary shifts across the separators and across name|value, timestamp and field-count edits, " +
		"all field splices of two sessions (same user, two users, expired+live), all permutations / drops / duplications / foreign parts of split cookies, cross-name and cross-instance transplants " +
		"(other secret, other cookie name, other store kind), re-signing with other keys, ~70 forged signatures (incl. every strict prefix of the correct MAC) on credentials the target never produced. " +
		"Configurations include --cookie-expire=0 (no lifetime: no expired bases, everything else identical) for both stores. " +
		"cell = (store[, expire=0], secret form, credential kind, target instance, mutation class, position bucket); opacity: key-less recovery of every cookie and Redis value; " +
		"uniqueness of every CFB IV under one cookie secret and of every GCM nonce among the versions of one store entry (one session re-saved 3x through the same cookie by real token refreshes per group); " +
		"concurrent issuing (16 goroutines of real logins of different users, 64 goroutines x SaveSession of distinct sessions), every issued cookie presented unmodified must decode to its own user in all six fields, race-detector reports in session / encryption code are violations; " +
		"Redis store: thousands of sessions saved at once through the instance's SaveSession (32 goroutines) and through the store-independent ticket issuer over an in-memory store (16 goroutines): one store entry per save, every cookie decodes to its own session, no 8-byte block of any ticket id / ticket secret occurs twice among all tickets issued; " +
		"known-answer check of the cookie cipher (independent AES-CFB decryption with the known secret must give the LZ4/msgpack plaintext); no two cookie payloads share >= 24 equal ciphertext bytes at equal offsets; " +
		"login with a planted cookie (Redis store; OAuth callback and htpasswd form sign-in; made-up tickets signed with another secret / unsigned / zero-signed / value only / legacy-shaped, own ticket with broken signature, own ticket two lifetimes old, own valid ticket live / signed out): the ticket issued and the store key written are never the client's, nothing the attacker holds decodes to the victim; " +
		"entropy faults (Redis store, sequential: crypto/rand.Reader failing every 16-/12-byte read or read #1..4, whole or after half of the bytes, around single htpasswd form sign-ins): a login fails cleanly or yields a non-degenerate, unshared ticket whose store entry does not open with an all-zero key; " +
		"two-time-pad recovery on consecutive versions; AES-GCM opening of every store entry with every 16/24/32-byte window of its own key name (raw, hex-decoded) and leading value bytes")
	run.Assume("the fake IdP's books (who logged in, which tokens were issued) are the reference for 'the session that was issued'",
		"lifetimes are hours, runs are minutes: no verdict depends on a time threshold", "cryptographic strength is not judged, only the presence of the mechanisms (a fixed IV or a weak key leave no recognisable plaintext)")
	if err := c02ScannerSelfTest(); err != nil {
		t.Fatalf("C02 rig: %v", err)
	}
	if err := c02CryptoSelfTest(); err != nil {
		t.Fatalf("C02 rig: %v", err)
	}
	if err := c02CipherSelfTest(); err != nil {
		t.Fatalf("C02 rig: %v", err)
	}
	groups := c02Groups(run)
	for gi, g := range groups {
		w := vfNewWorld(t)
		c := &c02Cell{run: run, w: w, g: g, rng: rand.New(rand.NewSource(run.Env.Seed*1000003 + int64(gi))), inst: map[string]*c02Inst{}, sec: c02NewSecrets(), seenCookies: map[string]bool{}}
		w.Redis()
		c.work()
		w.Close()
		run.Count("instance_groups", 1)
		run.Count("issuing_configurations", int64(len(g.Sizes)))
	}
	run.RaceCheck("c02:data-race", "pkg/apis/sessions/", "pkg/encryption/", "pkg/sessions/", "pkg/cookies/")
	c02AccMu.Lock()
	run.Extra("accepted_as_exactly_the_issued_session", map[string]interface{}{"by_class_and_position": c02AccAll, "examples": c02AccEx})
	c02AccMu.Unlock()
	run.Finish(int64(run.Env.Pick(35000, 450000)), run.Env.Pick(800, 3500))
	if run.Violations() == 0 && run.Counter("expired_base_honoured_unmodified") > 0 {
		fmt.Printf("INCONCLUSIVE property=C02 reason=%d expired credentials are honoured unmodified (lifetime enforcement, C09): the expired must-reject bases could not be used\n", run.Counter("expired_base_honoured_unmodified"))
		t.Fail()
	}
	if run.Violations() == 0 && (run.Counter("accepted_identical") == 0 || run.Counter("must_reject_variants") == 0 || run.Counter("opacity_values_store-value") == 0 ||
		run.Counter("issued_without_lifetime_cookie") == 0 || run.Counter("issued_without_lifetime_redis") == 0 || run.Counter("store_version_pairs_xored") == 0 ||
		run.Counter("ivs_observed_cookie_secret") < 20 || run.Counter("store_derived_keys_tried") == 0 || run.Counter("concurrently_issued_credentials_checked") < 1000 || run.Counter("concurrent_tickets_compared") < 15000 ||
		run.Counter("cookie_cipher_known_answer_checks") < 20 || run.Counter("sessions_saved_twice_unchanged") == 0 || run.Counter("logins_with_planted_cookie") < 40 ||
		run.Counter("attacker_cookies_presented_after_victim_login") < 40 || run.Counter("entropy_faults_fired") == 0 || run.Counter("entropy_fault_logins_refused") == 0 ||
		run.Counter("entropy_fault_logins_completed") == 0) {
		fmt.Printf("INCONCLUSIVE property=C02 reason=a part of the oracle never fired (accepted-identical=%d, must-reject=%d, store values=%d, expire=0 groups cookie/redis=%d/%d, version pairs=%d, IVs=%d, store-derived keys=%d)\n",
			run.Counter("accepted_identical"), run.Counter("must_reject_variants"), run.Counter("opacity_values_store-value"), run.Counter("issued_without_lifetime_cookie"), run.Counter("issued_without_lifetime_redis"),
			run.Counter("store_version_pairs_xored"), run.Counter("ivs_observed_cookie_secret"), run.Counter("store_derived_keys_tried"))
		t.Fail()
	}
}
