//go:build verif

package main

// C19 over the provider types that parse provider answers by hand (engine + scripted backend: rig_providers.go): every
// variant (github x org / team / repo / token / user restrictions and gitea-style URLs, keycloak x group, bitbucket x team /
// repository, digitalocean, facebook, linkedin, nextcloud, google, login.gov, azure x where the e-mail comes from) x session
// store and header-injection flags, a configuration that passes validation each; login callback and stale-session requests while
// the provider answers call k with JSON of the wrong shape, wrongly typed / missing fields (generated from the ordinary answer),
// non-JSON, error statuses carrying the ordinary body. The only verdicts: no panic, a complete response.

import (
	"fmt"
	"strings"
)

func c19ProviderTypes(run *vfRun, w *vfWorld) {
	seed := run.Env.Seed
	keep := func(t *vfPvType, c *vfPvCase, quick bool) bool {
		if !quick {
			return true
		}
		h := int(vfPvHash(fmt.Sprintf("c19|%d|%s|%s|%d|%s", seed, t.Name, c.Flow, c.Pos, c.Kind.Name)) % 1000)
		switch c.Kind.Class {
		case "status", "transport":
			return h < 20 // parsing is not reached; C14 covers these
		case "typed":
			if t.Primary {
				return h < 110
			}
			return h < 40
		default:
			return (t.Primary && h < 350) || h < 100
		}
	}
	judge := func(o *vfPvOutcome) {
		if strings.HasPrefix(o.Clean, "rig:") {
			run.Inconclusive("c19p: " + o.Clean)
			return
		}
		for _, st := range o.Steps {
			run.Eval(fmt.Sprintf("ptype=%s|%s|call=%s|%s|%dxx", o.Type, o.Flow, o.Call, o.Kind.Class, st.Code/100))
			run.Count("requests_served", 1)
			run.Count("provider_types_requests", 1)
		}
		if o.Fired > 0 {
			run.Count("provider_types_faults_delivered", 1)
		}
		if o.Panic != "" {
			run.Violation("c19:panic", fmt.Sprintf("panic %q at %s (provider type %s, %s flow, call #%d %s answered with %s)", vfTrunc(o.Panic, 120), vfPvPanicSite(o.Stack), o.Type, o.Flow, o.Pos, o.Call, o.KindName),
				map[string]interface{}{"flags": o.Flags, "case": o, "panic": o.Panic, "stack": vfTrunc(o.Stack, 6000)})
			return
		}
		if o.BadStatus != 0 {
			run.Violation("c19:no-response", fmt.Sprintf("handler returned without a valid status (%d) (provider type %s)", o.BadStatus, o.Type), o)
		}
		if o.Clean != "" && o.Clean != "ok" && strings.Contains(o.Clean, "panicked") {
			run.Violation("c19:panic", "an ordinary login after the faulted ones panics (provider type "+o.Type+"): "+o.Clean, o)
		}
	}
	flavours := [][]string{
		{"--pass-access-token=true", "--set-xauthrequest=true", "--pass-authorization-header=true"},
		{"--session-store-type=redis", "--redis-connection-url=" + w.RedisURL(), "--set-authorization-header=true", "--pass-user-headers=true", "--prefer-email-to-user=true"},
	}
	stats := vfPvSweep(run, w, vfPvOpts{Prefix: "c19", Keep: keep, CleanEvery: 0, Judge: judge, Workers: 12,
		ExtraFlags: func(ti int) []string { return flavours[(ti+int(seed))%len(flavours)] }})
	run.Extra("provider_types", stats)
	run.Extra("provider_types_phases", stats["_phases"])
	usable := 0
	delete(stats, "_phases")
	for _, st := range stats {
		if _, dropped := st["dropped"]; !dropped {
			usable++
		}
	}
	if usable < len(stats) {
		run.Inconclusive(fmt.Sprintf("c19p: only %d of %d provider-type variants log in benignly", usable, len(stats)))
	}
	if run.Counter("provider_types_faults_delivered") < 300 {
		run.Inconclusive("c19p: too few provider-type faults delivered")
	}
}
