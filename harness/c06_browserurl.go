//go:build verif

package main

// C06 oracle, part 1: BrowserURL — an independent implementation of the WHATWG URL "basic URL parser" restricted to
// what decides the ORIGIN a browser navigates to when it follows a Location header / href / form action:
// pre-processing, scheme, the relative / authority state machine for special schemes, userinfo, host parsing
// (percent-decoding, IDNA ToASCII, forbidden code points, IPv4 number forms, IPv6 literals) and the port.
// Path, query and fragment never influence the origin and are not modelled.
// Written from https://url.spec.whatwg.org/ (state names in comments); shares no code with net/url or the repository.

import (
	"fmt"
	"math/big"
	"strconv"
	"strings"
	"unicode/utf8"

	"golang.org/x/net/idna"
)

type c06URL struct {
	Kind   string // "fail" | "special" (http, https, ftp, ws, wss) | "file" | "nonspecial"
	Scheme string
	Host   string // serialised host: lower-case ASCII domain, dotted IPv4, or [compressed IPv6]
	Port   int    // effective port (explicit, else the scheme's default)
	Expl   bool   // the serialised URL carries an explicit (non-default) port
	Why    string // reason of a failure
}

func (u c06URL) String() string {
	switch u.Kind {
	case "fail":
		return "FAIL(" + u.Why + ")"
	case "special":
		return fmt.Sprintf("%s://%s:%d", u.Scheme, u.Host, u.Port)
	}
	return u.Kind + ":" + u.Scheme
}

type c06Base struct {
	Scheme string // http | https
	Host   string // serialised
	Port   int    // effective
}

func (b c06Base) String() string { return fmt.Sprintf("%s://%s:%d", b.Scheme, b.Host, b.Port) }

func c06DefaultPort(scheme string) int {
	switch scheme {
	case "http", "ws":
		return 80
	case "https", "wss":
		return 443
	case "ftp":
		return 21
	}
	return -1
}

func c06IsSpecial(s string) bool {
	switch s {
	case "http", "https", "ftp", "ws", "wss", "file":
		return true
	}
	return false
}

// c06ParseBase turns "scheme" + a Host header value (host[:port]) into the base the browser resolved against.
func c06ParseBase(scheme, hostport string) (c06Base, bool) {
	u := c06Resolve(scheme+"://"+hostport+"/", c06Base{Scheme: scheme, Host: "invalid.invalid", Port: c06DefaultPort(scheme)})
	if u.Kind != "special" {
		return c06Base{}, false
	}
	return c06Base{Scheme: u.Scheme, Host: u.Host, Port: u.Port}, true
}

const c06EOF = rune(-1)

// c06Resolve: where does a browser go for `input` seen in a document/redirect whose URL is `base` (an http/https URL)?
func c06Resolve(input string, base c06Base) c06URL {
	if !utf8.ValidString(input) {
		input = strings.ToValidUTF8(input, "\uFFFD")
	}
	rs := []rune(input)
	// "remove any leading and trailing C0 control or space"
	for len(rs) > 0 && rs[0] <= 0x20 {
		rs = rs[1:]
	}
	for len(rs) > 0 && rs[len(rs)-1] <= 0x20 {
		rs = rs[:len(rs)-1]
	}
	// "remove all ASCII tab or newline"
	in := make([]rune, 0, len(rs))
	for _, r := range rs {
		if r == '\t' || r == '\n' || r == '\r' {
			continue
		}
		in = append(in, r)
	}
	at := func(i int) rune {
		if i < 0 || i >= len(in) {
			return c06EOF
		}
		return in[i]
	}
	alpha := func(c rune) bool { return (c >= 'a' && c <= 'z') || (c >= 'A' && c <= 'Z') }
	digit := func(c rune) bool { return c >= '0' && c <= '9' }

	fromBase := c06URL{Kind: "special", Scheme: base.Scheme, Host: base.Host, Port: base.Port, Expl: base.Port != c06DefaultPort(base.Scheme)}

	// scheme start state / scheme state
	p := 0
	scheme := ""
	if alpha(at(0)) {
		i := 0
		for alpha(at(i)) || digit(at(i)) || at(i) == '+' || at(i) == '-' || at(i) == '.' {
			i++
		}
		if at(i) == ':' {
			scheme = strings.ToLower(string(in[:i]))
			p = i + 1
		}
		// otherwise: no scheme state, start over
	}
	state := ""
	switch {
	case scheme == "":
		state = "relative" // no scheme state with a non-file, non-opaque base
		scheme = base.Scheme
	case scheme == "file":
		return c06URL{Kind: "file", Scheme: scheme}
	case !c06IsSpecial(scheme):
		return c06URL{Kind: "nonspecial", Scheme: scheme}
	case scheme == base.Scheme:
		// special relative or authority state
		if at(p) == '/' && at(p+1) == '/' {
			state = "ignore-slashes"
			p += 2
		} else {
			state = "relative"
		}
	default:
		// special authority slashes state
		if at(p) == '/' && at(p+1) == '/' {
			p += 2
		}
		state = "ignore-slashes"
	}
	if state == "relative" {
		// relative state: scheme = base scheme
		c := at(p)
		if c == '/' || c == '\\' {
			// relative slash state
			c2 := at(p + 1)
			if c2 == '/' || c2 == '\\' {
				state = "ignore-slashes"
				p += 2
			} else {
				return fromBase
			}
		} else {
			return fromBase // path / query / fragment / EOF relative to base: same host and port
		}
	}
	// special authority ignore slashes state
	for at(p) == '/' || at(p) == '\\' {
		p++
	}
	// authority state: up to EOF, '/', '?', '#', '\' (special)
	end := p
	for end < len(in) && in[end] != '/' && in[end] != '?' && in[end] != '#' && in[end] != '\\' {
		end++
	}
	auth := in[p:end]
	lastAt := -1
	for i, r := range auth {
		if r == '@' {
			lastAt = i
		}
	}
	hostport := auth
	if lastAt >= 0 {
		hostport = auth[lastAt+1:]
		if len(hostport) == 0 {
			return c06URL{Kind: "fail", Why: "host-missing (credentials without host)"}
		}
	}
	// host state: first ':' outside brackets ends the host
	inside := false
	hostEnd, portStart := len(hostport), -1
	for i, r := range hostport {
		if r == '[' {
			inside = true
		} else if r == ']' {
			inside = false
		} else if r == ':' && !inside {
			hostEnd, portStart = i, i+1
			break
		}
	}
	if hostEnd == 0 {
		return c06URL{Kind: "fail", Why: "host-missing"}
	}
	h, why := c06ParseHost(string(hostport[:hostEnd]))
	if why != "" {
		return c06URL{Kind: "fail", Why: why}
	}
	u := c06URL{Kind: "special", Scheme: scheme, Host: h, Port: c06DefaultPort(scheme)}
	// port state
	if portStart >= 0 {
		ps := hostport[portStart:]
		if len(ps) > 0 {
			n := 0
			for _, r := range ps {
				if !digit(r) {
					return c06URL{Kind: "fail", Why: "port-invalid"}
				}
				if n <= 65535 {
					n = n*10 + int(r-'0')
				}
			}
			if n > 65535 {
				return c06URL{Kind: "fail", Why: "port-out-of-range"}
			}
			if n != c06DefaultPort(scheme) {
				u.Port, u.Expl = n, true
			}
		}
	}
	return u
}

// ---------------------------------------------------------------------------------------------------------
// host parsing (special schemes: never opaque)

// domain to ASCII with beStrict=false: CheckHyphens=false, CheckBidi=true, CheckJoiners=true, UseSTD3ASCIIRules=false,
// Transitional_Processing=false, VerifyDnsLength=false
var c06IDNA = idna.New(idna.MapForLookup(), idna.Transitional(false), idna.StrictDomainName(false), idna.CheckHyphens(false),
	idna.VerifyDNSLength(false), idna.BidiRule(), idna.CheckJoiners(true))

func c06IsHex(c byte) bool {
	return (c >= '0' && c <= '9') || (c >= 'a' && c <= 'f') || (c >= 'A' && c <= 'F')
}

func c06Unhex(c byte) byte {
	switch {
	case c >= '0' && c <= '9':
		return c - '0'
	case c >= 'a' && c <= 'f':
		return c - 'a' + 10
	}
	return c - 'A' + 10
}

func c06PercentDecode(s string) string {
	if !strings.Contains(s, "%") {
		return s
	}
	b := make([]byte, 0, len(s))
	for i := 0; i < len(s); i++ {
		if s[i] == '%' && i+2 < len(s) && c06IsHex(s[i+1]) && c06IsHex(s[i+2]) {
			b = append(b, c06Unhex(s[i+1])<<4|c06Unhex(s[i+2]))
			i += 2
			continue
		}
		b = append(b, s[i])
	}
	return string(b)
}

func c06ForbiddenDomainCP(r rune) bool {
	if r <= 0x20 || r == 0x7f || r == '%' { // C0 controls, space, DEL, %
		return true
	}
	switch r {
	case '#', '/', ':', '<', '>', '?', '@', '[', '\\', ']', '^', '|':
		return true
	}
	return false
}

// c06ParseHost returns the serialised host, or a non-empty reason for failure.
func c06ParseHost(s string) (string, string) {
	if strings.HasPrefix(s, "[") {
		if !strings.HasSuffix(s, "]") {
			return "", "IPv6-unclosed"
		}
		a, ok := c06ParseIPv6(s[1 : len(s)-1])
		if !ok {
			return "", "IPv6-invalid"
		}
		return "[" + c06SerializeIPv6(a) + "]", ""
	}
	d := c06PercentDecode(s)
	if !utf8.ValidString(d) {
		d = strings.ToValidUTF8(d, "\uFFFD") // UTF-8 decode without BOM (lossy)
	}
	ascii, err := c06IDNA.ToASCII(d)
	if err != nil {
		return "", "domain-to-ASCII: " + err.Error()
	}
	if ascii == "" {
		return "", "domain-to-ASCII: empty"
	}
	for _, r := range ascii {
		if c06ForbiddenDomainCP(r) {
			return "", fmt.Sprintf("domain-invalid-code-point %q", r)
		}
		if r >= 0x80 {
			return "", "domain-to-ASCII: non-ASCII output"
		}
	}
	ascii = strings.ToLower(ascii)
	if c06EndsInNumber(ascii) {
		v4, ok := c06ParseIPv4(ascii)
		if !ok {
			return "", "IPv4-invalid"
		}
		return fmt.Sprintf("%d.%d.%d.%d", byte(v4>>24), byte(v4>>16), byte(v4>>8), byte(v4)), ""
	}
	return ascii, ""
}

// c06IPv4Number: the "IPv4 number parser"; ok=false is failure.
func c06IPv4Number(p string) (*big.Int, bool) {
	if p == "" {
		return nil, false
	}
	radix := 10
	if len(p) >= 2 && (p[:2] == "0x" || p[:2] == "0X") {
		p, radix = p[2:], 16
	} else if len(p) >= 2 && p[0] == '0' {
		p, radix = p[1:], 8
	}
	if p == "" {
		return big.NewInt(0), true
	}
	for i := 0; i < len(p); i++ {
		c := p[i]
		switch radix {
		case 10:
			if c < '0' || c > '9' {
				return nil, false
			}
		case 8:
			if c < '0' || c > '7' {
				return nil, false
			}
		default:
			if !c06IsHex(c) {
				return nil, false
			}
		}
	}
	n, ok := new(big.Int).SetString(p, radix)
	return n, ok
}

func c06EndsInNumber(s string) bool {
	parts := strings.Split(s, ".")
	if parts[len(parts)-1] == "" {
		if len(parts) == 1 {
			return false
		}
		parts = parts[:len(parts)-1]
	}
	last := parts[len(parts)-1]
	if last != "" {
		all := true
		for i := 0; i < len(last); i++ {
			if last[i] < '0' || last[i] > '9' {
				all = false
				break
			}
		}
		if all {
			return true
		}
	}
	_, ok := c06IPv4Number(last)
	return ok
}

func c06ParseIPv4(s string) (uint32, bool) {
	parts := strings.Split(s, ".")
	if parts[len(parts)-1] == "" && len(parts) > 1 {
		parts = parts[:len(parts)-1]
	}
	if len(parts) > 4 {
		return 0, false
	}
	nums := make([]*big.Int, 0, 4)
	for _, p := range parts {
		n, ok := c06IPv4Number(p)
		if !ok {
			return 0, false
		}
		nums = append(nums, n)
	}
	b255 := big.NewInt(255)
	for i := 0; i < len(nums)-1; i++ {
		if nums[i].Cmp(b255) > 0 {
			return 0, false
		}
	}
	limit := new(big.Int).Exp(big.NewInt(256), big.NewInt(int64(5-len(nums))), nil)
	if nums[len(nums)-1].Cmp(limit) >= 0 {
		return 0, false
	}
	v := nums[len(nums)-1].Uint64()
	for i := 0; i < len(nums)-1; i++ {
		v += nums[i].Uint64() << (8 * uint(3-i))
	}
	return uint32(v), true
}

// c06ParseIPv6: the spec's IPv6 parser (pieces of up to 4 hex digits, one "::" compression, optional dotted-decimal tail).
func c06ParseIPv6(s string) ([8]uint16, bool) {
	var addr [8]uint16
	piece, compress, p := 0, -1, 0
	c := func(i int) int {
		if i >= len(s) {
			return -1
		}
		return int(s[i])
	}
	if c(p) == ':' {
		if c(p+1) != ':' {
			return addr, false
		}
		p += 2
		piece++
		compress = piece
	}
	for c(p) != -1 {
		if piece == 8 {
			return addr, false
		}
		if c(p) == ':' {
			if compress != -1 {
				return addr, false
			}
			p++
			piece++
			compress = piece
			continue
		}
		value, length := 0, 0
		for length < 4 && c(p) != -1 && c06IsHex(byte(c(p))) {
			value = value*16 + int(c06Unhex(byte(c(p))))
			p++
			length++
		}
		if c(p) == '.' {
			if length == 0 {
				return addr, false
			}
			p -= length
			if piece > 6 {
				return addr, false
			}
			seen := 0
			for c(p) != -1 {
				v4 := -1
				if seen > 0 {
					if c(p) == '.' && seen < 4 {
						p++
					} else {
						return addr, false
					}
				}
				if c(p) < '0' || c(p) > '9' {
					return addr, false
				}
				for c(p) >= '0' && c(p) <= '9' {
					n := c(p) - '0'
					if v4 == -1 {
						v4 = n
					} else if v4 == 0 {
						return addr, false
					} else {
						v4 = v4*10 + n
					}
					if v4 > 255 {
						return addr, false
					}
					p++
				}
				addr[piece] = addr[piece]*0x100 + uint16(v4)
				seen++
				if seen == 2 || seen == 4 {
					piece++
				}
			}
			if seen != 4 {
				return addr, false
			}
			break
		} else if c(p) == ':' {
			p++
			if c(p) == -1 {
				return addr, false
			}
		} else if c(p) != -1 {
			return addr, false
		}
		addr[piece] = uint16(value)
		piece++
	}
	if compress != -1 {
		swaps := piece - compress
		piece = 7
		for piece != 0 && swaps > 0 {
			addr[piece], addr[compress+swaps-1] = addr[compress+swaps-1], addr[piece]
			piece--
			swaps--
		}
	} else if piece != 8 {
		return addr, false
	}
	return addr, true
}

func c06SerializeIPv6(a [8]uint16) string {
	// longest run of zero pieces of length > 1, first on ties
	best, bestLen := -1, 1
	for i := 0; i < 8; {
		if a[i] != 0 {
			i++
			continue
		}
		j := i
		for j < 8 && a[j] == 0 {
			j++
		}
		if j-i > bestLen {
			best, bestLen = i, j-i
		}
		i = j
	}
	var b strings.Builder
	for i := 0; i < 8; i++ {
		if i == best {
			if i == 0 {
				b.WriteString("::")
			} else {
				b.WriteString(":")
			}
			i += bestLen - 1
			continue
		}
		fmt.Fprintf(&b, "%x", a[i])
		if i != 7 {
			b.WriteString(":")
		}
	}
	return b.String()
}

// ---------------------------------------------------------------------------------------------------------
// whitelist reference — written from docs/docs/configuration/overview.md (--whitelist-domain and footnote 2):
//   "allowed domains for redirection after authentication. Prefix domain with a . or a *. to allow subdomains";
//   "By default, only empty ports are allowed. This translates to allowing the default port of the URL's protocol
//    (80 for HTTP, 443 for HTTPS, etc.) since browsers omit them. To allow only a specific port, add it to the
//    whitelisted domain: example.com:8080. To allow any port, use *: example.com:*."
// The bare domain of a ".x"/"*.x" entry is accepted too (most permissive reading; the repository's tests expect it).
// IP-literal entries compare by address value.

// c06DNSName: "good.test." is the fully-qualified spelling of "good.test" — the same DNS name, hence the same owner; the
// property is about who receives the user, so one trailing dot is not a different host here.
func c06DNSName(h string) string { return strings.TrimSuffix(h, ".") }

func c06CanonHost(h string) string {
	h = strings.ToLower(h)
	if strings.Contains(h, ":") && !strings.HasPrefix(h, "[") {
		h = "[" + h + "]"
	}
	if s, why := c06ParseHost(h); why == "" {
		return s
	}
	return h
}

func c06Whitelisted(u c06URL, entries []string) bool {
	u.Host = c06DNSName(u.Host)
	for _, e := range entries {
		eh, ep := e, ""
		if k := strings.LastIndexByte(e, ':'); k >= 0 && !strings.HasSuffix(e, "]") && !strings.Contains(e[k:], "]") {
			eh, ep = e[:k], e[k+1:]
		}
		if eh == "" {
			continue
		}
		hostOK := false
		switch {
		case strings.HasPrefix(eh, "*."):
			d := strings.ToLower(eh[2:])
			hostOK = u.Host == d || strings.HasSuffix(u.Host, "."+d)
		case strings.HasPrefix(eh, "."):
			d := strings.ToLower(eh[1:])
			hostOK = u.Host == d || strings.HasSuffix(u.Host, "."+d)
		default:
			hostOK = u.Host == c06CanonHost(eh)
		}
		if !hostOK {
			continue
		}
		switch {
		case ep == "*":
			return true
		case ep == "":
			if !u.Expl {
				return true
			}
		default:
			if n, err := strconv.Atoi(ep); err == nil && n == u.Port {
				return true
			}
		}
	}
	return false
}

// c06Verdict classifies a target a browser would be sent to.
//
//	"fail"  navigation failure (not followed)          — allowed
//	"own"   same host and effective port as the request — allowed
//	"wl"    permitted by the whitelist                   — allowed
//	"scheme" a scheme other than http/https (javascript:, data:, file:, ftp: ...) — never a legal redirect target
//	"off"   any other host/port
func c06Verdict(target string, base c06Base, wl []string) (string, c06URL) {
	u := c06Resolve(target, base)
	switch u.Kind {
	case "fail":
		return "fail", u
	case "file", "nonspecial":
		return "scheme", u
	}
	if u.Scheme != "http" && u.Scheme != "https" {
		return "scheme", u
	}
	if c06DNSName(u.Host) == c06DNSName(base.Host) && u.Port == base.Port {
		return "own", u
	}
	if c06Whitelisted(u, wl) {
		return "wl", u
	}
	return "off", u
}
