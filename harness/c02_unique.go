//go:build verif

package main

// C02, issuing half under load: credentials issued AT THE SAME TIME are distinct and independent.
//
// With the server-side store the cookie is a ticket: (store key, per-session AES key). Everything the tamper oracle
// relies on ("the unmodified cookie decodes to exactly the session that was issued for it") presupposes that no two
// logins are handed the same ticket: with the same id the later save replaces the earlier store entry, with the same
// id AND key the earlier user's untouched cookie opens the later user's session. Sequential logins cannot show a
// source of randomness that is shared between requests without protection; concurrent ones can, but only by VALUE
// (the race detector does not look into the runtime-internal generator packages), and only with volume.
//
//  (1) Redis store, real instance: thousands of sessions of distinct users saved from 32 goroutines through the
//      proxy's SaveSession entry point (the code path of every login, without the IdP round trips), next to the real
//      concurrent logins of concurrentIssue;
//  (2) volume: the ticket issuer of every server-side store (persistence.Manager, configured with the instance's
//      cookie options) over an in-memory store, 16 goroutines that do nothing else but save sessions.
// Oracle, from the statement only:
//  (a) no 8-byte block of the random part of a ticket id or of a ticket secret occurs a second time anywhere among
//      the tickets issued (chance for honest 64-bit blocks among n of them: n^2 / 2^65, < 1e-7 for the volumes here);
//  (b) the store holds one entry per save;
//  (c) every cookie, presented unmodified, decodes to exactly the session it was issued for (all of them through the
//      session loader; a sample, and every one involved in (a), additionally through the proxy's HTTP surface).

import (
	"context"
	"encoding/binary"
	"encoding/hex"
	"errors"
	"fmt"
	"hash/fnv"
	"net/http"
	"net/http/httptest"
	"runtime/debug"
	"sort"
	"strings"
	"sync"
	"testing"
	"time"

	sessionsapi "github.com/oauth2-proxy/oauth2-proxy/v7/pkg/apis/sessions"
	"github.com/oauth2-proxy/oauth2-proxy/v7/pkg/sessions/persistence"
)

// c02MemStore: goroutine-safe in-memory persistence.Store (sharded, so that the savers are not serialised behind one lock)
type c02MemStore struct {
	sh [64]struct {
		mu sync.Mutex
		m  map[string][]byte
	}
}

func c02NewMemStore() *c02MemStore {
	s := &c02MemStore{}
	for i := range s.sh {
		s.sh[i].m = map[string][]byte{}
	}
	return s
}

func (s *c02MemStore) shard(key string) int {
	h := fnv.New32a()
	h.Write([]byte(key))
	return int(h.Sum32() % uint32(len(s.sh)))
}

func (s *c02MemStore) Save(_ context.Context, key string, val []byte, _ time.Duration) error {
	sh := &s.sh[s.shard(key)]
	sh.mu.Lock()
	sh.m[key] = append([]byte(nil), val...)
	sh.mu.Unlock()
	return nil
}

func (s *c02MemStore) Load(_ context.Context, key string) ([]byte, error) {
	sh := &s.sh[s.shard(key)]
	sh.mu.Lock()
	defer sh.mu.Unlock()
	v, ok := sh.m[key]
	if !ok {
		return nil, errors.New("c02MemStore: no such key " + key)
	}
	return v, nil
}

func (s *c02MemStore) Clear(_ context.Context, key string) error {
	sh := &s.sh[s.shard(key)]
	sh.mu.Lock()
	delete(sh.m, key)
	sh.mu.Unlock()
	return nil
}

func (s *c02MemStore) Lock(string) sessionsapi.Lock            { return &sessionsapi.NoOpLock{} }
func (s *c02MemStore) VerifyConnection(context.Context) error { return nil }

func (s *c02MemStore) Len() int {
	n := 0
	for i := range s.sh {
		s.sh[i].mu.Lock()
		n += len(s.sh[i].m)
		s.sh[i].mu.Unlock()
	}
	return n
}

// c02TicketRec: one issued ticket as the books keep it
type c02TicketRec struct {
	ID, Secret string // as carried by the cookie (Secret: raw bytes)
	Who        string // e-mail it was issued to
	Via        string
	Cookie     string // "name=value" (kept for the real-instance phase only)
}

// c02RandomBlocks: the 8-byte blocks of the random material of a ticket. The id is "<cookie name>-<hex>": the hex part
// is decoded when it is hex, taken literally otherwise.
func c02RandomBlocks(t c02TicketRec) (blocks []uint64, where []string) {
	idr := t.ID
	if k := strings.LastIndexByte(idr, '-'); k >= 0 {
		idr = idr[k+1:]
	}
	raw := []byte(idr)
	if b, err := hex.DecodeString(idr); err == nil && len(b) >= 8 {
		raw = b
	}
	for o := 0; o+8 <= len(raw); o += 8 {
		blocks = append(blocks, binary.BigEndian.Uint64(raw[o:]))
		where = append(where, fmt.Sprintf("id bytes %d-%d", o, o+7))
	}
	for o := 0; o+8 <= len(t.Secret); o += 8 {
		blocks = append(blocks, binary.BigEndian.Uint64([]byte(t.Secret[o:])))
		where = append(where, fmt.Sprintf("secret bytes %d-%d", o, o+7))
	}
	return
}

type c02BlockRef struct {
	W   uint64
	Rec int32
	Pos int8
}

type c02Shared struct {
	A, B       int // record indices
	PosA, PosB int
	Block      uint64
}

// c02SharedBlocks finds every 8-byte block that occurs twice among the random material of the given tickets.
func c02SharedBlocks(recs []c02TicketRec) []c02Shared {
	refs := make([]c02BlockRef, 0, len(recs)*4)
	for i := range recs {
		bl, _ := c02RandomBlocks(recs[i])
		for p, w := range bl {
			refs = append(refs, c02BlockRef{w, int32(i), int8(p)})
		}
	}
	sort.Slice(refs, func(a, b int) bool {
		if refs[a].W != refs[b].W {
			return refs[a].W < refs[b].W
		}
		if refs[a].Rec != refs[b].Rec {
			return refs[a].Rec < refs[b].Rec
		}
		return refs[a].Pos < refs[b].Pos
	})
	var out []c02Shared
	for i := 1; i < len(refs); i++ {
		if refs[i].W == refs[i-1].W {
			out = append(out, c02Shared{int(refs[i-1].Rec), int(refs[i].Rec), int(refs[i-1].Pos), int(refs[i].Pos), refs[i].W})
		}
	}
	return out
}

const c02PanicPrefix = "panic while saving the session: "

// c02NoPanic: the savers run on the harness's own goroutines; a panic of the code under test becomes an error
func c02NoPanic(f func() error) (err error) {
	defer func() {
		if r := recover(); r != nil {
			err = fmt.Errorf("%s%v\n%s", c02PanicPrefix, r, vfTrunc(string(debug.Stack()), 3000))
		}
	}()
	return f()
}

func c02SynSession(tag string) (*sessionsapi.SessionState, c02Ident) {
	w := c02Ident{Email: "t" + tag + "@tickets.example", User: "u-t-" + tag, Groups: "g-" + tag + ",everyone", PrefUser: "pu-t-" + tag,
		AccessToken: "at-t-" + tag + "-0123456789abcdef", IDToken: "eyJ0aWNrZXQi" + tag + ".e30." + tag}
	return &sessionsapi.SessionState{AccessToken: w.AccessToken, IDToken: w.IDToken, RefreshToken: "rt-t-" + tag, Email: w.Email, User: w.User,
		Groups: strings.Split(w.Groups, ","), PreferredUsername: w.PrefUser}, w
}

func c02IdentOf(ss *sessionsapi.SessionState) c02Ident {
	if ss == nil {
		return c02Ident{}
	}
	return c02Ident{Email: ss.Email, User: ss.User, Groups: strings.Join(ss.Groups, ","), PrefUser: ss.PreferredUsername, AccessToken: ss.AccessToken, IDToken: ss.IDToken}
}

// concurrentTickets: see the head of this file. `logins` are the tickets of the real concurrent logins of this group.
func (c *c02Cell) concurrentTickets(P *c02Inst, logins []c02TicketRec) {
	run := c.run
	cellBase := fmt.Sprintf("%s|%s|concurrent-tickets|", c.g.Store, c.g.Form.Name)
	recs := append([]c02TicketRec(nil), logins...)
	// at most 3 reports per signature and group (one shared generator state yields hundreds of cases)
	var repMu sync.Mutex
	reported := map[string]int{}
	report := func(sig, summary string, detail interface{}) {
		repMu.Lock()
		reported[sig]++
		k := reported[sig]
		repMu.Unlock()
		if k <= 3 {
			run.Violation(sig, summary, detail)
		} else {
			run.Count("further_cases_of_"+sig, 1)
		}
	}

	// ---- (1) the real instance, Redis store
	mr := c.w.Redis()
	before := map[string]bool{}
	for _, k := range mr.Keys() {
		before[k] = true
	}
	nW, n := 32, run.Env.Pick(3000, 12000)
	type issued struct {
		want  c02Ident
		parts []c02CK
		tk    c02Ticket
		err   string
	}
	saves := make([]issued, n)
	now := time.Now()
	exp := now.Add(time.Hour)
	start := make(chan struct{})
	var wg sync.WaitGroup
	for g := 0; g < nW; g++ {
		wg.Add(1)
		go func(g int) {
			defer wg.Done()
			<-start
			for i := g; i < n; i += nW {
				ss, want := c02SynSession(fmt.Sprintf("r%06d", i))
				created, expires := now, exp
				ss.CreatedAt, ss.ExpiresOn = &created, &expires
				saves[i].want = want
				rw := httptest.NewRecorder()
				if err := c02NoPanic(func() error { return P.P.P.SaveSession(rw, httptest.NewRequest("GET", "http://proxy.test/", nil), ss) }); err != nil {
					saves[i].err = err.Error()
					continue
				}
				saves[i].parts = sessionCookiesOf(P, rw.Header().Values("Set-Cookie"))
			}
		}(g)
	}
	close(start)
	wg.Wait()
	for i := range saves {
		if strings.HasPrefix(saves[i].err, c02PanicPrefix) {
			report("c02:panic-in-concurrent-credential-issuing", fmt.Sprintf("[%s/%s] saving sessions of different users at the same time panics: %s", c.g.Store, c.g.Form.Name, vfTrunc(saves[i].err, 200)),
				c.detail(P, nil, map[string]interface{}{"how": fmt.Sprintf("%d goroutines call the instance's SaveSession (no cookie on the request) for %d distinct sessions", nW, n), "panic": saves[i].err}))
			return
		}
		if saves[i].err != "" || len(saves[i].parts) != 1 {
			run.T.Fatalf("C02 rig: concurrent SaveSession %d on the Redis store failed: %s (%d cookies)", i, saves[i].err, len(saves[i].parts))
		}
		saves[i].tk = c02TicketOf(saves[i].parts[0].Value)
		if !saves[i].tk.OK {
			run.T.Fatalf("C02 rig: ticket cookie of concurrent SaveSession %d is not of the documented form: %q", i, saves[i].parts[0].Value)
		}
		recs = append(recs, c02TicketRec{ID: saves[i].tk.ID, Secret: saves[i].tk.Secret, Who: saves[i].want.Email, Via: "concurrent SaveSession (Redis store, 32 goroutines)",
			Cookie: saves[i].parts[0].Name + "=" + saves[i].parts[0].Value})
	}
	// (b) one store entry per save
	var created []string
	for _, k := range mr.Keys() {
		if !before[k] {
			created = append(created, k)
		}
	}
	run.Eval(cellBase + "store-entries")
	if len(created) != n {
		report("c02:concurrent-logins-share-a-store-entry", fmt.Sprintf("[%s/%s] %d sessions of different users saved at the same time left %d new store entries", c.g.Store, c.g.Form.Name, n, len(created)),
			c.detail(P, nil, map[string]interface{}{"how": fmt.Sprintf("%d goroutines call the instance's SaveSession (no cookie on the request) for %d distinct sessions", nW, n), "saves": n, "new_store_entries": len(created)}))
	}
	// (c) every cookie decodes to its own session: all through the loader, a sample through the HTTP surface
	probe := map[int]bool{}
	for i := 0; i < n; i += 40 {
		probe[i] = true
	}
	for _, s := range c02SharedBlocks(recs) {
		for _, r := range []int{s.A, s.B} {
			if r >= len(logins) {
				probe[r-len(logins)] = true
			}
		}
	}
	vfParallel(n, 16, func(i int) {
		it := &saves[i]
		req := httptest.NewRequest("GET", "http://proxy.test/", nil)
		req.AddCookie(&http.Cookie{Name: it.parts[0].Name, Value: it.parts[0].Value})
		ss, err := P.P.P.LoadCookiedSession(req)
		got, accepted := c02IdentOf(ss), err == nil && ss != nil
		via := "session loader"
		if accepted && got == it.want && probe[i] {
			out := c02Probe(c.w, P, it.parts, false)
			got, accepted, via = out.Id, out.Accepted, "userinfo / protected path"
		}
		run.Eval(cellBase + "decode")
		run.Count("concurrently_issued_credentials_checked", 1)
		run.Count("concurrently_issued_tickets_decoded", 1)
		how := fmt.Sprintf("one of %d sessions of distinct users saved at the same time from %d goroutines through the instance's SaveSession; presented unmodified (%s)", n, nW, via)
		switch {
		case !accepted:
			report("c02:issued-cookie-rejected-unmodified", fmt.Sprintf("[%s/%s] the ticket cookie issued to %s is rejected when presented unmodified", c.g.Store, c.g.Form.Name, it.want.Email),
				c.detail(P, it.parts, map[string]interface{}{"issued_to": it.want.short(), "ticket_id": it.tk.ID, "how": how, "error": fmt.Sprint(err)}))
		case got != it.want:
			report("c02:issued-cookie-decodes-to-another-session", fmt.Sprintf("[%s/%s] the unmodified ticket cookie issued to %s decodes to the session of %s", c.g.Store, c.g.Form.Name, it.want.Email, got.Email),
				c.detail(P, it.parts, map[string]interface{}{"issued_to": it.want.short(), "decodes_to": got.short(), "ticket_id": it.tk.ID, "how": how}))
		}
	})
	// the later phases (opacity scan over the whole store) keep a handful of these entries only
	for i, k := range created {
		if i >= 8 {
			mr.Del(k)
		}
	}
	c.w.Up.Reset()

	// ---- (2) volume: the ticket issuer over an in-memory store
	bW, per, rounds := 16, 500, run.Env.Pick(c02BulkRoundsQuick, 12)
	cookieOpts := P.P.Opts.Cookie
	for r := 0; r < rounds; r++ {
		store := c02NewMemStore()
		m := persistence.NewManager(store, &cookieOpts)
		type one struct {
			ck   *http.Cookie
			want c02Ident
			err  string
		}
		got := make([]one, bW*per)
		start := make(chan struct{})
		var wg sync.WaitGroup
		for g := 0; g < bW; g++ {
			wg.Add(1)
			go func(g int) {
				defer wg.Done()
				<-start
				for i := 0; i < per; i++ {
					k := g*per + i
					ss, want := c02SynSession(fmt.Sprintf("b%02d%05d", r, k))
					got[k].want = want
					rw := httptest.NewRecorder()
					if err := c02NoPanic(func() error { return m.Save(rw, httptest.NewRequest("GET", "http://proxy.test/", nil), ss) }); err != nil {
						got[k].err = err.Error()
						continue
					}
					for _, ck := range rw.Result().Cookies() {
						if ck.Name == cookieOpts.Name && ck.Value != "" {
							got[k].ck = ck
						}
					}
				}
			}(g)
		}
		close(start)
		wg.Wait()
		base := len(recs)
		for k := range got {
			if strings.HasPrefix(got[k].err, c02PanicPrefix) {
				report("c02:panic-in-concurrent-credential-issuing", fmt.Sprintf("[%s/%s] saving sessions of different users at the same time panics: %s", c.g.Store, c.g.Form.Name, vfTrunc(got[k].err, 200)),
					map[string]interface{}{"cookie_options_of": P.P.Flags, "how": fmt.Sprintf("persistence.NewManager(in-memory store, the instance's cookie options); %d goroutines x %d Save calls of distinct sessions on requests without cookies", bW, per), "panic": got[k].err})
				return
			}
			if got[k].err != "" || got[k].ck == nil {
				run.T.Fatalf("C02 rig: persistence.Manager.Save %d/%d failed: %s", r, k, got[k].err)
			}
			tk := c02TicketOf(got[k].ck.Value)
			if !tk.OK {
				run.T.Fatalf("C02 rig: ticket cookie of persistence.Manager.Save is not of the documented form: %q", got[k].ck.Value)
			}
			recs = append(recs, c02TicketRec{ID: tk.ID, Secret: tk.Secret, Who: got[k].want.Email, Via: fmt.Sprintf("persistence.Manager.Save, round %d (in-memory store, %d goroutines)", r, bW)})
		}
		run.Eval(cellBase + "store-entries-volume")
		if store.Len() != len(got) {
			report("c02:concurrent-logins-share-a-store-entry", fmt.Sprintf("[%s/%s] %d sessions of different users saved at the same time left %d store entries", c.g.Store, c.g.Form.Name, len(got), store.Len()),
				map[string]interface{}{"cookie_options_of": P.P.Flags, "how": fmt.Sprintf("persistence.NewManager(in-memory store, the instance's cookie options); %d goroutines x %d Save calls of distinct sessions on requests without cookies", bW, per),
					"saves": len(got), "store_entries": store.Len()})
		}
		// decode: every 16th, and every one whose ticket id occurs twice in this round
		check := map[int]bool{}
		first := map[string]int{}
		for k := range got {
			id := recs[base+k].ID
			if j, dup := first[id]; dup {
				check[j], check[k] = true, true
			} else {
				first[id] = k
			}
			if k%16 == 0 {
				check[k] = true
			}
		}
		for k := range check {
			req := httptest.NewRequest("GET", "http://proxy.test/", nil)
			req.AddCookie(got[k].ck)
			ss, err := m.Load(req)
			run.Count("concurrently_issued_tickets_decoded", 1)
			how := fmt.Sprintf("persistence.NewManager(in-memory store, the instance's cookie options); %d goroutines x %d Save calls of distinct sessions at the same time; then Load with the unmodified cookie", bW, per)
			switch id := c02IdentOf(ss); {
			case err != nil || ss == nil:
				report("c02:issued-cookie-rejected-unmodified", fmt.Sprintf("[%s/%s] the ticket cookie issued to %s is rejected when presented unmodified", c.g.Store, c.g.Form.Name, got[k].want.Email),
					map[string]interface{}{"cookie_options_of": P.P.Flags, "cookie": got[k].ck.Name + "=" + got[k].ck.Value, "issued_to": got[k].want.short(), "how": how, "error": fmt.Sprint(err)})
			case id != got[k].want:
				report("c02:issued-cookie-decodes-to-another-session", fmt.Sprintf("[%s/%s] the unmodified ticket cookie issued to %s decodes to the session of %s", c.g.Store, c.g.Form.Name, got[k].want.Email, id.Email),
					map[string]interface{}{"cookie_options_of": P.P.Flags, "cookie": got[k].ck.Name + "=" + got[k].ck.Value, "issued_to": got[k].want.short(), "decodes_to": id.short(), "how": how})
			}
		}
		run.EvalN("", int64(len(check)))
	}

	// ---- (a) independence of everything issued in this group
	shared := c02SharedBlocks(recs)
	run.Eval(cellBase + "independence")
	run.Count("concurrent_tickets_compared", int64(len(recs)))
	run.Count("ticket_blocks_shared", int64(len(shared)))
	if testing.Verbose() {
		fmt.Printf("NOTE c02 %s/%s: %d concurrently issued tickets compared, %d shared 8-byte blocks\n", c.g.Store, c.g.Form.Name, len(recs), len(shared))
	}
	for i, s := range shared {
		if i >= 3 {
			break
		}
		a, b := recs[s.A], recs[s.B]
		_, wa := c02RandomBlocks(a)
		_, wb := c02RandomBlocks(b)
		whole := ""
		if a.ID == b.ID && a.Secret == b.Secret {
			whole = " (the two tickets are identical: either cookie opens whichever session was saved last)"
		} else if a.ID == b.ID {
			whole = " (same store key: the later save replaces the earlier user's session)"
		}
		report("c02:concurrently-issued-tickets-not-independent", fmt.Sprintf("[%s/%s] tickets issued at the same time to %s and %s carry the same 8 random bytes %016x (%s / %s)%s; %d such blocks among %d tickets",
			c.g.Store, c.g.Form.Name, a.Who, b.Who, s.Block, wa[s.PosA], wb[s.PosB], whole, len(shared), len(recs)),
			map[string]interface{}{"flags": P.P.Flags, "secret_form": c.g.Form.Name,
				"ticket_a": map[string]string{"issued_to": a.Who, "id": a.ID, "secret_hex": hex.EncodeToString([]byte(a.Secret)), "via": a.Via, "cookie": a.Cookie},
				"ticket_b": map[string]string{"issued_to": b.Who, "id": b.ID, "secret_hex": hex.EncodeToString([]byte(b.Secret)), "via": b.Via, "cookie": b.Cookie},
				"how":      "tickets are issued to distinct sessions from many goroutines at once (real logins; the instance's SaveSession on the Redis store; the store-independent ticket issuer persistence.Manager over an in-memory store); ids and secrets are read back from the Set-Cookie values",
				"expected": "16 fresh random bytes for every ticket id and every ticket secret: no 8-byte block occurs twice"})
	}
}

// c02BulkRoundsQuick: rounds of 16 x 500 saves of the volume phase per Redis group in the quick tier
const c02BulkRoundsQuick = 2
