//go:build verif

package main

// rig_providers: provider-type sweep shared by C14 (c14_providers.go) and C19 (c19_providers.go).
//
//   - vfPvBackend: a scripted catch-all backend (one httptest server per provider-type variant) that serves EVERY endpoint
//     the non-generic provider types call: token/redeem (authorization_code and refresh_token grants), GitHub / Gitea API
//     (user, e-mails, orgs, teams, repo, collaborator), Bitbucket (e-mails, teams, repositories), DigitalOcean account,
//     Facebook me, LinkedIn e-mail, Nextcloud OCS user, Keycloak / login.gov userinfo, Microsoft Graph me, key sets, and a
//     validation URL. It knows which access tokens it issued (anything else: 401), logs every call, and can answer the k-th
//     call after Arm() (or all of them) with a scripted reply derived from the benign one.
//   - vfPvTypes: the provider-type table (legacy flags only, all outbound calls pointed at the backend).
//   - vfPvKinds / vfPvTyped: response kinds; the wrongly-typed / missing-field kinds are GENERATED from the benign JSON body of
//     the very call that is faulted (every leaf and container of it), so they cover every field a provider reads as long as
//     the benign body carries it.
//   - vfPvSweep: drives login and stale-session flows through the fault grid and hands every outcome to a judge callback
//     (C14: fail closed; C19: no panic).

import (
	"crypto/x509"
	"encoding/json"
	"encoding/pem"
	"fmt"
	"hash/fnv"
	"net"
	"net/http"
	"net/http/httptest"
	"net/url"
	"os"
	"sort"
	"strings"
	"sync"
	"time"

	"github.com/oauth2-proxy/oauth2-proxy/v7/pkg/clock"
)

// ---------------------------------------------------------------------------------------------------------
// backend

type vfPvIdent struct {
	Login string
	Email string
}

type vfPvCall struct {
	Name    string `json:"name"`
	Method  string `json:"method"`
	Target  string `json:"target"`
	Auth    string `json:"authorization,omitempty"`
	Status  int    `json:"status"` // -1: connection reset / closed without an answer
	Body    string `json:"body_sent"`
	Faulted bool   `json:"faulted,omitempty"`
	Full    []byte `json:"-"` // the benign body of the call, unabridged
}

type vfPvReply struct {
	Status int
	CT     string
	Body   []byte
	Reset  bool // RST
	Close  bool // orderly close without a response
}

type vfPvBackend struct {
	Srv *httptest.Server
	URL string
	// shape of the benign answers (fixed per variant)
	TokenShape   string // plain | google | logingov | azure
	ProfileShape string // azure profile: mail | othermails | upn
	Org, Team    string
	Repo         string
	ClientID     string

	mu       sync.Mutex
	ctr      int
	codes    map[string]*vfPvGrant
	tokens   map[string]vfPvIdent // live access tokens
	refresh  map[string]vfPvIdent
	calls    []vfPvCall
	sent     []string // everything asserted to the proxy since Arm (bodies, decoded ID-token payloads)
	armed    bool
	armPos   int // -1: every call
	armKind  *vfPvKind
	armCount int
	fired    int
	sticky   string // "METHOD target" of the call answered with a transport fault: net/http retries such calls on a fresh connection, the retry gets the same answer
}

type vfPvGrant struct {
	Ident vfPvIdent
	Nonce string
	Used  bool
}

func vfPvNewBackend() *vfPvBackend {
	vfKeys()
	b := &vfPvBackend{codes: map[string]*vfPvGrant{}, tokens: map[string]vfPvIdent{}, refresh: map[string]vfPvIdent{}, TokenShape: "plain", ClientID: "cid"}
	b.Srv = httptest.NewServer(http.HandlerFunc(b.serve))
	b.URL = b.Srv.URL
	return b
}

func (b *vfPvBackend) Close() { b.Srv.CloseClientConnections(); b.Srv.Close() }

// NewCode plays the authorization endpoint for the browser.
func (b *vfPvBackend) NewCode(id vfPvIdent, nonce string) string {
	b.mu.Lock()
	defer b.mu.Unlock()
	b.ctr++
	code := fmt.Sprintf("pvcode-%d-%s", b.ctr, vfRandHex(5))
	b.codes[code] = &vfPvGrant{Ident: id, Nonce: nonce}
	return code
}

// Revoke kills every token of the identity.
func (b *vfPvBackend) Revoke(login string) {
	b.mu.Lock()
	defer b.mu.Unlock()
	for t, id := range b.tokens {
		if id.Login == login {
			delete(b.tokens, t)
		}
	}
	for t, id := range b.refresh {
		if id.Login == login {
			delete(b.refresh, t)
		}
	}
}

// Arm: from now on calls are counted from 0; the call at position pos (pos < 0: every call) is answered with kind.
func (b *vfPvBackend) Arm(pos int, kind *vfPvKind) {
	b.mu.Lock()
	b.calls, b.sent, b.armed, b.armPos, b.armKind, b.armCount, b.fired, b.sticky = nil, nil, kind != nil, pos, kind, 0, 0, ""
	b.mu.Unlock()
}

// Disarm returns the calls since Arm, how many were answered with the fault, and everything that was asserted.
func (b *vfPvBackend) Disarm() (calls []vfPvCall, fired int, sent []string) {
	b.mu.Lock()
	defer b.mu.Unlock()
	b.armed = false
	return append([]vfPvCall{}, b.calls...), b.fired, append([]string{}, b.sent...)
}

func (b *vfPvBackend) tokenOf(r *http.Request) string {
	a := r.Header.Get("Authorization")
	for _, p := range []string{"Bearer ", "token ", "bearer "} {
		if strings.HasPrefix(a, p) {
			return strings.TrimPrefix(a, p)
		}
	}
	return r.URL.Query().Get("access_token")
}

func (b *vfPvBackend) issue(id vfPvIdent, nonce string) map[string]interface{} {
	// caller holds b.mu
	b.ctr++
	now := time.Now()
	at := fmt.Sprintf("pvat-%d-%s", b.ctr, vfRandHex(8))
	base := map[string]interface{}{"iss": b.URL, "aud": b.ClientID, "sub": "sub-" + id.Login, "exp": now.Add(time.Hour).Unix(), "iat": now.Unix()}
	if b.TokenShape == "azure" {
		at = vfMint(map[string]interface{}{"iss": b.URL, "aud": b.ClientID, "sub": "sub-" + id.Login, "exp": now.Add(time.Hour).Unix(), "iat": now.Unix(), "jti": vfRandHex(6)}, vfMintOpts{})
	}
	rt := fmt.Sprintf("pvrt-%d-%s", b.ctr, vfRandHex(8))
	b.tokens[at] = id
	b.refresh[rt] = id
	resp := map[string]interface{}{"access_token": at, "token_type": "bearer", "scope": "user:email"}
	switch b.TokenShape {
	case "google":
		base["email"], base["email_verified"] = id.Email, true
		resp["id_token"], resp["refresh_token"], resp["expires_in"] = vfMint(base, vfMintOpts{}), rt, 3600
	case "logingov":
		base["email"], base["email_verified"], base["nonce"] = id.Email, true, nonce
		resp["id_token"], resp["expires_in"] = vfMint(base, vfMintOpts{}), 3600
	case "azure":
		if b.ProfileShape == "token" {
			base["email"] = id.Email
		}
		resp["id_token"], resp["refresh_token"], resp["expires_on"] = vfMint(base, vfMintOpts{}), rt, fmt.Sprint(now.Add(time.Hour).Unix())
	}
	return resp
}

// benign computes the ordinary answer of the backend: logical call name, status, JSON value (nil: no body).
func (b *vfPvBackend) benign(r *http.Request) (name string, status int, val interface{}) {
	p := r.URL.Path
	b.mu.Lock()
	defer b.mu.Unlock()
	deny := map[string]interface{}{"message": "Bad credentials", "error": "invalid_token"}
	if p == "/token" {
		_ = r.ParseForm()
		if r.Form.Get("grant_type") == "refresh_token" {
			id, ok := b.refresh[r.Form.Get("refresh_token")]
			if !ok {
				return "refresh", 400, map[string]interface{}{"error": "invalid_grant"}
			}
			delete(b.refresh, r.Form.Get("refresh_token"))
			for t, i := range b.tokens {
				if i.Login == id.Login {
					delete(b.tokens, t)
				}
			}
			return "refresh", 200, b.issue(id, "")
		}
		g := b.codes[r.Form.Get("code")]
		if g == nil || g.Used {
			return "token", 400, map[string]interface{}{"error": "invalid_grant", "error_description": "unknown or used code"}
		}
		g.Used = true
		return "token", 200, b.issue(g.Ident, g.Nonce)
	}
	if p == "/jwks" {
		return "jwks", 200, map[string]interface{}{"keys": []interface{}{vfPvJWK()}}
	}
	tok := b.tokenOf(r)
	id, ok := b.tokens[tok]
	gh := ""
	for _, pre := range []string{"/api/v3", "/api/v1"} {
		if p == pre || strings.HasPrefix(p, pre+"/") {
			gh = strings.TrimPrefix(p, pre)
		}
	}
	name = "other"
	switch {
	case p == "/validate" || p == "/tokeninfo":
		name = "validate"
	case gh == "/user/orgs":
		name = "orgs"
	case gh == "/user/teams":
		name = "teams"
	case gh == "/user/emails":
		name = "emails"
	case gh == "/user":
		name = "user"
	case strings.Contains(gh, "/collaborators/"):
		name = "collaborator"
	case strings.HasPrefix(gh, "/repos/"):
		name = "repo"
	case gh == "" && (p == "/api/v3" || p == "/api/v1"):
		name = "validate"
	case p == "/userinfo":
		name = "profile"
	case p == "/2.0/user/emails":
		name = "emails"
	case p == "/2.0/teams":
		name = "teams"
	case strings.HasPrefix(p, "/2.0/repositories/"):
		name = "repos"
	case p == "/v2/account", p == "/me", p == "/v2/emailAddress", p == "/ocs/v2.php/cloud/user", p == "/v1.0/me":
		name = "profile"
	}
	if name == "collaborator" {
		// authenticated with the operator's token (--github-token), not the user's
		if tok != "operator-token" {
			return name, 401, deny
		}
		return name, 204, nil
	}
	if !ok {
		return name, 401, deny
	}
	page := r.URL.Query().Get("page")
	switch name {
	case "validate":
		return name, 200, map[string]interface{}{"ok": true, "user_id": "sub-" + id.Login, "expires_in": 3000}
	case "orgs":
		if page != "" && page != "1" {
			return name, 200, []interface{}{}
		}
		return name, 200, []interface{}{map[string]interface{}{"login": b.Org, "id": 7}, map[string]interface{}{"login": "other-org", "id": 8}}
	case "teams":
		if r.URL.Path == "/2.0/teams" {
			return name, 200, map[string]interface{}{"values": []interface{}{map[string]interface{}{"username": b.Team}, map[string]interface{}{"username": "other-team"}}}
		}
		if page != "" && page != "1" {
			return name, 200, []interface{}{}
		}
		return name, 200, []interface{}{map[string]interface{}{"name": "Team " + b.Team, "slug": b.Team, "organization": map[string]interface{}{"login": b.Org}}}
	case "emails":
		if r.URL.Path == "/2.0/user/emails" {
			return name, 200, map[string]interface{}{"values": []interface{}{map[string]interface{}{"email": "second-" + id.Email, "is_primary": false}, map[string]interface{}{"email": id.Email, "is_primary": true}}}
		}
		return name, 200, []interface{}{map[string]interface{}{"email": "second-" + id.Email, "primary": false, "verified": true}, map[string]interface{}{"email": id.Email, "primary": true, "verified": true}}
	case "user":
		return name, 200, map[string]interface{}{"login": id.Login, "email": "public-" + id.Email, "id": 99}
	case "repo":
		return name, 200, map[string]interface{}{"permissions": map[string]interface{}{"pull": true, "push": true}, "private": true, "full_name": b.Repo}
	case "repos":
		return name, 200, map[string]interface{}{"values": []interface{}{map[string]interface{}{"full_name": b.Repo}}}
	case "profile":
		switch p {
		case "/userinfo":
			return name, 200, map[string]interface{}{"sub": "sub-" + id.Login, "email": id.Email, "email_verified": true, "groups": []interface{}{"g1", "g2"}, "preferred_username": "pu-" + id.Login, "user": id.Login}
		case "/v2/account":
			return name, 200, map[string]interface{}{"account": map[string]interface{}{"email": id.Email, "uuid": "sub-" + id.Login, "email_verified": true}}
		case "/me":
			return name, 200, map[string]interface{}{"name": id.Login, "email": id.Email, "id": "99"}
		case "/v2/emailAddress":
			return name, 200, map[string]interface{}{"elements": []interface{}{map[string]interface{}{"handle": "urn:li:emailAddress:1", "handle~": map[string]interface{}{"emailAddress": id.Email}}}}
		case "/ocs/v2.php/cloud/user":
			return name, 200, map[string]interface{}{"ocs": map[string]interface{}{"meta": map[string]interface{}{"status": "ok"}, "data": map[string]interface{}{"id": id.Login, "email": id.Email, "groups": []interface{}{"g1", "g2"}}}}
		case "/v1.0/me":
			switch b.ProfileShape {
			case "othermails":
				return name, 200, map[string]interface{}{"id": "sub-" + id.Login, "mail": nil, "otherMails": []interface{}{id.Email}, "userPrincipalName": "upn-" + id.Email}
			case "upn":
				return name, 200, map[string]interface{}{"id": "sub-" + id.Login, "mail": nil, "otherMails": []interface{}{}, "userPrincipalName": id.Email}
			}
			return name, 200, map[string]interface{}{"id": "sub-" + id.Login, "mail": id.Email, "otherMails": []interface{}{"other-" + id.Email}, "userPrincipalName": "upn-" + id.Email}
		}
	}
	return name, 404, map[string]interface{}{"message": "Not Found"}
}

func vfPvJWK() map[string]interface{} {
	n := vfKeyA.PublicKey.N.Bytes()
	e := []byte{1, 0, 1}
	return map[string]interface{}{"kty": "RSA", "kid": "k1", "alg": "RS256", "use": "sig", "n": vfB64(n), "e": vfB64(e)}
}

func (b *vfPvBackend) serve(w http.ResponseWriter, r *http.Request) {
	name, status, val := b.benign(r)
	var body []byte
	if val != nil {
		body, _ = json.Marshal(val)
	}
	rep := &vfPvReply{Status: status, Body: body}
	b.mu.Lock()
	faulted := false
	if b.armed {
		key := r.Method + " " + r.URL.RequestURI()
		if b.armPos < 0 || b.armCount == b.armPos || (b.sticky != "" && b.sticky == key) {
			rep = b.armKind.Make(body, status)
			faulted = true
			b.fired++
			if b.armKind.Class == "transport" {
				b.sticky = key
			}
		}
		b.armCount++
	}
	call := vfPvCall{Name: name, Method: r.Method, Target: vfTrunc(r.URL.RequestURI(), 200), Auth: vfTrunc(r.Header.Get("Authorization"), 60), Status: rep.Status, Body: vfTrunc(string(rep.Body), 600), Faulted: faulted, Full: body}
	if rep.Reset || rep.Close {
		call.Status = -1
	} else {
		b.sent = append(b.sent, string(rep.Body))
		for _, tk := range vfPvFindJWTs(rep.Body) {
			if cl := vfJWTClaims(tk); cl != nil {
				cj, _ := json.Marshal(cl)
				b.sent = append(b.sent, string(cj))
			}
		}
	}
	b.calls = append(b.calls, call)
	b.mu.Unlock()
	if rep.Reset || rep.Close {
		if hj, ok := w.(http.Hijacker); ok {
			if c, _, err := hj.Hijack(); err == nil {
				if tc, ok := c.(*net.TCPConn); ok && rep.Reset {
					_ = tc.SetLinger(0)
				}
				_ = c.Close()
			}
		}
		return
	}
	ct := rep.CT
	if ct == "" {
		ct = "application/json"
	}
	w.Header().Set("Content-Type", ct)
	w.WriteHeader(rep.Status)
	_, _ = w.Write(rep.Body)
}

// vfPvFindJWTs: string values of a JSON object that look like JWTs (so that their claims count as asserted).
func vfPvFindJWTs(body []byte) []string {
	var m map[string]interface{}
	dec := json.NewDecoder(strings.NewReader(string(body)))
	dec.UseNumber()
	if dec.Decode(&m) != nil {
		return nil
	}
	var out []string
	for _, v := range m {
		if s, ok := v.(string); ok && strings.Count(s, ".") == 2 && len(s) > 40 {
			out = append(out, s)
		}
	}
	return out
}

// ---------------------------------------------------------------------------------------------------------
// response kinds

type vfPvKind struct {
	Name  string
	Class string // status | status-benign-body | transport | nonjson | shape | typed | tolerable
	Path  string // typed kinds: the JSON path that was altered
	Make  func(benign []byte, benignStatus int) *vfPvReply
}

// Failing: the answer cannot be mistaken for a successful one (non-200 status or no answer at all).
func (k *vfPvKind) Failing() bool {
	return k.Class == "status" || k.Class == "status-benign-body" || k.Class == "transport"
}

func vfPvKinds() []vfPvKind {
	fixed := func(st int, ct, body string) func([]byte, int) *vfPvReply {
		return func([]byte, int) *vfPvReply { return &vfPvReply{Status: st, CT: ct, Body: []byte(body)} }
	}
	var ks []vfPvKind
	for _, st := range []int{400, 401, 403, 404, 429, 500, 503} {
		ks = append(ks, vfPvKind{Name: fmt.Sprintf("http-%d", st), Class: "status", Make: fixed(st, "", fmt.Sprintf(`{"error":"scripted_%d","message":"scripted failure"}`, st))})
	}
	for _, st := range []int{401, 500} {
		st := st
		ks = append(ks, vfPvKind{Name: fmt.Sprintf("http-%d-with-the-ordinary-body", st), Class: "status-benign-body", Make: func(b []byte, _ int) *vfPvReply { return &vfPvReply{Status: st, Body: b} }})
	}
	ks = append(ks,
		vfPvKind{Name: "connection-reset", Class: "transport", Make: func([]byte, int) *vfPvReply { return &vfPvReply{Reset: true} }},
		vfPvKind{Name: "immediate-close", Class: "transport", Make: func([]byte, int) *vfPvReply { return &vfPvReply{Close: true} }},
		vfPvKind{Name: "empty-body", Class: "nonjson", Make: fixed(200, "", "")},
		vfPvKind{Name: "html", Class: "nonjson", Make: fixed(200, "text/html", "<html><body><h1>Sign in</h1></body></html>")},
		vfPvKind{Name: "truncated-json", Class: "nonjson", Make: func(b []byte, _ int) *vfPvReply {
			if len(b) < 4 {
				b = []byte(`{"access_token":"abc","x":[1,2`)
			}
			return &vfPvReply{Status: 200, Body: b[:len(b)*2/3]}
		}},
		vfPvKind{Name: "json-null", Class: "shape", Make: fixed(200, "", "null")},
		vfPvKind{Name: "json-empty-list", Class: "shape", Make: fixed(200, "", "[]")},
		vfPvKind{Name: "json-empty-object", Class: "shape", Make: fixed(200, "", "{}")},
		vfPvKind{Name: "json-string", Class: "shape", Make: fixed(200, "", `"str"`)},
		vfPvKind{Name: "json-number", Class: "shape", Make: fixed(200, "", `12345678901234567890123456789012345678901234567890`)},
		vfPvKind{Name: "json-list-of-scalars", Class: "shape", Make: fixed(200, "", `[1,"a",null,true,[],{}]`)},
		vfPvKind{Name: "json-list-of-null", Class: "shape", Make: fixed(200, "", `[null]`)},
		vfPvKind{Name: "deeply-nested", Class: "shape", Make: fixed(200, "", strings.Repeat("[", 12000)+strings.Repeat("]", 12000))},
		vfPvKind{Name: "deeply-nested-object", Class: "shape", Make: fixed(200, "", strings.Repeat(`{"a":`, 3000)+"1"+strings.Repeat("}", 3000))},
		vfPvKind{Name: "extra-fields", Class: "tolerable", Make: func(b []byte, st int) *vfPvReply {
			var v interface{}
			if json.Unmarshal(b, &v) == nil {
				if m, ok := v.(map[string]interface{}); ok {
					m["zz_extra"], m["zz_extra_obj"], m["zz_huge"] = "x", map[string]interface{}{"a": []interface{}{1, nil}}, json.Number("1e400")
					nb, _ := json.Marshal(m)
					return &vfPvReply{Status: st, Body: nb}
				}
				if l, ok := v.([]interface{}); ok {
					l = append(l, map[string]interface{}{"zz_extra": 1}, nil)
					nb, _ := json.Marshal(l)
					return &vfPvReply{Status: st, Body: nb}
				}
			}
			return &vfPvReply{Status: st, Body: b}
		}},
	)
	return ks
}

// vfPvTyped generates, from the benign JSON body of a call, one kind per (path, replacement): every leaf and every
// container replaced by a value of each other JSON type, by a huge number, by an empty string / list, and removed.
func vfPvTyped(benign []byte) []vfPvKind {
	var root interface{}
	if len(benign) == 0 || json.Unmarshal(benign, &root) != nil {
		return nil
	}
	type pathT []interface{} // string keys / int indexes
	var paths []pathT
	var walk func(v interface{}, p pathT)
	walk = func(v interface{}, p pathT) {
		if len(p) > 0 {
			paths = append(paths, append(pathT{}, p...))
		}
		switch t := v.(type) {
		case map[string]interface{}:
			keys := make([]string, 0, len(t))
			for k := range t {
				keys = append(keys, k)
			}
			sort.Strings(keys)
			for _, k := range keys {
				walk(t[k], append(p, k))
			}
		case []interface{}:
			for i := range t {
				if i > 1 {
					break
				}
				walk(t[i], append(p, i))
			}
		}
	}
	walk(root, nil)
	render := func(p pathT) string {
		var sb strings.Builder
		for _, e := range p {
			switch t := e.(type) {
			case string:
				if sb.Len() > 0 {
					sb.WriteByte('.')
				}
				sb.WriteString(t)
			case int:
				fmt.Fprintf(&sb, "[%d]", t)
			}
		}
		return sb.String()
	}
	repl := []struct {
		name string
		v    interface{}
	}{
		{"number", json.Number("123")}, {"huge-number", json.Number("1e400")}, {"negative", json.Number("-1")}, {"float", json.Number("1.5")}, {"list-of-number", []interface{}{json.Number("1")}}, {"list-of-string", []interface{}{"zz"}}, {"empty-list", []interface{}{}},
		{"object", map[string]interface{}{"a": json.Number("1")}}, {"bool", true}, {"false", false}, {"null", nil}, {"string", "zz-str"}, {"empty-string", ""}, {"numeric-string", "123"},
	}
	var out []vfPvKind
	for _, p := range paths {
		p := p
		ps := render(p)
		mutate := func(apply func(parent interface{}, last interface{})) func([]byte, int) *vfPvReply {
			return func(b []byte, st int) *vfPvReply {
				var v interface{}
				dec := json.NewDecoder(strings.NewReader(string(b)))
				dec.UseNumber()
				if dec.Decode(&v) != nil {
					return &vfPvReply{Status: st, Body: b}
				}
				cur := v
				for i := 0; i < len(p)-1 && cur != nil; i++ {
					switch e := p[i].(type) {
					case string:
						m, _ := cur.(map[string]interface{})
						cur = m[e]
					case int:
						l, _ := cur.([]interface{})
						if e < len(l) {
							cur = l[e]
						} else {
							cur = nil
						}
					}
				}
				if cur != nil {
					apply(cur, p[len(p)-1])
				}
				nb, _ := json.Marshal(v)
				return &vfPvReply{Status: st, Body: nb}
			}
		}
		for _, r := range repl {
			r := r
			out = append(out, vfPvKind{Name: "wrong-type:" + ps + "=" + r.name, Class: "typed", Path: ps, Make: mutate(func(parent, last interface{}) {
				switch e := last.(type) {
				case string:
					if m, ok := parent.(map[string]interface{}); ok {
						m[e] = r.v
					}
				case int:
					if l, ok := parent.([]interface{}); ok && e < len(l) {
						l[e] = r.v
					}
				}
			})})
		}
		if k, ok := p[len(p)-1].(string); ok {
			out = append(out, vfPvKind{Name: "missing:" + ps, Class: "typed", Path: ps, Make: mutate(func(parent, _ interface{}) {
				if m, ok := parent.(map[string]interface{}); ok {
					delete(m, k)
				}
			})})
		}
	}
	return out
}

// ---------------------------------------------------------------------------------------------------------
// provider types

type vfPvType struct {
	Name    string // cell name, e.g. github/org+team
	Primary bool   // full grid in the quick tier (others: the positions that differ)
	Setup   func(b *vfPvBackend, w *vfWorld) []string
	// Roles: what a call is for in THIS variant (call name -> token | identity | authz | validate | optional); names not
	// listed are "optional" (nothing asserted beyond the general rules)
	Roles   map[string]string
	Refresh bool // the type implements a refresh grant (stale session: refresh, then validation)
	// LastIsValidate: the type validates at the same URL it reads the identity from; the LAST call of a login is the validation
	LastIsValidate bool
	// IdentityLast: only the LAST occurrence of a call with role "identity" establishes the identity (earlier ones are
	// best-effort claim look-ups whose failure the type tolerates: role optional)
	IdentityLast bool
}

func vfPvCommon(b *vfPvBackend, ptype string) []string {
	return []string{"--provider=" + ptype, "--login-url=" + b.URL + "/authorize", "--redeem-url=" + b.URL + "/token", "--oidc-issuer-url=", "--cookie-refresh=1m", "--insecure-oidc-skip-nonce=true"}
}

func vfPvTypes() []vfPvType {
	gh := func(api string, extra ...string) func(b *vfPvBackend, w *vfWorld) []string {
		return func(b *vfPvBackend, w *vfWorld) []string {
			b.Org, b.Team, b.Repo = "acme", "core", "acme/widget"
			return append(append(vfPvCommon(b, "github"), "--validate-url="+b.URL+api), extra...)
		}
	}
	simple := func(ptype string, flags ...string) func(b *vfPvBackend, w *vfWorld) []string {
		return func(b *vfPvBackend, w *vfWorld) []string {
			b.Team, b.Repo = "core", "acme/widget"
			out := vfPvCommon(b, ptype)
			for _, f := range flags {
				out = append(out, strings.ReplaceAll(f, "$B", b.URL))
			}
			return out
		}
	}
	ghRoles := func(extra map[string]string) map[string]string {
		m := map[string]string{"token": "token", "emails": "identity", "user": "identity", "validate": "validate", "orgs": "authz", "teams": "authz"}
		for k, v := range extra {
			m[k] = v
		}
		return m
	}
	return []vfPvType{
		{Name: "github", Primary: true, Setup: gh("/api/v3"), Roles: ghRoles(nil)},
		{Name: "github/gitea-style-url", LastIsValidate: true, Setup: gh("/api/v1/user/emails"), Roles: ghRoles(nil)},
		{Name: "github/org", Setup: gh("/api/v3", "--github-org=acme"), Roles: ghRoles(nil)},
		{Name: "github/org+team", Setup: gh("/api/v3", "--github-org=acme", "--github-team=other,core"), Roles: ghRoles(nil)},
		{Name: "github/repo", Setup: gh("/api/v3", "--github-repo=acme/widget"), Roles: ghRoles(map[string]string{"repo": "authz"})},
		{Name: "github/repo+token", Setup: gh("/api/v3", "--github-repo=acme/widget", "--github-token=operator-token"), Roles: ghRoles(map[string]string{"collaborator": "authz"})},
		{Name: "github/user+org", Setup: gh("/api/v3", "--github-org=no-such-org", "--github-user=nobody,pvuser"), Roles: ghRoles(nil)},
		{Name: "keycloak", Primary: true, Setup: simple("keycloak", "--profile-url=$B/userinfo", "--validate-url=$B/validate", "--scope=openid"), Roles: map[string]string{"token": "token", "profile": "identity", "validate": "validate"}},
		{Name: "keycloak/group", Setup: simple("keycloak", "--profile-url=$B/userinfo", "--validate-url=$B/validate", "--keycloak-group=g2"), Roles: map[string]string{"token": "token", "profile": "identity", "validate": "validate"}},
		{Name: "bitbucket", Primary: true, LastIsValidate: true, Setup: simple("bitbucket", "--validate-url=$B/2.0/user/emails"), Roles: map[string]string{"token": "token", "emails": "identity"}},
		{Name: "bitbucket/team", LastIsValidate: true, Setup: simple("bitbucket", "--validate-url=$B/2.0/user/emails", "--bitbucket-team=core"), Roles: map[string]string{"token": "token", "emails": "identity", "teams": "authz"}},
		{Name: "bitbucket/repository", LastIsValidate: true, Setup: simple("bitbucket", "--validate-url=$B/2.0/user/emails", "--bitbucket-repository=acme/widget"), Roles: map[string]string{"token": "token", "emails": "identity", "repos": "authz"}},
		{Name: "digitalocean", Primary: true, Setup: simple("digitalocean", "--profile-url=$B/v2/account", "--validate-url=$B/validate"), Roles: map[string]string{"token": "token", "profile": "identity", "validate": "validate"}},
		{Name: "facebook", Primary: true, Setup: simple("facebook", "--profile-url=$B/me", "--validate-url=$B/validate"), Roles: map[string]string{"token": "token", "profile": "identity", "validate": "validate"}},
		{Name: "linkedin", Primary: true, Setup: simple("linkedin", "--profile-url=$B/v2/emailAddress", "--validate-url=$B/validate"), Roles: map[string]string{"token": "token", "profile": "identity", "validate": "validate"}},
		{Name: "nextcloud", Primary: true, LastIsValidate: true, Setup: simple("nextcloud", "--validate-url=$B/ocs/v2.php/cloud/user"), Roles: map[string]string{"token": "token", "profile": "identity"}},
		{Name: "google", Primary: true, Refresh: true, Setup: func(b *vfPvBackend, w *vfWorld) []string {
			b.TokenShape = "google"
			return append(vfPvCommon(b, "google"), "--validate-url="+b.URL+"/tokeninfo")
		}, Roles: map[string]string{"token": "token", "validate": "validate"}},
		{Name: "login.gov", Primary: true, Setup: func(b *vfPvBackend, w *vfWorld) []string {
			b.TokenShape = "logingov"
			keyPEM := pem.EncodeToMemory(&pem.Block{Type: "RSA PRIVATE KEY", Bytes: x509.MarshalPKCS1PrivateKey(vfKeyB)})
			kf := w.File("logingov-"+vfRandHex(4)+".pem", string(keyPEM))
			return append(vfPvCommon(b, "login.gov"), "--profile-url="+b.URL+"/userinfo", "--validate-url="+b.URL+"/validate", "--jwt-key-file="+kf, "--pubjwk-url="+b.URL+"/jwks", "--client-secret=")
		}, Roles: map[string]string{"token": "token", "jwks": "identity", "profile": "identity", "validate": "validate"}},
		vfPvAzure("azure", "mail", true), vfPvAzure("azure/other-mails", "othermails", false), vfPvAzure("azure/upn", "upn", false), vfPvAzure("azure/email-in-token", "token", false),
	}
}

func vfPvAzure(name, shape string, primary bool) vfPvType {
	roles := map[string]string{"token": "token", "jwks": "identity", "profile": "identity", "validate": "validate"}
	if shape == "token" {
		roles["profile"] = "optional" // the e-mail is in the ID token; the profile is only consulted for claims that are missing
	}
	return vfPvType{Name: name, Primary: primary, Refresh: true, IdentityLast: true, Roles: roles, Setup: func(b *vfPvBackend, w *vfWorld) []string {
		b.TokenShape, b.ProfileShape = "azure", shape
		out := vfPvCommon(b, "azure")
		for k := range out {
			if out[k] == "--oidc-issuer-url=" {
				out[k] = "--oidc-issuer-url=" + b.URL
			}
		}
		return append(out, "--skip-oidc-discovery=true", "--oidc-jwks-url="+b.URL+"/jwks", "--profile-url="+b.URL+"/v1.0/me", "--validate-url="+b.URL+"/validate")
	}}
}

// c14pKnownSkip: TEMPORARY — exact cases that violate a monitor on the UNCHANGED tree (genuine-defect candidates, listed in
// the builder's report); they are skipped (and counted as known_skip) so that the rest of the grid keeps running until the
// decision repair / known finding is taken. VERIF_PV_NOSKIP=1 disables the list (reproduces the candidates).
// An entry matches when the variant name is Type, the flow is Flow, the faulted call is Call and the kind name is Kind (a trailing * makes it a prefix).
var c14pKnownSkip = func() []vfPvSkip {
	var out []vfPvSkip
	add := func(typ, flow, call, why string, kinds ...string) {
		for _, k := range kinds {
			out = append(out, vfPvSkip{typ, flow, call, k, why})
		}
	}
	// (empty: the four candidates found while building the sweep — google.go:122, logingov.go:160, azure.go:440 panics and the
	// azure refresh that emptied the session's e-mail — were repaired in /repo and are listed as fixed in known_findings.json)
	_ = add
	return out
}()

type vfPvSkip struct{ Type, Flow, Call, Kind, Why string }

// vfPvOnly: VERIF_PV_ONLY=1 runs only the provider-type sweep of C14 / C19 (development and replay aid).
func vfPvOnly() bool { return os.Getenv("VERIF_PV_ONLY") != "" }

func vfPvSkipped(typ, flow, call, kind string) bool {
	if os.Getenv("VERIF_PV_NOSKIP") != "" {
		return false
	}
	for _, s := range c14pKnownSkip {
		if typ == s.Type && (s.Flow == "" || s.Flow == flow) && s.Call == call && (kind == s.Kind || (strings.HasSuffix(s.Kind, "*") && strings.HasPrefix(kind, strings.TrimSuffix(s.Kind, "*")))) {
			return true
		}
	}
	return false
}

// ---------------------------------------------------------------------------------------------------------
// sweep

type vfPvObs struct {
	UserinfoCode int      `json:"userinfo_code"`
	User         string   `json:"user"`
	Email        string   `json:"email"`
	Groups       []string `json:"groups,omitempty"`
	ProxiedCode  int      `json:"proxied_code"`
	UpHit        bool     `json:"upstream_hit"`
	UpEmail      string   `json:"upstream_saw_email,omitempty"`
}

func (o vfPvObs) Served() bool { return o.UserinfoCode == 200 || o.UpHit }

type vfPvStep struct {
	Req  *vfReq   `json:"request"`
	Code int      `json:"status"`
	Loc  string   `json:"location,omitempty"`
	Set  []string `json:"session_cookies_set,omitempty"`
}

// vfPvOutcome: everything a judge needs about one executed case.
type vfPvOutcome struct {
	Type            string     `json:"provider_type_variant"`
	Flags           []string   `json:"flags"`
	Flow            string     `json:"flow"`          // login | stale
	Pos             int        `json:"call_position"` // -1: every call of the request
	Call            string     `json:"call_faulted"`
	Role            string     `json:"role_of_the_call"`
	Kind            *vfPvKind  `json:"-"`
	KindName        string     `json:"kind"`
	Fired           int        `json:"fault_delivered_times"`
	Ident           vfPvIdent  `json:"identity_at_the_backend"`
	Calls           []vfPvCall `json:"outbound_calls"`
	Sent            []string   `json:"-"`
	Steps           []vfPvStep `json:"requests"`
	CookieSet       []string   `json:"session_cookies_set_by_the_faulted_request"`
	Obs             vfPvObs    `json:"follow_up_with_the_browser_jar"`
	Obs2            *vfPvObs   `json:"follow_up_after_revocation,omitempty"`
	Panic           string     `json:"panic,omitempty"`
	Stack           string     `json:"stack,omitempty"`
	BadStatus       int        `json:"invalid_status,omitempty"`
	Clean           string     `json:"clean_login_afterwards"` // "", "ok", or what failed
	StaleKeepsEmail bool       `json:"benign_stale_request_keeps_email"`
}

func vfPvPanicSite(stack string) string {
	lines := strings.Split(stack, "\n")
	for i, l := range lines {
		if strings.Contains(l, "panic(") {
			for j := i + 1; j+1 < len(lines); j++ {
				if strings.HasPrefix(lines[j], "\t") && strings.Contains(lines[j], "/repo/") && !strings.Contains(lines[j], "zz_verif_") {
					return strings.TrimSpace(strings.SplitN(lines[j], " +0x", 2)[0])
				}
			}
		}
	}
	return "?"
}

func vfPvSessionCookies(lines []string) []string {
	var out []string
	for _, l := range lines {
		name, rest, _ := strings.Cut(l, "=")
		if !strings.HasPrefix(name, "_oauth2_proxy") || strings.HasSuffix(name, "_csrf") || strings.Contains(name, "_csrf_") {
			continue
		}
		val, attrs, _ := strings.Cut(rest, ";")
		la := strings.ToLower(attrs)
		if val == "" || strings.Contains(la, "max-age=0") || strings.Contains(la, "max-age=-") || strings.Contains(la, "expires=thu, 01 jan 1970") {
			continue
		}
		out = append(out, name)
	}
	return out
}

type vfPvInst struct {
	T               vfPvType
	B               *vfPvBackend
	P               *vfProxy
	W               *vfWorld
	Up              *vfUpstream
	seq             int
	LoginSeq        []string // call names of a benign login
	StaleSeq        []string // call names of a benign stale-session request
	StaleKeepsEmail bool     // a benign refresh / re-validation leaves the session's e-mail as it was
	stale           []*vfPvStale
}

type vfPvStale struct {
	b  *vfBrowser
	id vfPvIdent
}

var vfPvIDMu sync.Mutex
var vfPvIDSeq int

func vfPvReqID() string {
	vfPvIDMu.Lock()
	defer vfPvIDMu.Unlock()
	vfPvIDSeq++
	return fmt.Sprintf("pv-%d", vfPvIDSeq)
}

func (in *vfPvInst) newIdent() vfPvIdent {
	in.seq++
	login := fmt.Sprintf("pvuser%d", in.seq)
	if strings.HasPrefix(in.T.Name, "github/user") {
		login = "pvuser" // the variant allows exactly this user name
	}
	return vfPvIdent{Login: login, Email: fmt.Sprintf("%s-%d@%s.test", login, in.seq, strings.NewReplacer("/", "-", "+", "-", ".", "").Replace(in.T.Name))}
}

// track runs a request of the browser and notes panics / invalid statuses into the outcome.
func (in *vfPvInst) send(b *vfBrowser, o *vfPvOutcome, r *vfReq) *vfResp {
	resp := b.Send(in.P, r)
	if o != nil {
		o.Steps = append(o.Steps, vfPvStep{Req: r, Code: resp.Code, Loc: vfTrunc(resp.Location(), 200), Set: vfPvSessionCookies(resp.SetCookies())})
		if resp.Panic != "" && o.Panic == "" {
			o.Panic, o.Stack = resp.Panic, resp.Stack
		}
		if resp.Panic == "" && resp.Err == "" && (resp.Code < 100 || resp.Code > 599) {
			o.BadStatus = resp.Code
		}
	}
	return resp
}

func (in *vfPvInst) observe(b *vfBrowser, o *vfPvOutcome) vfPvObs {
	var ob vfPvObs
	r1 := in.send(b, o, vfGET("/oauth2/userinfo"))
	ob.UserinfoCode = r1.Code
	if r1.Code == 200 {
		var ui struct {
			User   string   `json:"user"`
			Email  string   `json:"email"`
			Groups []string `json:"groups"`
		}
		_ = json.Unmarshal(r1.Body, &ui)
		ob.User, ob.Email, ob.Groups = ui.User, ui.Email, ui.Groups
	}
	id := vfPvReqID()
	r2 := in.send(b, o, vfGET("/app/x", "X-Vf-Id", id))
	ob.ProxiedCode = r2.Code
	if hits := in.Up.FindHit(id); len(hits) > 0 {
		ob.UpHit, ob.UpEmail = true, hits[0].Header.Get("X-Forwarded-Email")
	}
	return ob
}

// start: /oauth2/start, then the "browser" visits the backend's authorization endpoint; returns the callback target.
func (in *vfPvInst) start(b *vfBrowser, o *vfPvOutcome, id vfPvIdent) (string, error) {
	resp := in.send(b, o, vfGET("/oauth2/start?rd=%2F"))
	if resp.Code != 302 {
		return "", fmt.Errorf("start: status %d", resp.Code)
	}
	u, err := url.Parse(resp.Location())
	if err != nil || !strings.HasPrefix(resp.Location(), in.B.URL+"/authorize") {
		return "", fmt.Errorf("start: Location %q is not the backend's authorization endpoint", resp.Location())
	}
	q := u.Query()
	code := in.B.NewCode(id, q.Get("nonce"))
	return "/oauth2/callback?code=" + vfQueryEscape(code) + "&state=" + vfQueryEscape(q.Get("state")), nil
}

// cleanLogin: complete benign login + authenticated request; "" when fine.
func (in *vfPvInst) cleanLogin() (string, []vfPvCall, *vfBrowser, vfPvIdent) {
	id := in.newIdent()
	b := vfNewBrowser("")
	cb, err := in.start(b, nil, id)
	if err != nil {
		return err.Error(), nil, b, id
	}
	in.B.Arm(0, nil)
	resp := b.Send(in.P, vfGET(cb))
	calls, _, _ := in.B.Disarm()
	if resp.Panic != "" {
		return "callback panicked: " + vfTrunc(resp.Panic, 200), calls, b, id
	}
	if resp.Code != 302 {
		return fmt.Sprintf("callback: status %d: %s", resp.Code, vfTrunc(vfErrText(resp.Body), 300)), calls, b, id
	}
	ob := in.observe(b, nil)
	if ob.UserinfoCode != 200 || !ob.UpHit {
		return fmt.Sprintf("after the callback: userinfo %d, upstream reached %v", ob.UserinfoCode, ob.UpHit), calls, b, id
	}
	if ob.Email != id.Email {
		return fmt.Sprintf("session e-mail %q, the backend asserted %q", ob.Email, id.Email), calls, b, id
	}
	return "", calls, b, id
}

// roleAt: what the call at a position is for (token | identity | authz | validate | refresh | optional | all).
func (in *vfPvInst) roleAt(flow string, pos int, call string) string {
	role := in.T.Roles[call]
	if role == "" {
		role = "optional"
	}
	if pos < 0 {
		return "all"
	}
	if flow == "login" {
		if in.T.LastIsValidate && pos == len(in.LoginSeq)-1 {
			return "validate"
		}
		if in.T.IdentityLast && role == "identity" {
			for k := pos + 1; k < len(in.LoginSeq); k++ {
				if in.LoginSeq[k] == call {
					return "optional"
				}
			}
		}
		return role
	}
	switch {
	case call == "refresh":
		return "refresh"
	case call == "validate" || (in.T.LastIsValidate && pos == len(in.StaleSeq)-1):
		return "validate"
	}
	return "optional"
}

type vfPvCase struct {
	Flow  string
	Pos   int
	Call  string
	Kind  vfPvKind
	Role  string // filled by the sweep before Keep is consulted
	First bool   // first position of this call name in the flow
}

type vfPvOpts struct {
	Prefix     string                                          // c14 | c19 (cell names, counters)
	ExtraFlags func(ti int) []string                           // added to every variant's flags
	Keep       func(t *vfPvType, c *vfPvCase, quick bool) bool // case filter (nil: keep all)
	CleanEvery int                                             // clean login after every n-th case (and after transport faults); 0: only at the end
	Judge      func(o *vfPvOutcome)
	Workers    int
}

func vfPvHash(s string) uint32 { h := fnv.New32a(); _, _ = h.Write([]byte(s)); return h.Sum32() }

func vfPvNames(calls []vfPvCall) []string {
	out := make([]string, len(calls))
	for i, c := range calls {
		out[i] = c.Name
	}
	return out
}

// vfPvSweep builds one backend + proxy instance per provider-type variant, establishes the benign login (variants that cannot
// log in are reported inconclusive and dropped), prepares stale sessions under the pkg/clock mock (must be called while nothing
// else serves requests), and runs the fault grid. Returns per-variant statistics.
func vfPvSweep(run *vfRun, w *vfWorld, opts vfPvOpts) map[string]map[string]interface{} {
	types := vfPvTypes()
	tStart := time.Now()
	quick := !run.Env.Thorough()
	stats := map[string]map[string]interface{}{}
	var statsMu sync.Mutex
	insts := make([]*vfPvInst, len(types))
	cases := make([][]vfPvCase, len(types))
	kinds := vfPvKinds()
	// 1. instances + benign logins (sequential: instance construction excludes serving anyway)
	for ti := range types {
		t := types[ti]
		if only := os.Getenv("VERIF_PV_TYPES"); only != "" && !strings.Contains(","+only+",", ","+t.Name+",") { // development / replay aid
			continue
		}
		be := vfPvNewBackend()
		w.OnClose(be.Close)
		flags := t.Setup(be, w)
		up := w.Upstream("pv-" + opts.Prefix + "-" + t.Name)
		flags = append(flags, "--upstream="+up.URL()+"/")
		if opts.ExtraFlags != nil {
			flags = append(flags, opts.ExtraFlags(ti)...)
		}
		p, err := w.NewProxy(flags...)
		st := map[string]interface{}{"flags": strings.Join(flags, " ")}
		stats[t.Name] = st
		if err != nil {
			st["dropped"] = "instance: " + vfTrunc(err.Error(), 300)
			run.Inconclusive(opts.Prefix + "p: no instance for provider type " + t.Name)
			continue
		}
		in := &vfPvInst{T: t, B: be, P: p, W: w, Up: up}
		benignOK := 0
		var why string
		var calls []vfPvCall
		for k := 0; k < 2; k++ {
			if why, calls, _, _ = in.cleanLogin(); why == "" {
				benignOK++
			}
		}
		st["benign_logins"] = benignOK
		if benignOK < 2 {
			st["dropped"] = "benign login fails: " + why
			run.Inconclusive(opts.Prefix + "p: benign login fails for provider type " + t.Name)
			continue
		}
		in.LoginSeq = vfPvNames(calls)
		st["login_calls"] = strings.Join(in.LoginSeq, " ")
		insts[ti] = in
	}
	// 2. stale sessions: issued ten minutes ago (global pkg/clock mock; nothing else runs)
	clock.Set(time.Now().Add(-10 * time.Minute))
	for _, in := range insts {
		if in == nil {
			continue
		}
		if why, _, b, id := in.cleanLogin(); why == "" {
			in.stale = append(in.stale, &vfPvStale{b, id})
		}
	}
	clock.Reset()
	for ti, in := range insts {
		if in == nil || len(in.stale) == 0 {
			continue
		}
		// probe: the calls of a benign request with a stale session
		s := in.stale[0]
		in.stale = nil
		in.B.Arm(0, nil)
		ob := in.observe(s.b, nil)
		calls, _, _ := in.B.Disarm()
		if !ob.Served() || len(calls) == 0 {
			stats[in.T.Name]["stale_flow"] = fmt.Sprintf("not usable: served %v, calls %v", ob.Served(), vfPvNames(calls))
			continue
		}
		in.StaleSeq = vfPvNames(calls)
		in.StaleKeepsEmail = ob.Email == s.id.Email
		stats[in.T.Name]["stale_calls"] = strings.Join(in.StaleSeq, " ")
		stats[in.T.Name]["benign_stale_request_keeps_email"] = in.StaleKeepsEmail
		_ = ti
	}
	// 3. case lists: a pure function of (seed, tier)
	for ti, in := range insts {
		if in == nil {
			continue
		}
		// benign bodies per position for the generated kinds: replay a login with the recorder on
		bodies := map[string][]byte{}
		{
			_, calls, _, _ := in.cleanLogin()
			for i, c := range calls {
				bodies[fmt.Sprintf("login/%d", i)] = c.Full
			}
		}
		add := func(c vfPvCase) {
			c.Role, c.First = in.roleAt(c.Flow, c.Pos, c.Call), true
			seq := in.LoginSeq
			if c.Flow == "stale" {
				seq = in.StaleSeq
			}
			for k := 0; k < c.Pos && k < len(seq); k++ {
				if seq[k] == c.Call {
					c.First = false
				}
			}
			if vfPvSkipped(in.T.Name, c.Flow, c.Call, c.Kind.Name) {
				run.Count(opts.Prefix+"p_known_skip", 1)
				return
			}
			if opts.Keep != nil && !opts.Keep(&in.T, &c, quick) {
				return
			}
			cases[ti] = append(cases[ti], c)
		}
		for pos, call := range in.LoginSeq {
			for _, k := range kinds {
				add(vfPvCase{Flow: "login", Pos: pos, Call: call, Kind: k})
			}
			for _, k := range vfPvTyped(bodies[fmt.Sprintf("login/%d", pos)]) {
				add(vfPvCase{Flow: "login", Pos: pos, Call: call, Kind: k})
			}
		}
		for pos, call := range in.StaleSeq {
			for _, k := range kinds {
				add(vfPvCase{Flow: "stale", Pos: pos, Call: call, Kind: k})
			}
		}
		if len(in.StaleSeq) > 0 {
			for _, k := range kinds {
				add(vfPvCase{Flow: "stale", Pos: -1, Call: "all", Kind: k})
			}
			if in.T.Refresh {
				// wrongly typed refresh answers: generated from a token answer
				for _, k := range vfPvTyped(bodies["login/0"]) {
					add(vfPvCase{Flow: "stale", Pos: 0, Call: in.StaleSeq[0], Kind: k})
				}
			}
		}
	}
	// 4. the stale sessions the cases need
	tPrep := time.Now()
	clock.Set(time.Now().Add(-10 * time.Minute))
	vfParallel(len(insts), 8, func(ti int) {
		in := insts[ti]
		if in == nil {
			return
		}
		for _, c := range cases[ti] {
			if c.Flow == "stale" {
				if why, _, b, id := in.cleanLogin(); why == "" {
					in.stale = append(in.stale, &vfPvStale{b, id})
				}
			}
		}
	})
	clock.Reset()
	stats["_phases"] = map[string]interface{}{"setup_s": tPrep.Sub(tStart).Seconds(), "stale_sessions_s": time.Since(tPrep).Seconds()}
	tRun := time.Now()
	defer func() { statsMu.Lock(); stats["_phases"]["run_s"] = time.Since(tRun).Seconds(); statsMu.Unlock() }()
	// 5. run
	workers := opts.Workers
	if workers <= 0 {
		workers = 8
	}
	vfParallel(len(insts), workers, func(ti int) {
		in := insts[ti]
		if in == nil {
			return
		}
		t0 := time.Now()
		n, clean := 0, 0
		for ci := range cases[ti] {
			c := &cases[ti][ci]
			o := in.runCase(c)
			n++
			needClean := opts.CleanEvery > 0 && (n%opts.CleanEvery == 0 || c.Kind.Class == "transport")
			if needClean || ci == len(cases[ti])-1 {
				var why string
				for try := 0; try < 3; try++ {
					if why, _, _, _ = in.cleanLogin(); why == "" {
						break
					}
					time.Sleep(30 * time.Millisecond)
				}
				o.Clean = "ok"
				if why != "" {
					o.Clean = why
				} else {
					clean++
				}
			}
			opts.Judge(o)
			in.Up.Reset()
		}
		statsMu.Lock()
		stats[in.T.Name]["cases"] = n
		stats[in.T.Name]["clean_logins_after_faults"] = clean
		stats[in.T.Name]["seconds"] = time.Since(t0).Seconds()
		statsMu.Unlock()
	})
	return stats
}

func (in *vfPvInst) runCase(c *vfPvCase) *vfPvOutcome {
	k := c.Kind
	o := &vfPvOutcome{Type: in.T.Name, Flags: in.P.Flags, Flow: c.Flow, Pos: c.Pos, Call: c.Call, Kind: &k, KindName: k.Name, Role: in.T.Roles[c.Call]}
	if o.Role == "" {
		o.Role = "optional"
	}
	o.Role = in.roleAt(c.Flow, c.Pos, c.Call)
	switch c.Flow {
	case "login":
		o.Ident = in.newIdent()
		b := vfNewBrowser("")
		cb, err := in.start(b, o, o.Ident)
		if err != nil {
			o.Clean = "rig: " + err.Error()
			return o
		}
		in.B.Arm(c.Pos, &k)
		resp := in.send(b, o, vfGET(cb))
		o.Calls, o.Fired, o.Sent = in.B.Disarm()
		o.CookieSet = vfPvSessionCookies(resp.SetCookies())
		o.Obs = in.observe(b, o)
	case "stale":
		if len(in.stale) == 0 {
			o.Clean = "rig: no stale session left"
			return o
		}
		s := in.stale[0]
		in.stale = in.stale[1:]
		o.Ident, o.StaleKeepsEmail = s.id, in.StaleKeepsEmail
		in.B.Arm(c.Pos, &k)
		o.Obs = in.observe(s.b, o)
		o.Calls, o.Fired, o.Sent = in.B.Disarm()
		in.B.Revoke(s.id.Login)
		ob2 := in.observe(s.b, o)
		o.Obs2 = &ob2
	}
	return o
}
